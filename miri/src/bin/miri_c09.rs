//! C09 under Miri: scalar primitives vs references and SIMD helpers (AVX2/SSE2/SSE4.1
//! intrinsics are interpreted by Miri) vs portable fallback, for buffer lengths sharded over
//! processes. Detects UB (out-of-bounds vector loads, unaligned/invalid pointer use) that a
//! native run would not necessarily show.
use cascette_cache::simd::{CpuFeatures, SimdHashOperations, SimdMemoryOps};
use cascette_crypto::salsa20::encrypt_salsa20;
use cascette_crypto::{Arc4Cipher, Salsa20Cipher, hashlittle2};
use vh_miri::{R, lookup3, rc4, salsa20};

fn main() {
    let a: Vec<String> = std::env::args().collect();
    let shard: usize = a.get(1).and_then(|s| s.parse().ok()).unwrap_or(0);
    let n: usize = a.get(2).and_then(|s| s.parse().ok()).unwrap_or(1);
    let seed: u64 = a.get(3).and_then(|s| s.parse().ok()).unwrap_or(1);
    let mut r = R(0x9e37_79b9_7f4a_7c15 ^ (seed << 8) ^ shard as u64);
    let mut cases = 0u64;
    let subsets: Vec<CpuFeatures> = (0u8..8)
        .map(|m| CpuFeatures { sse2: m & 1 != 0, sse4_1: m & 2 != 0, avx2: m & 4 != 0, avx512: false })
        .collect();
    let none = CpuFeatures::none();
    let max_len = 100usize;
    for len in (0..=max_len).filter(|l| l % n == shard) {
        // --- scalar primitives
        let key: [u8; 16] = r.bytes(16).try_into().unwrap();
        let iv = r.bytes(8);
        let msg = r.bytes(len);
        let bi = r.next() as u32;
        for ivl in [4usize, 8] {
            let got = encrypt_salsa20(&msg, &key, &iv[..ivl], bi as usize).unwrap();
            let exp = salsa20::casc_crypt(&key, &iv[..ivl], bi, &msg).unwrap();
            if got != exp {
                println!("MIRI-MISMATCH salsa20 len={len}");
            }
            cases += 1;
        }
        if len > 2 {
            let mut c = Salsa20Cipher::new(&key, &iv[..4], 7).unwrap();
            let mut buf = msg.clone();
            let (x, y) = buf.split_at_mut(len / 2);
            c.apply_keystream(x);
            c.apply_keystream(y);
            if buf != salsa20::casc_crypt(&key, &iv[..4], 7, &msg).unwrap() {
                println!("MIRI-MISMATCH salsa20.piecewise len={len}");
            }
            cases += 1;
        }
        let k = r.bytes(1 + len % 31);
        if Arc4Cipher::new(&k).unwrap().encrypt(&msg) != rc4::crypt(&k, &msg).unwrap() {
            println!("MIRI-MISMATCH arc4 len={len}");
        }
        let (mut pc, mut pb) = (r.next() as u32, r.next() as u32);
        let e = lookup3::hashlittle2(&msg, pc, pb);
        hashlittle2(&msg, &mut pc, &mut pb);
        if (pc, pb) != e {
            println!("MIRI-MISMATCH hashlittle2 len={len}");
        }
        cases += 2;
        // --- SIMD helpers, every feature subset, against the fallback
        let a_buf = r.bytes(len);
        let mut variants: Vec<Vec<u8>> = vec![a_buf.clone()];
        for pos in [0usize, len / 3, len / 2, len.saturating_sub(1)] {
            if pos < len {
                let mut b = a_buf.clone();
                b[pos] ^= 0x40;
                variants.push(b);
            }
        }
        if len > 0 {
            variants.push(a_buf[..len - 1].to_vec());
        }
        for f in &subsets {
            for b in &variants {
                if f.vectorized_memcmp(&a_buf, b) != none.vectorized_memcmp(&a_buf, b) {
                    println!("MIRI-MISMATCH vectorized_memcmp len={len} feat={f:?}");
                }
                if f.simd_memcmp(&a_buf, b) != none.simd_memcmp(&a_buf, b) {
                    println!("MIRI-MISMATCH simd_memcmp len={len} feat={f:?}");
                }
                cases += 2;
            }
            let pairs: Vec<(&[u8], &[u8])> = variants.iter().map(|b| (a_buf.as_slice(), b.as_slice())).collect();
            if f.batch_mem_equal(&pairs) != none.batch_mem_equal(&pairs) {
                println!("MIRI-MISMATCH batch_mem_equal len={len} feat={f:?}");
            }
            // memmem: needles taken from the haystack start / middle / end + an absent one
            let hay: Vec<u8> = (0..len).map(|_| b"ab"[(r.next() & 1) as usize]).collect();
            for nl in [1usize, 4, 5, 16, 17, 32, 33] {
                if nl > len {
                    continue;
                }
                for pos in [0, (len - nl) / 2, len - nl] {
                    let needle = hay[pos..pos + nl].to_vec();
                    if f.vectorized_memmem(&hay, &needle) != none.vectorized_memmem(&hay, &needle) {
                        println!("MIRI-MISMATCH vectorized_memmem len={len} nl={nl} feat={f:?}");
                    }
                    cases += 1;
                }
                let mut absent = hay[..nl].to_vec();
                absent[nl - 1] = b'c';
                if f.vectorized_memmem(&hay, &absent) != none.vectorized_memmem(&hay, &absent) {
                    println!("MIRI-MISMATCH vectorized_memmem(absent) len={len} nl={nl} feat={f:?}");
                }
                cases += 1;
            }
            let mut d1 = r.bytes(len);
            let mut d2 = d1.clone();
            f.simd_memset(&mut d1, 0x5a);
            none.simd_memset(&mut d2, 0x5a);
            let src = r.bytes(len);
            let mut c1 = vec![0u8; len + 3];
            let mut c2 = vec![0u8; len + 3];
            f.simd_memcpy(&mut c1, &src);
            none.simd_memcpy(&mut c2, &src);
            if d1 != d2 || c1 != c2 {
                println!("MIRI-MISMATCH memset/memcpy len={len} feat={f:?}");
            }
            cases += 3;
            if len % 7 == 0 {
                let bufs = [r.bytes(len), r.bytes(len / 2), r.bytes(len + 5)];
                let refs: Vec<&[u8]> = bufs.iter().map(Vec::as_slice).collect();
                if f.batch_content_keys(&refs) != none.batch_content_keys(&refs) || f.batch_jenkins96_data(&refs) != none.batch_jenkins96_data(&refs) {
                    println!("MIRI-MISMATCH batch hashes len={len} feat={f:?}");
                }
                cases += 2;
            }
        }
    }
    // counter carry through the guarded hook
    if shard == 0 {
        let key = [7u8; 16];
        let iv = [1u8, 2, 3, 4, 5, 6, 7, 8];
        let nonce = salsa20::casc_nonce(&iv, 3).unwrap();
        let start: u64 = (1u64 << 32) - 1;
        let mut exp = vec![0u8; 150];
        salsa20::xor_stream(&key, &nonce, start * 64, &mut exp);
        let mut c = Salsa20Cipher::new(&key, &iv, 3).unwrap();
        c.verif_set_block_counter(start as u32, (start >> 32) as u32);
        let mut buf = vec![0u8; 150];
        c.apply_keystream(&mut buf);
        if buf != exp {
            println!("MIRI-MISMATCH salsa20.counter_carry");
        }
        cases += 1;
    }
    println!("MIRI-CASES {cases}");
}
