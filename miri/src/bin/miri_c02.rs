//! C02 under Miri: hostile inputs through the pure-Rust decoders that contain or reach `unsafe`
//! code in dependencies (lz4_flex block decoder, miniz_oxide via flate2, binrw readers):
//! BLTE parse + decompress of mutated LZ4 / zlib / raw chunks, ESpec / BPSV text parsers and the
//! ZBSDIFF applier on mutated patches. Miri reports undefined behaviour (out-of-bounds reads in the
//! LZ4 match copy, invalid pointer arithmetic, uninitialised reads) that a native run need not show.
//! A panic is reported as a mismatch line (C02 forbids panics) and the shard continues.
use cascette_formats::CascFormat;
use cascette_formats::blte::{BlteBuilder, BlteFile, CompressionMode};
use vh_miri::R;

fn mutate(r: &mut R, data: &mut Vec<u8>, from: usize) {
    if data.len() <= from {
        return;
    }
    let span = data.len() - from;
    match r.next() % 6 {
        0 => {
            let i = from + (r.next() as usize) % span;
            data[i] ^= 1 << (r.next() % 8);
        }
        1 => {
            let i = from + (r.next() as usize) % span;
            data[i] = [0x00, 0xff, 0x0f, 0xf0, 0x7f, 0x80][(r.next() % 6) as usize];
        }
        2 => {
            let n = from + (r.next() as usize) % span;
            data.truncate(n.max(from));
        }
        3 => {
            // LZ4 token / offset style edits: big literal run or far match offset
            let i = from + (r.next() as usize) % span;
            data[i] = 0xff;
            if i + 2 < data.len() {
                data[i + 1] = 0xff;
                data[i + 2] = 0xff;
            }
        }
        4 => {
            let i = from + (r.next() as usize) % span;
            let b = data[i];
            data.insert(i, b);
        }
        _ => {
            for _ in 0..3 {
                let i = from + (r.next() as usize) % span;
                data[i] = (r.next() >> 11) as u8;
            }
        }
    }
}

fn guarded(name: &str, f: impl FnOnce()) {
    if std::panic::catch_unwind(std::panic::AssertUnwindSafe(f)).is_err() {
        println!("MIRI-MISMATCH {name} panicked");
    }
}

fn main() {
    let a: Vec<String> = std::env::args().collect();
    let shard: u64 = a.get(1).and_then(|s| s.parse().ok()).unwrap_or(0);
    let n: u64 = a.get(2).and_then(|s| s.parse().ok()).unwrap_or(1);
    let seed: u64 = a.get(3).and_then(|s| s.parse().ok()).unwrap_or(1);
    std::panic::set_hook(Box::new(|_| {}));
    let mut r = R(0x51ed_270b_9f3c_a1d7 ^ (seed << 16) ^ shard);
    let mut cases = 0u64;
    let per_shard = 110u64;
    for i in 0..per_shard {
        let idx = shard + n * i;
        // a valid container first (sizes small: the interpreter is slow)
        let mode = [CompressionMode::LZ4, CompressionMode::ZLib, CompressionMode::None][(idx % 3) as usize];
        let plen = 20 + (r.next() % 180) as usize;
        let payload: Vec<u8> = if idx % 2 == 0 { (0..plen).map(|j| (j % 7) as u8).collect() } else { r.bytes(plen) };
        let built = BlteBuilder::new().with_compression(mode).with_chunk_size_unchecked(64).add_data(&payload).and_then(|b| b.build());
        let Ok(file) = built else { continue };
        let Ok(mut bytes) = file.build() else { continue };
        // header (8 + table) stays mostly intact so that the chunk decoders are reached
        let header_len = 8 + if bytes.len() > 12 { u32::from_be_bytes([bytes[4], bytes[5], bytes[6], bytes[7]]) as usize } else { 0 };
        let from = if r.next() % 4 == 0 { 0 } else { header_len.min(bytes.len().saturating_sub(1)) };
        for _ in 0..1 + r.next() % 3 {
            mutate(&mut r, &mut bytes, from);
        }
        guarded("blte.parse+decompress", || {
            if let Ok(f) = BlteFile::parse(&bytes) {
                let _ = f.decompress();
            }
        });
        cases += 1;
        // text parsers on short hostile strings
        if i % 4 == 0 {
            let mut s = b"b:{16K*=z:{9,15},256=e:{0123456789abcdef,06fc152e,z},*=n}".to_vec();
            mutate(&mut r, &mut s, 0);
            guarded("espec.parse", || {
                if let Ok(text) = std::str::from_utf8(&s) {
                    let _ = cascette_formats::espec::ESpec::parse(text);
                }
            });
            let mut b = b"Region!STRING:0|BuildId!DEC:4|Key!HEX:16\n## seqn = 7\nus|12|00112233445566778899aabbccddeeff\neu||\n".to_vec();
            mutate(&mut r, &mut b, 0);
            guarded("bpsv.parse", || {
                let _ = cascette_formats::bpsv::BpsvDocument::parse(&b);
            });
            cases += 2;
        }
    }
    println!("MIRI-CASES {cases}");
}
