//! Miri workloads (pure-Rust slices of the property workloads, small enough for the interpreter).
#[path = "../../harness/src/refimpl/salsa20.rs"]
pub mod salsa20;
#[path = "../../harness/src/refimpl/rc4.rs"]
pub mod rc4;
#[path = "../../harness/src/refimpl/lookup3.rs"]
pub mod lookup3;

/// tiny xorshift PRNG (the harness PRNG lives in another crate)
pub struct R(pub u64);
impl R {
    pub fn next(&mut self) -> u64 {
        self.0 ^= self.0 << 13;
        self.0 ^= self.0 >> 7;
        self.0 ^= self.0 << 17;
        self.0
    }
    pub fn bytes(&mut self, n: usize) -> Vec<u8> {
        (0..n).map(|_| (self.next() >> 24) as u8).collect()
    }
}
