//! Run context: command line, evidence file, known-findings matching, verdict.
//!
//! Verdicts are three-valued:
//!   held          -> exit 0 (optionally `KNOWN-FINDING:` lines)
//!   violated      -> exit 1, `VIOLATION property=<id> replay=<path>` per distinct signature
//!   inconclusive  -> exit 2, `INCONCLUSIVE property=<id> reason=...` (never a VIOLATION line)

use crate::prng::Rng;
use serde_json::{Map, Value, json};
use std::collections::{BTreeMap, HashSet};
use std::path::PathBuf;
use std::sync::Mutex;
use std::time::Instant;

pub const VERIF_ROOT: &str = "/verif";

#[derive(Clone, Copy, Debug, PartialEq, Eq)]
pub enum Tier {
    Quick,
    Thorough,
}

#[derive(Clone, Debug)]
struct Finding {
    property: String,
    status: String,
    signature: String,
    what: String,
}

#[derive(Clone, Debug)]
struct Violation {
    signature: String,
    summary: String,
    count: u64,
    replay: PathBuf,
}

struct Inner {
    evaluations: u64,
    distinct: HashSet<u64>,
    samples: Vec<Value>,
    observations: BTreeMap<String, u64>,
    extra: Map<String, Value>,
    violations: Vec<Violation>,
    inconclusive: Vec<String>,
    assumptions: Vec<String>,
    rule: String,
    exhaustive: bool,
}

pub struct Ctx {
    pub id: String,
    pub tier: Tier,
    pub seed: u64,
    pub replay: Option<PathBuf>,
    /// extra free-form arguments after `--`
    pub args: Vec<String>,
    level: &'static str,
    start: Instant,
    findings: Vec<Finding>,
    evidence_path: PathBuf,
    max_samples: usize,
    inner: Mutex<Inner>,
}

impl Ctx {
    /// Parse `--tier quick|thorough --seed N [--replay FILE] [--evidence PATH]`.
    /// `level` is `exploration` or `fault_enumeration`.
    pub fn init(id: &str, level: &'static str) -> Self {
        let mut tier = match std::env::var("VERIF_TIER").ok().as_deref() {
            Some("thorough") => Tier::Thorough,
            _ => Tier::Quick,
        };
        let mut seed: u64 = std::env::var("VERIF_SEED")
            .ok()
            .and_then(|s| s.trim().parse::<i64>().ok())
            .map_or(1, |v| v as u64);
        let mut replay = None;
        let mut evidence_path = PathBuf::from(format!("{VERIF_ROOT}/evidence/{id}.json"));
        let mut rest = Vec::new();
        let argv: Vec<String> = std::env::args().skip(1).collect();
        let mut i = 0;
        while i < argv.len() {
            match argv[i].as_str() {
                "--tier" => {
                    i += 1;
                    tier = match argv.get(i).map(String::as_str) {
                        Some("thorough") => Tier::Thorough,
                        _ => Tier::Quick,
                    };
                }
                "--seed" => {
                    i += 1;
                    if let Some(v) = argv.get(i).and_then(|s| s.parse::<i64>().ok()) {
                        seed = v as u64;
                    }
                }
                "--replay" => {
                    i += 1;
                    replay = argv.get(i).map(PathBuf::from);
                }
                "--evidence" => {
                    i += 1;
                    if let Some(p) = argv.get(i) {
                        evidence_path = PathBuf::from(p);
                    }
                }
                other => rest.push(other.to_string()),
            }
            i += 1;
        }
        // A replay file carries the seed/tier of the failing run.
        if let Some(p) = &replay {
            if let Ok(text) = std::fs::read_to_string(p) {
                if let Ok(v) = serde_json::from_str::<Value>(&text) {
                    if let Some(s) = v.get("seed").and_then(Value::as_u64) {
                        seed = s;
                    }
                    if v.get("tier").and_then(Value::as_str) == Some("thorough") {
                        tier = Tier::Thorough;
                    }
                }
            }
        }
        let findings = load_findings(id);
        Self {
            id: id.to_string(),
            tier,
            seed,
            replay,
            args: rest,
            level,
            start: Instant::now(),
            findings,
            evidence_path,
            max_samples: 8,
            inner: Mutex::new(Inner {
                evaluations: 0,
                distinct: HashSet::new(),
                samples: Vec::new(),
                observations: BTreeMap::new(),
                extra: Map::new(),
                violations: Vec::new(),
                inconclusive: Vec::new(),
                assumptions: Vec::new(),
                rule: String::new(),
                exhaustive: false,
            }),
        }
    }

    pub fn quick(&self) -> bool {
        self.tier == Tier::Quick
    }
    pub fn tier_name(&self) -> &'static str {
        if self.quick() { "quick" } else { "thorough" }
    }
    /// Budget selector.
    pub fn pick<T>(&self, quick: T, thorough: T) -> T {
        if self.quick() { quick } else { thorough }
    }
    /// Independent PRNG stream for a sub-workload.
    pub fn rng(&self, stream: u64) -> Rng {
        Rng::derive(self.seed, stream)
    }
    /// Factor for wall-clock caps of workloads (env VH_WALL_SCALE, default 1): bin/coverage runs instrumented binaries that
    /// are 5–70x slower and must still get through the whole quick plan.
    pub fn wall_scale() -> f64 {
        std::env::var("VH_WALL_SCALE").ok().and_then(|s| s.parse::<f64>().ok()).filter(|f| *f >= 1.0).unwrap_or(1.0)
    }
    pub fn elapsed_s(&self) -> f64 {
        self.start.elapsed().as_secs_f64()
    }
    /// Parsed replay file content, if `--replay` was given.
    pub fn replay_detail(&self) -> Option<Value> {
        let p = self.replay.as_ref()?;
        let text = std::fs::read_to_string(p).ok()?;
        let v: Value = serde_json::from_str(&text).ok()?;
        v.get("detail").cloned()
    }

    fn lock(&self) -> std::sync::MutexGuard<'_, Inner> {
        self.inner.lock().unwrap_or_else(std::sync::PoisonError::into_inner)
    }

    /// Describe how cases are generated and what makes one non-trivial/distinct.
    pub fn set_rule(&self, rule: &str) {
        self.lock().rule = rule.to_string();
    }
    pub fn set_exhaustive(&self, v: bool) {
        self.lock().exhaustive = v;
    }
    pub fn assume(&self, text: &str) {
        let mut g = self.lock();
        if !g.assumptions.iter().any(|a| a == text) {
            g.assumptions.push(text.to_string());
        }
    }
    /// One case was executed (trivial or not).
    pub fn eval(&self) {
        self.lock().evaluations += 1;
    }
    pub fn add_evals(&self, n: u64) {
        self.lock().evaluations += n;
    }
    /// Mark a distinct non-trivial case by hash (does not count an evaluation).
    pub fn nontrivial(&self, hash: u64) {
        self.lock().distinct.insert(hash);
    }
    pub fn add_nontrivial<I: IntoIterator<Item = u64>>(&self, hashes: I) {
        let mut g = self.lock();
        for h in hashes {
            g.distinct.insert(h);
        }
    }
    /// One non-trivial case was executed.
    pub fn eval_nontrivial(&self, hash: u64) {
        let mut g = self.lock();
        g.evaluations += 1;
        g.distinct.insert(hash);
    }
    pub fn evaluations(&self) -> u64 {
        self.lock().evaluations
    }
    /// Keep a few concrete cases for the evidence file.
    pub fn sample(&self, v: Value) {
        let mut g = self.lock();
        if g.samples.len() < self.max_samples {
            g.samples.push(v);
        }
    }
    pub fn want_sample(&self) -> bool {
        self.lock().samples.len() < self.max_samples
    }
    /// Observation counters (operation mix, hook sites, outcomes …).
    pub fn obs(&self, key: &str, n: u64) {
        *self.lock().observations.entry(key.to_string()).or_insert(0) += n;
    }
    pub fn obs_max(&self, key: &str, n: u64) {
        let mut g = self.lock();
        let e = g.observations.entry(key.to_string()).or_insert(0);
        if n > *e {
            *e = n;
        }
    }
    pub fn get_obs(&self, key: &str) -> u64 {
        self.lock().observations.get(key).copied().unwrap_or(0)
    }
    /// Extra structured coverage information.
    pub fn set_extra(&self, key: &str, v: Value) {
        self.lock().extra.insert(key.to_string(), v);
    }

    /// Is this signature a listed *known* finding?
    pub fn is_known(&self, signature: &str) -> bool {
        self.findings
            .iter()
            .any(|f| f.status == "known" && f.signature == signature)
    }

    /// Record a refuting observation. `signature` must be canonical (no seeds,
    /// no line numbers, no random bytes): it is what `known_findings.json`
    /// entries are matched against, exactly. The first occurrence of every
    /// signature writes a replay file.
    pub fn violation(&self, signature: &str, summary: &str, detail: Value) {
        let mut g = self.lock();
        if let Some(v) = g.violations.iter_mut().find(|v| v.signature == signature) {
            v.count += 1;
            return;
        }
        let name = format!(
            "{}-{:016x}.json",
            self.id,
            crate::fnv64(signature.as_bytes())
        );
        let replay_dir = std::env::var("VH_REPLAY_DIR").unwrap_or_else(|_| format!("{VERIF_ROOT}/replay"));
        let path = PathBuf::from(format!("{replay_dir}/{name}"));
        let doc = json!({
            "property": self.id,
            "signature": signature,
            "summary": summary,
            "seed": self.seed,
            "tier": self.tier_name(),
            "detail": detail,
        });
        let _ = std::fs::create_dir_all(&replay_dir);
        let _ = std::fs::write(&path, serde_json::to_vec_pretty(&doc).unwrap_or_default());
        g.violations.push(Violation {
            signature: signature.to_string(),
            summary: summary.to_string(),
            count: 1,
            replay: path,
        });
    }
    pub fn violation_signatures(&self) -> Vec<String> {
        self.lock().violations.iter().map(|v| v.signature.clone()).collect()
    }

    /// A sub-run could not be judged (watchdog, tool failure, hook not reached).
    pub fn inconclusive(&self, reason: &str) {
        let mut g = self.lock();
        if !g.inconclusive.iter().any(|r| r == reason) {
            g.inconclusive.push(reason.to_string());
        }
    }

    /// Sanitizer layers (ASan / TSan / Miri / valgrind re-runs of the same workload) are
    /// executed by `bin/sanitize` before the thorough run; their summary is merged here:
    /// a *report* attributed to repository code is a violation, a layer that could not be
    /// built or run is recorded as inconclusive for that layer only.
    fn merge_sanitizer_summary(&self) {
        let Ok(path) = std::env::var("VH_SAN_SUMMARY") else {
            return;
        };
        let Ok(text) = std::fs::read_to_string(&path) else {
            return;
        };
        let Ok(v) = serde_json::from_str::<Value>(&text) else {
            return;
        };
        if let Some(layers) = v.get("layers").and_then(Value::as_array) {
            for l in layers {
                let name = l.get("layer").and_then(Value::as_str).unwrap_or("?");
                if let Some(reports) = l.get("reports").and_then(Value::as_array) {
                    for r in reports {
                        let site = r.get("site").and_then(Value::as_str).unwrap_or("unknown-site");
                        let kind = r.get("kind").and_then(Value::as_str).unwrap_or("report");
                        self.violation(
                            &format!("{}|sanitizer|{name}|{kind}|{site}", self.id),
                            &format!("{name} reported {kind} at {site} while running this property's workload"),
                            r.clone(),
                        );
                    }
                }
            }
        }
        self.set_extra("sanitizer_layers", v.get("layers").cloned().unwrap_or(Value::Null));
    }

    /// Write the evidence file, print the verdict lines, exit.
    pub fn finish(&self) -> ! {
        self.merge_sanitizer_summary();
        let g = self.lock();
        let wall = self.start.elapsed().as_secs_f64();
        let mut known_lines = Vec::new();
        let mut violation_lines = Vec::new();
        let mut known_matched = Vec::new();
        let mut unlisted = Vec::new();
        for v in &g.violations {
            if let Some(f) = self
                .findings
                .iter()
                .find(|f| f.status == "known" && f.signature == v.signature)
            {
                known_lines.push(format!(
                    "KNOWN-FINDING: property={} signature={} occurrences={} — {}",
                    self.id, v.signature, v.count, f.what
                ));
                known_matched.push(json!({"signature": v.signature, "occurrences": v.count, "what": f.what}));
                // replay files of listed findings are not needed
                let _ = std::fs::remove_file(&v.replay);
            } else {
                violation_lines.push(format!(
                    "VIOLATION property={} replay={}",
                    self.id,
                    v.replay.display()
                ));
                unlisted.push(json!({"signature": v.signature, "summary": v.summary, "occurrences": v.count, "replay": v.replay.display().to_string()}));
            }
        }
        let listed_not_seen: Vec<Value> = self
            .findings
            .iter()
            .filter(|f| f.status == "known" && !g.violations.iter().any(|v| v.signature == f.signature))
            .map(|f| json!(f.signature))
            .collect();

        let distinct = g.distinct.len() as u64;
        let mut inconclusive = g.inconclusive.clone();
        if g.evaluations == 0 {
            inconclusive.push("no case was evaluated".to_string());
        } else if distinct < 2 {
            inconclusive.push(format!(
                "only {distinct} distinct non-trivial case(s) observed (floor is 2)"
            ));
        }

        let mut coverage = Map::new();
        coverage.insert("evaluations".into(), json!(g.evaluations));
        coverage.insert("distinct_nontrivial".into(), json!(distinct));
        coverage.insert("rule".into(), json!(g.rule));
        coverage.insert("samples".into(), Value::Array(g.samples.clone()));
        if g.exhaustive {
            coverage.insert("exhaustive".into(), json!(true));
        }
        coverage.insert("observations".into(), json!(g.observations));
        coverage.insert("known_findings_matched".into(), Value::Array(known_matched));
        coverage.insert("known_findings_listed_but_not_observed".into(), Value::Array(listed_not_seen));
        coverage.insert("unlisted_violations".into(), Value::Array(unlisted));
        coverage.insert("inconclusive".into(), json!(inconclusive));
        let verdict = if !violation_lines.is_empty() {
            "violated"
        } else if !inconclusive.is_empty() {
            "inconclusive"
        } else {
            "held on what was observed"
        };
        coverage.insert("verdict".into(), json!(verdict));
        for (k, v) in &g.extra {
            // extras never override the keys the evidence schema defines
            if coverage.contains_key(k) {
                coverage.insert(format!("{k}_detail"), v.clone());
            } else {
                coverage.insert(k.clone(), v.clone());
            }
        }
        let doc = json!({
            "property_id": self.id,
            "tier": self.tier_name(),
            "seed": self.seed as i64,
            "level": self.level,
            "coverage": Value::Object(coverage),
            "assumptions": g.assumptions,
            "wall_s": (wall * 1000.0).round() / 1000.0,
            "violations": violation_lines.len(),
        });
        if self.replay.is_none() {
            if let Some(dir) = self.evidence_path.parent() {
                let _ = std::fs::create_dir_all(dir);
            }
            let tmp = self.evidence_path.with_extension("json.part");
            let _ = std::fs::write(&tmp, serde_json::to_vec_pretty(&doc).unwrap_or_default());
            let _ = std::fs::rename(&tmp, &self.evidence_path);
        }

        println!(
            "[{}] tier={} seed={} evaluations={} distinct_nontrivial={} wall={:.1}s verdict={}",
            self.id,
            self.tier_name(),
            self.seed,
            g.evaluations,
            distinct,
            wall,
            verdict
        );
        for (k, v) in &g.observations {
            println!("  obs {k} = {v}");
        }
        for l in &known_lines {
            println!("{l}");
        }
        if !violation_lines.is_empty() {
            for v in &g.violations {
                if !self.is_known(&v.signature) {
                    println!("  violation signature={} occurrences={} :: {}", v.signature, v.count, v.summary);
                }
            }
            for l in &violation_lines {
                println!("{l}");
            }
            leave(1);
        }
        if !inconclusive.is_empty() {
            for r in &inconclusive {
                println!("INCONCLUSIVE property={} reason={}", self.id, r);
            }
            leave(2);
        }
        leave(0);
    }
}

/// End the process with the verdict's exit code. Workloads leave runtime worker threads, cleanup tasks and watchdog
/// threads behind; `exit()` would run the C library's exit handlers and static destructors while those threads are still
/// running, which once ended a finished run with SIGSEGV on a loaded machine (the verdict had been printed, the exit
/// code was lost). `_exit` after flushing skips them. Under a sanitizer or coverage build the exit handlers ARE the
/// point (leak check, counter dump), so the ordinary exit is kept there.
fn leave(code: i32) -> ! {
    use std::io::Write;
    let _ = std::io::stdout().flush();
    let _ = std::io::stderr().flush();
    let soft = ["LLVM_PROFILE_FILE", "ASAN_OPTIONS", "TSAN_OPTIONS", "LSAN_OPTIONS", "VH_SOFT_EXIT"].iter().any(|k| std::env::var_os(k).is_some());
    if soft {
        std::process::exit(code);
    }
    // SAFETY: `_exit` has no preconditions; everything this process has to deliver (evidence file, replay files, stdout)
    // has been written and flushed above.
    unsafe { libc::_exit(code) }
}

fn load_findings(id: &str) -> Vec<Finding> {
    // The committed list is /verif/known_findings.json (assembled by bin/mkfindings from the
    // per-property fragments under known_findings.d/). It is only ever read here.
    let files = vec![PathBuf::from(format!("{VERIF_ROOT}/known_findings.json"))];
    let mut out = Vec::new();
    for path in files {
        let Ok(text) = std::fs::read_to_string(&path) else {
            continue;
        };
        let Ok(v) = serde_json::from_str::<Value>(&text) else {
            continue;
        };
        if let Some(arr) = v.get("findings").and_then(Value::as_array) {
            for f in arr {
                let property = f.get("property").and_then(Value::as_str).unwrap_or("").to_string();
                if property != id {
                    continue;
                }
                out.push(Finding {
                    property,
                    status: f.get("status").and_then(Value::as_str).unwrap_or("").to_string(),
                    signature: f.get("signature").and_then(Value::as_str).unwrap_or("").to_string(),
                    what: f.get("what").and_then(Value::as_str).unwrap_or("").to_string(),
                });
            }
        }
    }
    let _ = out.iter().map(|f| &f.property).count();
    out
}
