//! Workload generators shared by several properties.

use crate::prng::Rng;

/// Payload classes of DESIGN §4.1.
pub const PAYLOAD_CLASSES: &[&str] = &[
    "empty", "one_byte", "mode_byte_prefix", "blte_magic_prefix", "blte_at_0x1e", "nested_blte",
    "local_header_lookalike", "zeros", "ones", "random", "compressible", "text",
];

/// Generate a payload of the given class with a size biased by `max`.
pub fn payload_of_class(rng: &mut Rng, class: &str, max: usize) -> Vec<u8> {
    let n = rng.size_biased(max);
    match class {
        "empty" => Vec::new(),
        "one_byte" => vec![*rng.pick(b"NZ4EF\x00\xffB")],
        "mode_byte_prefix" => {
            let mut v = rng.bytes(n.max(1));
            v[0] = *rng.pick(b"NZ4EF");
            v
        }
        "blte_magic_prefix" => {
            let mut v = b"BLTE".to_vec();
            if rng.bool() {
                v.extend_from_slice(&[0, 0, 0, 0, b'N']);
            }
            v.extend(rng.bytes(n));
            v
        }
        "blte_at_0x1e" => {
            let mut v = rng.bytes(0x1e);
            v.extend_from_slice(b"BLTE\x00\x00\x00\x00N");
            v.extend(rng.bytes(n));
            v
        }
        "nested_blte" => {
            // a syntactically valid single-chunk BLTE file as payload
            let inner = rng.bytes(n.min(4096));
            let mut v = b"BLTE\x00\x00\x00\x00N".to_vec();
            v.extend(inner);
            v
        }
        "local_header_lookalike" => {
            // 16 key bytes reversed + u32 size + flags + checksums, then data
            let mut v = rng.bytes(16);
            let sz = (n as u32 + 30).to_le_bytes();
            v.extend_from_slice(&sz);
            v.extend(rng.bytes(10));
            v.extend(rng.bytes(n));
            v
        }
        "zeros" => vec![0u8; n],
        "ones" => vec![0xffu8; n],
        "compressible" => {
            let ul = rng.urange(1, 17);
            let unit = rng.bytes(ul);
            let mut v = Vec::with_capacity(n);
            while v.len() < n {
                v.extend_from_slice(&unit);
            }
            v.truncate(n);
            v
        }
        "text" => {
            let words = ["alpha ", "beta ", "gamma ", "delta ", "\n", "BLTE", "E", "N", "Z", "4"];
            let mut v = Vec::with_capacity(n);
            while v.len() < n {
                v.extend_from_slice(rng.pick(&words).as_bytes());
            }
            v.truncate(n);
            v
        }
        _ => rng.bytes(n),
    }
}

/// Random class + payload.
pub fn payload(rng: &mut Rng, max: usize) -> (&'static str, Vec<u8>) {
    let class = *rng.pick(PAYLOAD_CLASSES);
    (class, payload_of_class(rng, class, max))
}

/// Sizes around a boundary b: b-1, b, b+1 (saturating at 0).
pub fn around(b: usize) -> [usize; 3] {
    [b.saturating_sub(1), b, b + 1]
}
