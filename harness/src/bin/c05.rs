//! C05 — the local key index and the residency database behave as persistent maps.
//!
//! Workload: seeded histories against the real `IndexManager`
//! (add_entry / update_entry / update_entry_status / remove_entry /
//! flush_updates_for_bucket / flush_all_updates / save_all / reload /
//! clear_bucket; 20–400 operations, plus bucket-targeted long histories of
//! 1300–2700 operations that fill the 60 pages × 21 entries update section of
//! one bucket) and against `ResidencyDb` / `ResidencyContainer`
//! (mark_resident / mark_non_resident / mark_span_non_resident / delete_keys
//! incl. the >10000-key batch path / save / load), each in its own directory.
//! Oracle: `BTreeMap` models updated only when the call reports success.
//! After every operation the touched key + 3 present + 3 absent keys are
//! probed; after every flush/save/reload/clear and every 25 operations the
//! complete enumeration and the counts are compared with the model.
//!
//! Re-runnable slices: `--only-kind index-short|index-long|residency-db|residency-container|residency-batch|update-section|dynamic-container`
//! `--only-history N`, `--scale PERCENT`, `--threads N`; `--replay FILE` re-runs the recorded history.

use cascette_client_storage::container::{AccessMode, Container, DynamicContainer, ResidencyContainer};
use cascette_client_storage::index::update::{UpdateEntry, UpdatePage, UpdateSection};
use cascette_client_storage::index::{ArchiveLocation, IndexManager, UpdateStatus};
use cascette_client_storage::kmt::key_state::ResidencyDb;
use cascette_client_storage::StorageError;
use cascette_crypto::{ContentKey, EncodingKey};
use serde_json::{Value, json};
use std::cell::RefCell;
use std::collections::{BTreeMap, BTreeSet};
use std::path::Path;
use std::sync::atomic::{AtomicUsize, Ordering};
use vh::{Ctx, Rng, fnv64, mix64};

const SECTION_CAP: usize = 60 * 21;
const KINDS: [&str; 8] = ["index-long", "residency-batch", "index-short", "residency-db", "residency-container", "update-section", "dynamic-container", "index-boundary"];

thread_local! {
    static LAST_PANIC: RefCell<Option<(String, String)>> = const { RefCell::new(None) };
}

type Loc = (u16, u32, u32);

fn bucket9(k: &[u8]) -> u8 {
    let h = k[..9].iter().fold(0u8, |a, b| a ^ b);
    (h & 0x0f) ^ (h >> 4)
}

/// Set byte 8 so that the XOR-fold of the first nine bytes lands in `bucket`.
fn force_bucket(k: &mut [u8; 9], bucket: u8, rng: &mut Rng) {
    let h = k[..8].iter().fold(0u8, |a, b| a ^ b);
    let hn = rng.below(16) as u8;
    let x = (hn << 4) | (hn ^ bucket);
    k[8] = x ^ h;
}

fn res_bucket(k: &[u8; 16]) -> u8 {
    let x = k.iter().fold(0u8, |a, b| a ^ b);
    ((x >> 4) ^ x) & 0x0f
}

#[derive(Default)]
struct Stats {
    obs: BTreeMap<String, u64>,
    max: BTreeMap<String, u64>,
}

impl Stats {
    fn add(&mut self, k: &str, n: u64) {
        *self.obs.entry(k.to_string()).or_insert(0) += n;
    }
    fn max(&mut self, k: &str, n: u64) {
        let e = self.max.entry(k.to_string()).or_insert(0);
        if n > *e {
            *e = n;
        }
    }
    fn flush(&self, ctx: &Ctx) {
        for (k, v) in &self.obs {
            ctx.obs(k, *v);
        }
        for (k, v) in &self.max {
            ctx.obs_max(k, *v);
        }
    }
}

struct Hist<'a> {
    ctx: &'a Ctx,
    kind: &'static str,
    idx: usize,
    trace: Vec<String>,
    stats: Stats,
    hash: u64,
}

impl Hist<'_> {
    fn log(&mut self, s: String) {
        self.hash = mix64(self.hash, fnv64(s.as_bytes()));
        self.trace.push(s);
    }
    fn violation(&mut self, sig: String, summary: &str, at: Value) {
        self.stats.add("violating_observations", 1);
        let n = self.trace.len();
        let d = json!({
            "kind": self.kind,
            "history": self.idx,
            "op_index": n,
            "trace_tail": self.trace[n.saturating_sub(60)..].to_vec(),
            "at": at,
            "rerun": format!("c05 --tier {} --seed {} --only-kind {} --only-history {}", self.ctx.tier_name(), self.ctx.seed as i64, self.kind, self.idx),
        });
        self.ctx.violation(&sig, summary, d);
    }
}

fn mk_tempdir(idx: usize) -> std::io::Result<tempfile::TempDir> {
    let shm = Path::new("/dev/shm");
    if idx % 8 != 7 && shm.is_dir() {
        tempfile::Builder::new().prefix("vh-c05-").tempdir_in(shm)
    } else {
        tempfile::Builder::new().prefix("vh-c05-").tempdir()
    }
}

// ===========================================================================
// IndexManager histories
// ===========================================================================

struct IdxModel {
    map: BTreeMap<[u8; 9], Loc>,
    removed: Vec<[u8; 9]>,
    /// bucket changed in memory since it was last written to disk
    dirty: [bool; 16],
    /// bucket has un-flushed update entries (as far as the call results tell)
    pending: [bool; 16],
    disk_pending: [bool; 16],
}

fn ekey_for(k9: &[u8; 9], rng: &mut Rng) -> EncodingKey {
    // the index key is the first nine bytes: every call uses a fresh random 7-byte suffix
    let mut k = [0u8; 16];
    k[..9].copy_from_slice(k9);
    let suffix = rng.array::<7>();
    k[9..].copy_from_slice(&suffix);
    EncodingKey::from_bytes(k)
}

fn gen_loc(rng: &mut Rng, st: &mut Stats) -> Loc {
    let aid = match rng.below(8) {
        0 => 1023,
        1 => 0,
        2 => *rng.pick(&[1u16, 3, 4, 255, 256, 1022, 512]),
        _ => rng.below(1024) as u16,
    };
    let off = match rng.below(8) {
        0 => (1u32 << 30) - 1,
        1 => 0,
        2 => *rng.pick(&[1u32, (1 << 30) - 2, 0x3FFF_0000, 0x2000_0000, 0x1E]),
        _ => rng.below(1 << 30) as u32,
    };
    let size = match rng.below(8) {
        0 => u32::MAX,
        1 => 0,
        2 => *rng.pick(&[1u32, 30, 31, 0x8000_0000, 0x0100_0000]),
        _ => rng.next_u32(),
    };
    if aid == 1023 {
        st.add("index.limits.archive_id_1023", 1);
    }
    if off == (1 << 30) - 1 {
        st.add("index.limits.offset_2^30-1", 1);
    }
    (aid, off, size)
}

struct IdxRun<'a> {
    h: Hist<'a>,
    m: IdxModel,
    im: IndexManager,
    target: Option<u8>,
    pool: Vec<[u8; 9]>,
    last_struct: &'static str,
    seen_rm_or_upd: bool,
    nontrivial: bool,
    had_reload: bool,
    had_flush: bool,
    ops_at_full: u64,
    /// the locations every key has had so far (newest last, the last few)
    past: BTreeMap<[u8; 9], Vec<Loc>>,
}

impl IdxRun<'_> {
    /// The location for an insertion / update of `k`. Locations recur: a repair or verify pass registers an object
    /// again where it finds it, a move can be undone, a removed object can be registered again at the place its bytes
    /// still occupy. So, besides fresh locations, a key gets a location it had earlier in the history (a third of the
    /// calls on a key that has a past) - the one it has now, the one it had before the last update, the one it had
    /// before it was removed - or, rarely, the location another key has right now.
    fn loc_for(&mut self, k: &[u8; 9], rng: &mut Rng) -> Loc {
        if let Some(p) = self.past.get(k).filter(|p| !p.is_empty()) {
            if rng.chance(1, 3) {
                let loc = *rng.pick(p);
                let what = match self.m.map.get(k) {
                    Some(cur) if *cur == loc => "current_location_again",
                    Some(_) => "earlier_location_of_present_key",
                    None => "earlier_location_of_removed_key",
                };
                self.h.stats.add(&format!("index.location_recurs.{what}"), 1);
                return loc;
            }
        }
        if !self.m.map.is_empty() && rng.chance(1, 16) {
            if let Some(other) = self.pick_present(rng).filter(|o| o != k) {
                self.h.stats.add("index.location_recurs.location_of_another_key", 1);
                return self.m.map[&other];
            }
        }
        gen_loc(rng, &mut self.h.stats)
    }
    fn remember_loc(&mut self, k: &[u8; 9], loc: Loc) {
        let p = self.past.entry(*k).or_default();
        p.retain(|l| *l != loc);
        p.push(loc);
        if p.len() > 3 {
            p.remove(0);
        }
    }
    fn fill(&self) -> usize {
        let total: usize = (0..16u8).map(|b| self.im.bucket_entry_count(b)).sum();
        total.saturating_sub(self.im.stats().total_entries)
    }
    fn cond(&self, fill_before: usize) -> &'static str {
        if self.target.is_some() && fill_before >= SECTION_CAP { "update-section-full" } else { "update-section-not-full" }
    }
    fn new_key(&mut self, rng: &mut Rng) -> [u8; 9] {
        loop {
            let mut k: [u8; 9] = rng.array::<9>();
            if let Some(b) = self.target {
                if !self.pool.is_empty() && rng.chance(1, 5) {
                    // share the first eight bytes with an existing key
                    let base = *rng.pick(&self.pool);
                    k[..8].copy_from_slice(&base[..8]);
                }
                force_bucket(&mut k, b, rng);
            } else if !self.pool.is_empty() && rng.chance(1, 3) {
                let base = *rng.pick(&self.pool);
                k = base;
                match rng.below(3) {
                    0 => k[8] = k[8].wrapping_add(1 + rng.below(255) as u8),
                    1 => k[0] ^= 1 << rng.below(8),
                    _ => k[8] = k[8].wrapping_add(1),
                }
            }
            if k != [0u8; 9] && !self.pool.contains(&k) {
                self.pool.push(k);
                return k;
            }
        }
    }
    fn pick_present(&self, rng: &mut Rng) -> Option<[u8; 9]> {
        if self.m.map.is_empty() {
            return None;
        }
        let i = rng.usize_below(self.m.map.len());
        self.m.map.keys().nth(i).copied()
    }
    fn pick_absent(&mut self, rng: &mut Rng) -> [u8; 9] {
        for _ in 0..8 {
            let k = match rng.below(3) {
                0 if !self.m.removed.is_empty() => *rng.pick(&self.m.removed),
                1 if !self.m.map.is_empty() => {
                    // neighbour of a present key: same first eight bytes
                    let mut k = self.pick_present(rng).unwrap_or([1; 9]);
                    k[8] = k[8].wrapping_add(1 + rng.below(255) as u8);
                    k
                }
                _ => {
                    let mut k: [u8; 9] = rng.array::<9>();
                    if let Some(b) = self.target {
                        force_bucket(&mut k, b, rng);
                    }
                    k
                }
            };
            if k != [0u8; 9] && !self.m.map.contains_key(&k) {
                return k;
            }
        }
        loop {
            let k: [u8; 9] = rng.array::<9>();
            if k != [0u8; 9] && !self.m.map.contains_key(&k) {
                return k;
            }
        }
    }

    /// lookup/has_entry of one key against the model; returns a discrepancy kind.
    fn probe_kind(&self, k9: &[u8; 9], rng: &mut Rng) -> Option<(&'static str, Value)> {
        let ek = ekey_for(k9, rng);
        let got = self.im.lookup(&ek);
        let has = self.im.has_entry(&ek);
        let exp = self.m.map.get(k9);
        if has != got.is_some() {
            return Some(("has_entry-disagrees-with-lookup", json!({"key": hex::encode(k9), "has_entry": has, "lookup_some": got.is_some()})));
        }
        // the other lookup entry point (16 key bytes handed over as a ContentKey) searches the same index with the
        // same nine-byte truncation: it is a lookup of the key in the local index and must give the same answer
        let by_ck = self.im.lookup_by_content_key(&ContentKey::from_bytes(*ek.as_bytes()));
        if by_ck != got {
            return Some(("lookup_by_content_key-disagrees-with-lookup", json!({"key": hex::encode(k9), "lookup": got.as_ref().map(|g| (g.archive_id(), g.archive_offset(), g.size)), "lookup_by_content_key": by_ck.as_ref().map(|g| (g.archive_id(), g.archive_offset(), g.size))})));
        }
        match (exp, got) {
            (None, None) => None,
            (Some(e), Some(g)) => {
                let gl: Loc = (g.archive_id(), g.archive_offset(), g.size);
                if g.key != *k9 {
                    Some(("lookup-returns-other-key", json!({"key": hex::encode(k9), "returned_key": hex::encode(g.key)})))
                } else if gl != *e {
                    Some(("stale-or-wrong-location", json!({"key": hex::encode(k9), "expected": e, "got": gl})))
                } else {
                    None
                }
            }
            (Some(e), None) => Some(("present-key-missing", json!({"key": hex::encode(k9), "expected": e}))),
            (None, Some(g)) => Some(("absent-key-visible", json!({"key": hex::encode(k9), "got": (g.archive_id(), g.archive_offset(), g.size)}))),
        }
    }

    fn probe_collateral(&mut self, rng: &mut Rng, op: &str, cond: &str) {
        let mut keys: Vec<[u8; 9]> = Vec::with_capacity(6);
        for _ in 0..3 {
            if let Some(k) = self.pick_present(rng) {
                keys.push(k);
            }
        }
        for _ in 0..3 {
            let k = self.pick_absent(rng);
            keys.push(k);
        }
        self.h.stats.add("index.probes", keys.len() as u64);
        for k in keys {
            if let Some((kind, at)) = self.probe_kind(&k, rng) {
                let ls = self.last_struct;
                self.h.violation(format!("C05|lookup|{kind}|last-structural-op={ls}|{cond}"), "a lookup of a key not touched by the last operation differs from the map model", json!({"after_op": op, "probe": at}));
            }
        }
    }

    fn full_compare(&mut self, rng: &mut Rng, why: &str, cond: &str) {
        self.h.stats.add("index.full_comparisons", 1);
        let ls = self.last_struct;
        let entries: Vec<(u8, cascette_client_storage::IndexEntry)> = self.im.iter_entries().collect();
        let mut seen: BTreeMap<[u8; 9], Loc> = BTreeMap::new();
        for (b, e) in &entries {
            if *b != bucket9(&e.key) {
                self.h.violation(format!("C05|iter_entries|wrong-bucket-label|last-structural-op={ls}|{cond}"), "iter_entries reports an entry under another bucket than its key hashes to", json!({"why": why, "key": hex::encode(e.key), "bucket": b}));
            }
            if seen.insert(e.key, (e.archive_id(), e.archive_offset(), e.size)).is_some() {
                self.h.violation(format!("C05|iter_entries|duplicate-key|last-structural-op={ls}|{cond}"), "iter_entries yields the same key twice", json!({"why": why, "key": hex::encode(e.key)}));
            }
        }
        if seen != self.m.map {
            let missing: Vec<String> = self.m.map.keys().filter(|k| !seen.contains_key(*k)).take(4).map(hex::encode).collect();
            let extra: Vec<String> = seen.keys().filter(|k| !self.m.map.contains_key(*k)).take(4).map(hex::encode).collect();
            let stale: Vec<String> = self.m.map.iter().filter(|(k, v)| seen.get(*k).is_some_and(|s| s != *v)).take(4).map(|(k, _)| hex::encode(k)).collect();
            let kind = if !extra.is_empty() {
                "extra-entry"
            } else if !missing.is_empty() {
                "missing-entry"
            } else {
                "stale-location"
            };
            // one cause, one signature: the only difference is that the all-zero key is gone (the .idx loader reads an
            // all-zero key as an empty slot)
            let only_zero_key_missing = extra.is_empty() && stale.is_empty() && self.m.map.len() == seen.len() + 1 && self.m.map.contains_key(&[0u8; 9]) && !seen.contains_key(&[0u8; 9]);
            self.h.violation(
                if only_zero_key_missing { "C05|iter_entries|all-zero-key-lost|after-reload".to_string() } else { format!("C05|iter_entries|{kind}|last-structural-op={ls}|{cond}") },
                "the enumeration differs from the map model",
                json!({"why": why, "model_len": self.m.map.len(), "enumerated": seen.len(), "missing": missing, "extra": extra, "stale": stale}),
            );
            // report a discrepancy once, where it appears: continue the history from the observed state
            self.h.stats.add("index.model_resynchronised_after_violation", 1);
            self.m.removed.retain(|k| !seen.contains_key(k));
            self.m.map = seen.clone();
        }
        let ec = self.im.entry_count();
        if ec != self.m.map.len() {
            self.h.violation(format!("C05|entry_count|differs-from-model|last-structural-op={ls}|{cond}"), "entry_count differs from the number of keys in the map model", json!({"why": why, "entry_count": ec, "model_len": self.m.map.len()}));
        }
        // lookups of every model key and of the removed keys
        let keys: Vec<[u8; 9]> = self.m.map.keys().copied().collect();
        let removed: Vec<[u8; 9]> = self.m.removed.iter().copied().filter(|k| !self.m.map.contains_key(k)).collect();
        for k in keys.iter().chain(removed.iter()) {
            if let Some((kind, at)) = self.probe_kind(k, rng) {
                self.h.violation(format!("C05|lookup|{kind}|last-structural-op={ls}|{cond}"), "a lookup differs from the map model", json!({"why": why, "probe": at}));
            }
        }
    }

    /// `per_file`: load every `<bucket:02x><version:08x>.idx` of the directory through the public per-file entry
    /// point `load_index(bucket, path)` instead of the directory scan `load_all` — the same files, the same map.
    fn reload(&mut self, rt: &tokio::runtime::Runtime, dir: &Path, per_file: bool) -> bool {
        let mut fresh = IndexManager::new(dir);
        let res = if per_file {
            self.h.stats.add("index.ops.reload_via_load_index", 1);
            let mut files: Vec<(u8, std::path::PathBuf)> = Vec::new();
            if let Ok(rd) = std::fs::read_dir(dir) {
                for e in rd.flatten() {
                    let name = e.file_name().to_string_lossy().to_string();
                    if name.len() == 14 && name.ends_with(".idx") {
                        if let Ok(b) = u8::from_str_radix(&name[..2], 16) {
                            files.push((b, e.path()));
                        }
                    }
                }
            }
            files.into_iter().try_for_each(|(b, p)| fresh.load_index(b, &p))
        } else {
            rt.block_on(fresh.load_all())
        };
        match res {
            Ok(()) => {
                self.im = fresh;
                self.m.pending = self.m.disk_pending;
                true
            }
            Err(e) => {
                self.h.violation(if per_file { "C05|reload|load_index-error".to_string() } else { "C05|reload|load_all-error".to_string() }, "a fresh IndexManager could not load the files written by save_all/flush", json!({"error": e.to_string()}));
                false
            }
        }
    }
}

fn run_index(ctx: &Ctx, kind: &'static str, idx: usize, rng: &mut Rng) -> Result<(), String> {
    let long = kind == "index-long";
    let rt = tokio::runtime::Builder::new_current_thread().enable_all().build().map_err(|e| e.to_string())?;
    let td = mk_tempdir(idx).map_err(|e| format!("tempdir: {e}"))?;
    let dir = td.path().to_path_buf();
    let target: Option<u8> = if long || rng.chance(3, 10) { Some(rng.below(16) as u8) } else { None };
    let n_ops = if long { rng.urange(1300, 2700) } else { rng.urange(20, 400) };
    let mut r = IdxRun {
        h: Hist { ctx, kind, idx, trace: Vec::new(), stats: Stats::default(), hash: mix64(0xc05, u64::from(long)) },
        m: IdxModel { map: BTreeMap::new(), removed: Vec::new(), dirty: [false; 16], pending: [false; 16], disk_pending: [false; 16] },
        im: IndexManager::new(&dir),
        target,
        pool: Vec::new(),
        last_struct: "none",
        seen_rm_or_upd: false,
        nontrivial: false,
        had_reload: false,
        had_flush: false,
        ops_at_full: 0,
        past: BTreeMap::new(),
    };
    r.h.stats.add(&format!("histories.{kind}"), 1);
    if target.is_some() {
        r.h.stats.add("histories.bucket_targeted", 1);
    }
    r.h.log(format!("new target_bucket={target:?} n_ops={n_ops}"));
    if !long {
        // special keys
        for k in [[0xffu8; 9], [0, 0, 0, 0, 0, 0, 0, 0, 1], [1, 0, 0, 0, 0, 0, 0, 0, 0], [0u8; 9]] {
            if target.is_none() && rng.chance(1, 4) {
                r.pool.push(k);
            }
        }
        let p = rng.urange(4, 60);
        for _ in 0..p {
            r.new_key(rng);
        }
    }
    let mut burst_left = 0usize;
    // successful adds of this history (in a bucket-targeted long history they all go into one bucket)
    let mut adds_ok = 0u64;
    // operation forced next (used to persist + reload right after an add that overflowed a full section:
    // the entry appended by the flush-and-retry path must reach the disk like any other)
    let mut force_next: Option<&'static str> = None;

    for opi in 0..n_ops {
        let fill_before = r.fill();
        r.h.stats.max(if long { "index.max_update_section_fill.long" } else { "index.max_update_entries_total.short" }, fill_before as u64);
        let cond = r.cond(fill_before);
        let at_full = target.is_some() && fill_before >= SECTION_CAP;
        // ---- choose the operation
        let op: &'static str = if let Some(f) = force_next.take() {
            f
        } else if long {
            if at_full && burst_left == 0 && rng.chance(9, 10) {
                burst_left = rng.urange(3, 7);
            }
            if burst_left > 0 {
                burst_left -= 1;
                if burst_left == 0 {
                    "add_new"
                } else {
                    *rng.pick(&["remove", "update", "status", "remove", "update_absent", "remove_absent"])
                }
            } else {
                match rng.below(1000) {
                    0..=879 => "add_new",
                    880..=914 => "update",
                    915..=949 => "remove",
                    950..=969 => "status",
                    970..=979 => "add_existing",
                    980..=984 => "reload_saved",
                    985..=986 => "save_all",
                    // an explicit flush empties the section: only after it has been full once
                    987 if r.ops_at_full > 0 => "flush_bucket",
                    988 => "reload_unsaved",
                    _ => "probe",
                }
            }
        } else {
            match rng.below(100) {
                0..=21 => "add_new",
                22..=29 => "add_existing",
                30..=41 => "update",
                42..=44 => "update_absent",
                45..=52 => "status",
                53..=64 => "remove",
                65..=67 => "remove_absent",
                68..=73 => "flush_bucket",
                74..=77 => "flush_all",
                78..=81 => "save_all",
                82..=86 => "reload_saved",
                87..=88 => "reload_unsaved",
                89..=90 => "clear_bucket",
                91 => "clear",
                _ => "probe",
            }
        };
        if at_full && matches!(op, "remove" | "update" | "status" | "update_absent" | "remove_absent") {
            r.ops_at_full += 1;
            r.h.stats.add(&format!("index.ops_at_full_section.{op}"), 1);
        }
        match op {
            "add_new" | "add_existing" => {
                let k = if op == "add_new" {
                    // re-use an unused pool key first, else a brand-new one
                    let unused: Option<[u8; 9]> = if long { None } else { r.pool.iter().copied().find(|k| !r.m.map.contains_key(k)) };
                    match unused {
                        Some(k) if rng.chance(3, 4) => k,
                        _ => r.new_key(rng),
                    }
                } else {
                    match r.pick_present(rng) {
                        Some(k) => k,
                        None => r.new_key(rng),
                    }
                };
                let loc = r.loc_for(&k, rng);
                r.h.log(format!("add_entry {} {:?}", hex::encode(k), loc));
                r.h.stats.add("index.ops.add_entry", 1);
                let before = r.m.map.get(&k).copied();
                let res = r.im.add_entry(&ekey_for(&k, rng), loc.0, loc.1, loc.2);
                let b = bucket9(&k) as usize;
                match res {
                    Ok(()) => {
                        adds_ok += 1;
                        r.remember_loc(&k, loc);
                        r.m.map.insert(k, loc);
                        r.m.removed.retain(|x| x != &k);
                        r.m.dirty[b] = true;
                        r.m.pending[b] = true;
                        if at_full {
                            r.h.stats.add("index.add_entry_on_full_section(flush+retry)", 1);
                            if rng.chance(1, 2) {
                                force_next = Some("reload_saved");
                                r.h.stats.add("index.save+reload_right_after_overflow_add", 1);
                            }
                        }
                        if let Some((kind, at)) = r.probe_kind(&k, rng) {
                            r.h.violation(format!("C05|add_entry|returns-ok-but-{kind}|{cond}"), "add_entry returned Ok but a lookup does not show the inserted location", json!({"probe": at}));
                        }
                    }
                    Err(e) => {
                        r.h.stats.add("index.add_entry.err", 1);
                        // an internal flush may have happened; the visible state must be unchanged
                        if let Some((kind, at)) = r.probe_kind(&k, rng) {
                            r.h.violation(format!("C05|add_entry|returns-err-but-{kind}|{cond}"), "add_entry returned Err but the visible state of the key changed", json!({"error": e.to_string(), "before": before, "probe": at}));
                        }
                    }
                }
            }
            "update" | "update_absent" => {
                let k = if op == "update" { r.pick_present(rng).unwrap_or_else(|| r.pick_absent(rng)) } else { r.pick_absent(rng) };
                let present = r.m.map.contains_key(&k);
                let loc = r.loc_for(&k, rng);
                r.h.log(format!("update_entry {} {:?} present={present}", hex::encode(k), loc));
                r.h.stats.add("index.ops.update_entry", 1);
                let ok = r.im.update_entry(&ekey_for(&k, rng), loc.0, loc.1, loc.2);
                let b = bucket9(&k) as usize;
                r.h.stats.add(&format!("index.update_entry.{ok}.present={present}"), 1);
                if ok {
                    r.remember_loc(&k, loc);
                    r.m.map.insert(k, loc);
                    r.m.removed.retain(|x| x != &k);
                    r.m.dirty[b] = true;
                    r.m.pending[b] = true;
                    r.seen_rm_or_upd = true;
                    if let Some((kind, at)) = r.probe_kind(&k, rng) {
                        r.h.violation(format!("C05|update_entry|returns-true-but-{kind}|{cond}"), "update_entry returned true but a lookup does not show the new location", json!({"probe": at, "was_present": present}));
                    }
                } else {
                    if present && at_full {
                        r.h.stats.add("index.update_entry.false_on_full_section(truthful)", 1);
                    }
                    if let Some((kind, at)) = r.probe_kind(&k, rng) {
                        r.h.violation(format!("C05|update_entry|returns-false-but-{kind}|{cond}"), "update_entry returned false but the visible state of the key changed", json!({"probe": at, "was_present": present}));
                    }
                }
            }
            "status" => {
                let k = r.pick_present(rng).unwrap_or_else(|| r.pick_absent(rng));
                let present = r.m.map.contains_key(&k);
                let st = *rng.pick(&[UpdateStatus::Normal, UpdateStatus::HeaderNonResident, UpdateStatus::DataNonResident]);
                r.h.log(format!("update_entry_status {} {:?} present={present}", hex::encode(k), st));
                r.h.stats.add("index.ops.update_entry_status", 1);
                let ok = r.im.update_entry_status(&ekey_for(&k, rng), st);
                let b = bucket9(&k) as usize;
                r.h.stats.add(&format!("index.update_entry_status.{ok}.present={present}"), 1);
                if ok {
                    r.m.dirty[b] = true;
                    r.m.pending[b] = true;
                    r.seen_rm_or_upd = true;
                }
                if ok && !present {
                    r.h.violation(format!("C05|update_entry_status|returns-true-for-absent-key|{cond}"), "update_entry_status returned true for a key that is not in the index", json!({"key": hex::encode(k)}));
                }
                // a (non-delete) status change never changes the location or the visibility
                if let Some((kind, at)) = r.probe_kind(&k, rng) {
                    r.h.violation(format!("C05|update_entry_status|returns-{ok}-but-{kind}|{cond}"), "after update_entry_status the key's location/visibility differs from the model", json!({"probe": at}));
                }
            }
            "remove" | "remove_absent" => {
                let k = if op == "remove" { r.pick_present(rng).unwrap_or_else(|| r.pick_absent(rng)) } else { r.pick_absent(rng) };
                let present = r.m.map.contains_key(&k);
                r.h.log(format!("remove_entry {} present={present}", hex::encode(k)));
                r.h.stats.add("index.ops.remove_entry", 1);
                let ok = r.im.remove_entry(&ekey_for(&k, rng));
                let b = bucket9(&k) as usize;
                r.h.stats.add(&format!("index.remove_entry.{ok}.present={present}"), 1);
                if ok {
                    if r.m.map.remove(&k).is_some() {
                        r.m.removed.push(k);
                        if r.m.removed.len() > 64 {
                            r.m.removed.remove(0);
                        }
                    }
                    r.m.dirty[b] = true;
                    r.m.pending[b] = true;
                    r.seen_rm_or_upd = true;
                    if r.im.has_entry(&ekey_for(&k, rng)) {
                        r.h.violation(
                            format!("C05|remove_entry|returns-true-but-key-still-visible|{cond}"),
                            "remove_entry returned true but the key is still returned by lookup/has_entry",
                            json!({"key": hex::encode(k), "update_section_fill_before": fill_before, "was_present": present}),
                        );
                        // keep the model truthful for the rest of the history
                        if let Some(e) = r.im.lookup(&ekey_for(&k, rng)) {
                            r.m.map.insert(k, (e.archive_id(), e.archive_offset(), e.size));
                            r.m.removed.retain(|x| x != &k);
                        }
                    }
                } else if let Some((kind, at)) = r.probe_kind(&k, rng) {
                    r.h.violation(format!("C05|remove_entry|returns-false-but-{kind}|{cond}"), "remove_entry returned false but the visible state of the key changed", json!({"probe": at, "was_present": present}));
                }
            }
            "flush_bucket" => {
                let b = match target {
                    Some(b) if rng.chance(4, 5) => b,
                    _ => rng.below(16) as u8,
                };
                r.h.log(format!("flush_updates_for_bucket {b}"));
                r.h.stats.add("index.ops.flush_updates_for_bucket", 1);
                match r.im.flush_updates_for_bucket(b) {
                    Ok(()) => {
                        if r.m.pending[b as usize] {
                            r.m.pending[b as usize] = false;
                            r.m.dirty[b as usize] = false;
                            r.m.disk_pending[b as usize] = false;
                        }
                    }
                    Err(e) => {
                        r.h.stats.add("index.flush.err", 1);
                        r.h.log(format!("flush error {e}"));
                    }
                }
                r.last_struct = "flush";
                r.had_flush = true;
                if r.seen_rm_or_upd {
                    r.nontrivial = true;
                }
                r.full_compare(rng, "after flush_updates_for_bucket", cond);
            }
            "flush_all" => {
                r.h.log("flush_all_updates".to_string());
                r.h.stats.add("index.ops.flush_all_updates", 1);
                match r.im.flush_all_updates() {
                    Ok(()) => {
                        for b in 0..16 {
                            if r.m.pending[b] {
                                r.m.pending[b] = false;
                                r.m.dirty[b] = false;
                                r.m.disk_pending[b] = false;
                            }
                        }
                    }
                    Err(e) => {
                        r.h.stats.add("index.flush.err", 1);
                        r.h.log(format!("flush_all error {e}"));
                        // unknown which buckets were written: no unsaved reload until the next save_all
                        r.m.dirty = [true; 16];
                    }
                }
                r.last_struct = "flush";
                r.had_flush = true;
                if r.seen_rm_or_upd {
                    r.nontrivial = true;
                }
                r.full_compare(rng, "after flush_all_updates", cond);
            }
            "save_all" | "reload_saved" | "reload_unsaved" => {
                let mut do_reload = op != "save_all";
                if op == "reload_unsaved" {
                    if r.m.dirty.iter().any(|d| *d) {
                        // an unsaved reload is only judged when every bucket is known to be on disk
                        r.h.stats.add("index.reload_unsaved.skipped_dirty", 1);
                        do_reload = false;
                    } else {
                        r.h.stats.add("index.ops.reload_without_save(all buckets clean)", 1);
                    }
                } else {
                    r.h.log("save_all".to_string());
                    r.h.stats.add("index.ops.save_all", 1);
                    match r.im.save_all() {
                        Ok(()) => {
                            r.m.dirty = [false; 16];
                            r.m.disk_pending = r.m.pending;
                        }
                        Err(e) => {
                            r.h.stats.add("index.save_all.err", 1);
                            r.h.log(format!("save_all error {e}"));
                            r.m.dirty = [true; 16];
                            do_reload = false;
                        }
                    }
                    r.last_struct = "save_all";
                }
                if do_reload {
                    r.h.log("reload (fresh IndexManager + load_all)".to_string());
                    r.h.stats.add("index.ops.reload", 1);
                    let per_file = rng.chance(1, 3);
                    if r.reload(&rt, &dir, per_file) {
                        r.last_struct = "reload";
                        r.had_reload = true;
                        if r.seen_rm_or_upd {
                            r.nontrivial = true;
                        }
                        let f = r.fill();
                        r.h.stats.max("index.max_update_entries_surviving_a_reload", f as u64);
                    }
                }
                r.full_compare(rng, op, cond);
            }
            "clear_bucket" => {
                let b = match target {
                    Some(b) if rng.bool() => b,
                    _ => rng.below(16) as u8,
                };
                r.h.log(format!("clear_bucket {b}"));
                r.h.stats.add("index.ops.clear_bucket", 1);
                let n = r.im.clear_bucket(b);
                let gone: Vec<[u8; 9]> = r.m.map.keys().copied().filter(|k| bucket9(k) == b).collect();
                if n < gone.len() {
                    r.h.stats.add("index.clear_bucket.count_smaller_than_visible_keys", 1);
                }
                for k in gone {
                    r.m.map.remove(&k);
                    r.m.removed.push(k);
                }
                while r.m.removed.len() > 64 {
                    r.m.removed.remove(0);
                }
                r.m.dirty[b as usize] = true;
                r.m.pending[b as usize] = false;
                r.last_struct = "clear_bucket";
                r.full_compare(rng, "after clear_bucket", cond);
            }
            "clear" => {
                // every bucket at once; like clear_bucket it does not write: the files keep the old content until the
                // next save, so every bucket is dirty
                r.h.log("clear".to_string());
                r.h.stats.add("index.ops.clear", 1);
                r.im.clear();
                let gone: Vec<[u8; 9]> = r.m.map.keys().copied().collect();
                r.h.stats.max("index.clear.max_keys_cleared", gone.len() as u64);
                r.m.map.clear();
                r.m.removed.extend(gone);
                while r.m.removed.len() > 64 {
                    r.m.removed.remove(0);
                }
                r.m.dirty = [true; 16];
                r.m.pending = [false; 16];
                r.seen_rm_or_upd = true;
                r.last_struct = "clear";
                r.full_compare(rng, "after clear", cond);
            }
            _ => {
                r.h.stats.add("index.ops.probe_only", 1);
            }
        }
        if at_full && matches!(op, "add_new" | "add_existing" | "remove" | "update" | "status") {
            // a mutator on a full section flushes the bucket internally: a structural event
            r.last_struct = "flush";
            r.had_flush = true;
            if r.seen_rm_or_upd {
                r.nontrivial = true;
            }
            r.full_compare(rng, "after a mutator on a full update section (internal flush)", cond);
        }
        r.probe_collateral(rng, op, cond);
        if (opi + 1) % 25 == 0 {
            r.full_compare(rng, "every-25-operations", cond);
        }
    }
    // final: save, reload, compare
    let cond = r.cond(r.fill());
    match r.im.save_all() {
        Ok(()) => {
            r.m.disk_pending = r.m.pending;
            r.h.log("final save_all + reload".to_string());
            r.h.stats.add("index.ops.save_all", 1);
            r.h.stats.add("index.ops.reload", 1);
            let per_file = rng.chance(1, 3);
            if r.reload(&rt, &dir, per_file) {
                r.last_struct = "reload";
                r.had_reload = true;
                if r.seen_rm_or_upd {
                    r.nontrivial = true;
                }
            }
        }
        Err(e) => r.h.stats.add(&format!("index.save_all.err.{}", e.to_string().len().min(1)), 1),
    }
    r.full_compare(rng, "final", cond);

    if r.had_reload {
        r.h.stats.add("histories.with_reload", 1);
    }
    if r.had_flush {
        r.h.stats.add("histories.with_flush", 1);
    }
    if long {
        r.h.stats.max("index.long.max_successful_adds_into_one_bucket", adds_ok);
        r.h.stats.add("histories.index-long.ops", n_ops as u64);
        r.h.stats.max("histories.index-long.max_ops", n_ops as u64);
        r.h.stats.max("index.max_keys_in_model", r.m.map.len() as u64);
        if r.ops_at_full > 0 {
            r.h.stats.add("histories.index-long.reached_full_section", 1);
        }
    }
    r.h.stats.max("index.max_ops_in_one_history", n_ops as u64);
    if r.nontrivial {
        ctx.eval_nontrivial(r.h.hash);
    } else {
        ctx.eval();
    }
    if r.nontrivial && ctx.want_sample() && (long || idx % 5 == 0) {
        let n = r.h.trace.len();
        ctx.sample(json!({"kind": kind, "history": idx, "ops": n_ops, "target_bucket": target, "final_keys": r.m.map.len(), "ops_at_full_section": r.ops_at_full, "first_ops": r.h.trace[..n.min(10)].to_vec()}));
    }
    r.h.stats.flush(ctx);
    Ok(())
}

// ===========================================================================
// Residency histories
// ===========================================================================

#[derive(Clone, Copy, PartialEq, Eq, Debug)]
struct ResState {
    resident: bool,
    last_mark: &'static str,
}

enum ResSubject {
    Db(ResidencyDb),
    Container(ResidencyContainer),
}

struct ResRun<'a> {
    h: Hist<'a>,
    m: BTreeMap<[u8; 16], ResState>,
    disk: BTreeMap<[u8; 16], ResState>,
    s: ResSubject,
    pool: Vec<[u8; 16]>,
    since_load: bool,
    read_only: bool,
}

impl ResRun<'_> {
    fn api(&self) -> &'static str {
        match self.s {
            ResSubject::Db(_) => "ResidencyDb",
            ResSubject::Container(_) => "ResidencyContainer",
        }
    }
    fn is_resident(&self, k: &[u8; 16]) -> bool {
        match &self.s {
            ResSubject::Db(d) => d.is_resident(k),
            ResSubject::Container(c) => c.is_resident(k),
        }
    }
    fn scan(&self) -> Vec<[u8; 16]> {
        match &self.s {
            ResSubject::Db(d) => d.scan_keys(),
            ResSubject::Container(c) => c.scan_keys(),
        }
    }
    fn new_key(&mut self, rng: &mut Rng) -> [u8; 16] {
        loop {
            let mut k: [u8; 16] = rng.array::<16>();
            if !self.pool.is_empty() && rng.chance(2, 5) {
                let base = *rng.pick(&self.pool);
                match rng.below(3) {
                    // same first eight bytes (same MurmurHash3 slot), different tail
                    0 => k[..8].copy_from_slice(&base[..8]),
                    // same bucket, same first 8 bytes: flip two tail bytes by the same value
                    1 => {
                        k = base;
                        let v = 1 + rng.below(255) as u8;
                        k[9] ^= v;
                        k[12] ^= v;
                    }
                    // differs only in the last byte
                    _ => {
                        k = base;
                        k[15] = k[15].wrapping_add(1 + rng.below(255) as u8);
                    }
                }
            }
            if !self.pool.contains(&k) {
                self.pool.push(k);
                return k;
            }
        }
    }
    fn pick_known(&mut self, rng: &mut Rng) -> [u8; 16] {
        if self.pool.is_empty() || rng.chance(1, 6) { self.new_key(rng) } else { *rng.pick(&self.pool) }
    }
    fn since(&self) -> &'static str {
        if self.since_load { "since-load=yes" } else { "since-load=no" }
    }
    fn probe(&mut self, k: &[u8; 16], after: &str) {
        let exp = self.m.get(k).is_some_and(|s| s.resident);
        let got = self.is_resident(k);
        self.h.stats.add("residency.probes", 1);
        if exp != got {
            let last = self.m.get(k).map_or("never-marked", |s| s.last_mark);
            let api = self.api();
            let since = self.since();
            let rel = if exp { "false-for-resident-key" } else { "true-for-non-resident-key" };
            self.h.violation(format!("C05|{api}::is_resident|{rel}|last-mark={last}|{since}"), "is_resident disagrees with the latest mark of the key", json!({"key": hex::encode(k), "expected": exp, "got": got, "after_op": after, "bucket": res_bucket(k)}));
        }
    }
    fn probes(&mut self, rng: &mut Rng, touched: &[[u8; 16]], after: &str) {
        for k in touched.iter().take(4) {
            self.probe(k, after);
        }
        let present: Vec<[u8; 16]> = self.m.iter().filter(|(_, s)| s.resident).map(|(k, _)| *k).collect();
        for _ in 0..3 {
            if !present.is_empty() {
                let k = *rng.pick(&present);
                self.probe(&k, after);
            }
        }
        for i in 0..3 {
            let k = if i == 0 && !present.is_empty() {
                // neighbour of a resident key: same first eight bytes
                let mut k = *rng.pick(&present);
                k[15] = k[15].wrapping_add(1 + rng.below(255) as u8);
                k
            } else {
                rng.array::<16>()
            };
            if !self.m.get(&k).is_some_and(|s| s.resident) {
                self.probe(&k, after);
            }
        }
    }
    fn full_compare(&mut self, why: &str) {
        self.h.stats.add("residency.full_comparisons", 1);
        let api = self.api();
        let since = self.since();
        let listed = self.scan();
        let set: BTreeSet<[u8; 16]> = listed.iter().copied().collect();
        if set.len() != listed.len() {
            self.h.violation(format!("C05|{api}::scan_keys|duplicate-key|{since}"), "scan_keys lists a key twice", json!({"why": why, "listed": listed.len(), "distinct": set.len()}));
        }
        let exp: BTreeSet<[u8; 16]> = self.m.iter().filter(|(_, s)| s.resident).map(|(k, _)| *k).collect();
        if set != exp {
            let missing: Vec<String> = exp.difference(&set).take(4).map(hex::encode).collect();
            let extra: Vec<String> = set.difference(&exp).take(4).map(hex::encode).collect();
            let rel = if !missing.is_empty() { "missing-resident-key" } else { "lists-non-resident-key" };
            self.h.violation(format!("C05|{api}::scan_keys|{rel}|{since}"), "scan_keys differs from the set of keys whose latest mark is resident", json!({"why": why, "expected": exp.len(), "listed": set.len(), "missing": missing, "extra": extra}));
            // report a discrepancy once, where it appears: continue the history from the observed state
            self.h.stats.add("residency.model_resynchronised_after_violation", 1);
            let union: Vec<[u8; 16]> = exp.union(&set).copied().collect();
            for k in union {
                let last = self.m.get(&k).map_or("never-marked", |s| s.last_mark);
                self.m.insert(k, ResState { resident: set.contains(&k), last_mark: last });
            }
        }
        let keys: Vec<[u8; 16]> = self.m.keys().copied().collect();
        for k in keys {
            self.probe(&k, why);
        }
        if let ResSubject::Container(c) = &self.s {
            // resident_count counts live entries (incl. span-non-resident ones): recorded, not judged
            if c.resident_count() != exp.len() {
                self.h.stats.add("residency.resident_count_differs_from_number_of_resident_keys(not judged)", 1);
            }
        }
    }
    fn set(&mut self, k: [u8; 16], resident: bool, mark: &'static str) {
        self.m.insert(k, ResState { resident, last_mark: mark });
    }
}

/// save()/flush(); on success the model's disk image is the current model.
fn res_save(r: &mut ResRun<'_>) -> bool {
    r.h.stats.add("residency.ops.save", 1);
    let res: Result<(), String> = match &mut r.s {
        ResSubject::Db(d) => d.save().map_err(|e| e.to_string()),
        ResSubject::Container(c) => c.flush().map_err(|e| e.to_string()),
    };
    match res {
        Ok(()) => {
            r.disk = r.m.clone();
            true
        }
        Err(e) => {
            r.h.stats.add("residency.save.err", 1);
            r.h.log(format!("save error {e}"));
            false
        }
    }
}

fn open_container(rt: &tokio::runtime::Runtime, dir: &Path, mode: AccessMode) -> Result<ResidencyContainer, String> {
    let mut c = ResidencyContainer::new("wow".to_string(), mode, dir.to_path_buf());
    rt.block_on(c.initialize()).map_err(|e| format!("ResidencyContainer::initialize: {e}"))?;
    Ok(c)
}

fn run_residency(ctx: &Ctx, kind: &'static str, idx: usize, rng: &mut Rng) -> Result<(), String> {
    let rt = tokio::runtime::Builder::new_current_thread().enable_all().build().map_err(|e| e.to_string())?;
    let td = mk_tempdir(idx).map_err(|e| format!("tempdir: {e}"))?;
    let dir = td.path().to_path_buf();
    let db_path = dir.join("key_state_v8");
    let use_container = kind == "residency-container" || (kind == "residency-batch" && idx % 2 == 1);
    let subject = if use_container { ResSubject::Container(open_container(&rt, &dir, AccessMode::ReadWrite)?) } else { ResSubject::Db(ResidencyDb::new(db_path.clone())) };
    let mut r = ResRun { h: Hist { ctx, kind, idx, trace: Vec::new(), stats: Stats::default(), hash: mix64(0x5c05, u64::from(use_container)) }, m: BTreeMap::new(), disk: BTreeMap::new(), s: subject, pool: Vec::new(), since_load: false, read_only: false };
    let batch = kind == "residency-batch";
    let n_ops = if batch { rng.urange(30, 80) } else { rng.urange(20, 400) };
    r.h.stats.add(&format!("histories.{kind}"), 1);
    r.h.log(format!("new subject={} n_ops={n_ops}", r.api()));
    let mut seen_nonres = false;
    let mut nontrivial = false;
    let mut had_load = false;
    if batch {
        // population large enough that several pages per bucket exist
        for _ in 0..rng.urange(600, 1500) {
            let k = r.new_key(rng);
            match &mut r.s {
                ResSubject::Db(d) => d.mark_resident(&k),
                ResSubject::Container(c) => c.mark_resident(&k).map_err(|e| e.to_string())?,
            }
            r.set(k, true, "mark_resident");
        }
        r.h.stats.add("residency.ops.mark_resident", r.m.len() as u64);
        r.full_compare("after population");
    }
    let big_at = if batch { rng.urange(5, n_ops - 5) } else { usize::MAX };
    // "persist right after the mutation": the next operation is forced to be save + load
    let mut forced_next: Option<&'static str> = None;

    for opi in 0..n_ops {
        let forced = forced_next.take();
        let op: &'static str = if let Some(f) = forced {
            f
        } else if opi == big_at {
            "delete_keys_batch"
        } else {
            match rng.below(100) {
                0..=29 => "mark_resident",
                30..=44 => "mark_non_resident",
                45..=56 => "mark_span_non_resident",
                57..=64 => "delete_keys",
                65..=72 => "save",
                73..=80 => "load",
                81..=83 if use_container => "read_only_phase",
                84..=87 if use_container => "container_remove",
                88..=92 if use_container => "container_trait_calls",
                _ => "probe",
            }
        };
        let mut touched: Vec<[u8; 16]> = Vec::new();
        // "save; mutate; save; load": the mutation is the only change since the last save, so it
        // alone must make the database persist again
        let mutation = matches!(op, "mark_resident" | "mark_non_resident" | "mark_span_non_resident" | "container_remove" | "delete_keys" | "delete_keys_batch");
        let sandwich = mutation && (rng.chance(1, 12) || (op == "delete_keys_batch" && idx % 4 != 3));
        if sandwich {
            r.h.log("save (before the mutation)".to_string());
            if res_save(&mut r) {
                forced_next = Some("load");
                r.h.stats.add(&format!("residency.sandwich(save;{op};save;load)"), 1);
            }
        }
        match op {
            "mark_resident" | "mark_non_resident" | "mark_span_non_resident" | "container_remove" => {
                let k = r.pick_known(rng);
                let (off, len) = (*rng.pick(&[0i32, 1, 30, i32::MAX, -1, 4096]), *rng.pick(&[0i32, 1, 100, i32::MAX, -5]));
                r.h.log(format!("{op} {}", hex::encode(&k[..6])));
                r.h.stats.add(&format!("residency.ops.{op}"), 1);
                let res: Result<(), String> = match &mut r.s {
                    ResSubject::Db(d) => {
                        match op {
                            "mark_resident" => d.mark_resident(&k),
                            "mark_non_resident" => d.mark_non_resident(&k),
                            _ => d.mark_span_non_resident(&k, off, len),
                        }
                        Ok(())
                    }
                    ResSubject::Container(c) => match op {
                        "mark_resident" => c.mark_resident(&k),
                        "mark_non_resident" => c.mark_non_resident(&k),
                        "container_remove" => rt.block_on(c.remove(&k)),
                        _ => c.mark_span_non_resident(&k, off, len),
                    }
                    .map_err(|e| e.to_string()),
                };
                match res {
                    Ok(()) => {
                        let mark: &'static str = match op {
                            "mark_resident" => "mark_resident",
                            "mark_non_resident" => "mark_non_resident",
                            "container_remove" => "remove",
                            _ => "mark_span_non_resident",
                        };
                        r.set(k, op == "mark_resident", mark);
                        if op != "mark_resident" {
                            seen_nonres = true;
                        }
                    }
                    Err(_) => r.h.stats.add(&format!("residency.{op}.err"), 1),
                }
                touched.push(k);
            }
            "delete_keys" => {
                let n = rng.urange(0, 20);
                let keys: Vec<[u8; 16]> = (0..n).map(|_| r.pick_known(rng)).collect();
                r.h.log(format!("delete_keys n={n}"));
                r.h.stats.add("residency.ops.delete_keys", 1);
                let res: Result<(), String> = match &mut r.s {
                    ResSubject::Db(d) => {
                        d.delete_keys(&keys);
                        Ok(())
                    }
                    ResSubject::Container(c) => c.delete_keys(&keys).map_err(|e| e.to_string()),
                };
                if res.is_ok() {
                    for k in &keys {
                        r.set(*k, false, "delete_keys");
                    }
                    if n > 0 {
                        seen_nonres = true;
                    }
                }
                touched = keys;
            }
            "delete_keys_batch" => {
                // > 10000 keys: a part of the population + absent keys, with duplicates
                let mut keys: Vec<[u8; 16]> = Vec::new();
                let known: Vec<[u8; 16]> = r.m.keys().copied().collect();
                for k in &known {
                    if rng.chance(1, 2) {
                        keys.push(*k);
                    }
                }
                let hit = keys.len();
                while keys.len() <= 10_000 + rng.urange(1, 500) {
                    keys.push(rng.array::<16>());
                }
                if let Some(k) = keys.first().copied() {
                    keys.push(k);
                }
                rng.shuffle(&mut keys);
                r.h.log(format!("delete_keys (batch path) n={} of which known={hit}", keys.len()));
                r.h.stats.add("residency.ops.delete_keys_batch(>10000)", 1);
                r.h.stats.max("residency.max_delete_batch", keys.len() as u64);
                let res: Result<(), String> = match &mut r.s {
                    ResSubject::Db(d) => {
                        d.delete_keys(&keys);
                        Ok(())
                    }
                    ResSubject::Container(c) => c.delete_keys(&keys).map_err(|e| e.to_string()),
                };
                if res.is_ok() {
                    for k in &keys {
                        if r.m.contains_key(k) {
                            r.set(*k, false, "delete_keys_batch");
                        }
                    }
                    seen_nonres = true;
                }
                touched = keys.iter().copied().filter(|k| r.m.contains_key(k)).take(4).collect();
                r.full_compare("after delete_keys batch");
            }
            "save" => {
                r.h.log("save".to_string());
                r.h.stats.add("residency.ops.save", 1);
                let res: Result<(), String> = match &mut r.s {
                    ResSubject::Db(d) => d.save().map_err(|e| e.to_string()),
                    ResSubject::Container(c) => c.flush().map_err(|e| e.to_string()),
                };
                match res {
                    Ok(()) => r.disk = r.m.clone(),
                    Err(e) => {
                        r.h.stats.add("residency.save.err", 1);
                        r.h.log(format!("save error {e}"));
                    }
                }
            }
            "load" => {
                // sometimes save first (persistent map), sometimes not (state falls back to the last save)
                let save_first = forced.is_some() || rng.chance(2, 3);
                if forced.is_some() {
                    r.h.stats.add("residency.ops.save+load_directly_after_a_mutation", 1);
                }
                let mut ok = true;
                if save_first {
                    r.h.stats.add("residency.ops.save", 1);
                    let res: Result<(), String> = match &mut r.s {
                        ResSubject::Db(d) => d.save().map_err(|e| e.to_string()),
                        ResSubject::Container(c) => c.flush().map_err(|e| e.to_string()),
                    };
                    if res.is_ok() {
                        r.disk = r.m.clone();
                    } else {
                        ok = false;
                    }
                }
                if ok {
                    r.h.log(format!("load save_first={save_first}"));
                    r.h.stats.add(&format!("residency.ops.load.save_first={save_first}"), 1);
                    let fresh: Result<ResSubject, String> = if use_container { open_container(&rt, &dir, AccessMode::ReadWrite).map(ResSubject::Container) } else { ResidencyDb::load(&db_path).map(ResSubject::Db).map_err(|e| e.to_string()) };
                    match fresh {
                        Ok(s) => {
                            r.s = s;
                            r.m = r.disk.clone();
                            r.since_load = true;
                            had_load = true;
                            if seen_nonres {
                                nontrivial = true;
                            }
                            r.full_compare("after load");
                        }
                        Err(e) => {
                            let api = r.api();
                            r.h.violation(format!("C05|{api}|load-error-after-successful-save"), "the residency database written by save() could not be loaded", json!({"error": e}));
                        }
                    }
                }
            }
            "read_only_phase" => {
                // same directory opened read-only: every mutator must fail and leave the state unchanged
                let res: Result<(), String> = match &mut r.s {
                    ResSubject::Container(c) => c.flush().map_err(|e| e.to_string()),
                    ResSubject::Db(_) => Ok(()),
                };
                if res.is_ok() {
                    r.disk = r.m.clone();
                    r.h.log("read-only phase".to_string());
                    r.h.stats.add("residency.ops.read_only_phase", 1);
                    let ro = open_container(&rt, &dir, AccessMode::ReadOnly)?;
                    let rw = std::mem::replace(&mut r.s, ResSubject::Container(ro));
                    r.read_only = true;
                    r.since_load = true;
                    let k = r.pick_known(rng);
                    let mut all_err = true;
                    if let ResSubject::Container(c) = &r.s {
                        let results = [
                            ("mark_resident", c.mark_resident(&k).is_ok()),
                            ("mark_non_resident", c.mark_non_resident(&k).is_ok()),
                            ("mark_span_non_resident", c.mark_span_non_resident(&k, 0, 10).is_ok()),
                            ("delete_keys", c.delete_keys(&[k]).is_ok()),
                            ("remove", rt.block_on(c.remove(&k)).is_ok()),
                        ];
                        // not mutators of the map: whatever they answer on a read-only container, the state stays
                        r.h.stats.add(&format!("residency.read_only.reserve.returned_ok={}", rt.block_on(c.reserve(&k)).is_ok()), 1);
                        r.h.stats.add(&format!("residency.read_only.flush.returned_ok={}", c.flush().is_ok()), 1);
                        for (name, ok) in results {
                            if ok {
                                all_err = false;
                            }
                            r.h.stats.add(&format!("residency.read_only.{name}.returned_ok={ok}"), 1);
                        }
                    }
                    // an Err must not have had an effect. Ok on a read-only container is only recorded
                    // (the statement does not forbid it); the model then cannot be kept exact, so the
                    // comparison is made in the all-Err case only
                    if all_err {
                        r.full_compare("read-only phase (all mutators returned Err)");
                    }
                    r.s = rw;
                    r.read_only = false;
                    touched.push(k);
                }
            }
            "container_trait_calls" => {
                // the Container face of the residency container: query() is is_resident(); reserve() is not a mark
                // ("a no-op until mark_resident is called"); read()/write() carry no residency information. None of
                // them is a mark, so none of them may change what is_resident answers.
                let k = r.pick_known(rng);
                r.h.log(format!("Container::query/reserve/read/write {}", hex::encode(&k[..6])));
                r.h.stats.add("residency.ops.container_trait_calls", 1);
                if let ResSubject::Container(c) = &r.s {
                    let exp = r.m.get(&k).is_some_and(|s| s.resident);
                    let q = rt.block_on(c.query(&k));
                    let rs = rt.block_on(c.reserve(&k)).is_ok();
                    let mut buf = [0u8; 64];
                    let rd = rt.block_on(c.read(&k, 0, 64, &mut buf)).is_ok();
                    let wr = rt.block_on(c.write(&k, b"payload")).is_ok();
                    let q2 = rt.block_on(c.query(&k));
                    let last = r.m.get(&k).map_or("never-marked", |s| s.last_mark);
                    let since = r.since();
                    r.h.stats.add(&format!("residency.container.reserve.ok={rs}"), 1);
                    r.h.stats.add(&format!("residency.container.read.ok={rd}"), 1);
                    r.h.stats.add(&format!("residency.container.write.ok={wr}"), 1);
                    for (when, got) in [("before", q), ("after-reserve-read-write", q2)] {
                        match got {
                            Ok(g) if g == exp => r.h.stats.add("residency.container.query.agrees", 1),
                            Ok(g) => {
                                let rel = if exp { "false-for-resident-key" } else { "true-for-non-resident-key" };
                                r.h.violation(format!("C05|ResidencyContainer::query|{rel}|last-mark={last}|{since}|{when}"), "Container::query of the residency container disagrees with the latest mark of the key", json!({"key": hex::encode(k), "expected": exp, "got": g}));
                            }
                            Err(_) => r.h.stats.add("residency.container.query.err", 1),
                        }
                    }
                }
                touched.push(k);
            }
            _ => r.h.stats.add("residency.ops.probe_only", 1),
        }
        r.probes(rng, &touched, op);
        if (opi + 1) % 25 == 0 {
            r.full_compare("every-25-operations");
        }
    }
    // final save + load + compare
    let res: Result<(), String> = match &mut r.s {
        ResSubject::Db(d) => d.save().map_err(|e| e.to_string()),
        ResSubject::Container(c) => c.flush().map_err(|e| e.to_string()),
    };
    if res.is_ok() {
        r.h.stats.add("residency.ops.save", 1);
        let fresh: Result<ResSubject, String> = if use_container { open_container(&rt, &dir, AccessMode::ReadWrite).map(ResSubject::Container) } else { ResidencyDb::load(&db_path).map(ResSubject::Db).map_err(|e| e.to_string()) };
        match fresh {
            Ok(s) => {
                r.h.log("final save + load".to_string());
                r.h.stats.add("residency.ops.load.save_first=true", 1);
                r.s = s;
                r.since_load = true;
                had_load = true;
                if seen_nonres {
                    nontrivial = true;
                }
            }
            Err(e) => {
                let api = r.api();
                r.h.violation(format!("C05|{api}|load-error-after-successful-save"), "the residency database written by save() could not be loaded", json!({"error": e}));
            }
        }
    }
    r.full_compare("final");
    if had_load {
        r.h.stats.add("histories.residency.with_load", 1);
    }
    r.h.stats.max("residency.max_keys_in_model", r.m.len() as u64);
    if nontrivial {
        ctx.eval_nontrivial(r.h.hash);
    } else {
        ctx.eval();
    }
    if nontrivial && ctx.want_sample() && (batch || idx % 7 == 0) {
        let n = r.h.trace.len();
        ctx.sample(json!({"kind": kind, "history": idx, "ops": n_ops, "keys": r.m.len(), "first_ops": r.h.trace[..n.min(8)].to_vec()}));
    }
    r.h.stats.flush(ctx);
    Ok(())
}

// ===========================================================================
// UpdateSection / UpdatePage driven directly (the append-only log the index buckets are built on; public types)
// ===========================================================================

type LogEntry = ([u8; 9], Loc, UpdateStatus);

fn same_entry(e: &UpdateEntry, m: &LogEntry) -> bool {
    e.ekey == m.0 && e.archive_location.archive_id == m.1.0 && e.archive_location.archive_offset == m.1.1 && e.encoded_size == m.1.2 && e.status == m.2
}

fn run_update_section(ctx: &Ctx, kind: &'static str, idx: usize, rng: &mut Rng) -> Result<(), String> {
    let mut h = Hist { ctx, kind, idx, trace: Vec::new(), stats: Stats::default(), hash: 0x0c05_5ec7 };
    // capacities: the 60-page minimum (new / default / with_capacity at or below the minimum) and larger sections
    let (ctor, mut sec): (&'static str, UpdateSection) = match rng.below(8) {
        0 => ("new", UpdateSection::new()),
        1 => ("default", UpdateSection::default()),
        2 => ("with_capacity(0)", UpdateSection::with_capacity(0)),
        3 => ("with_capacity(min)", UpdateSection::with_capacity(0x7800)),
        4 => ("with_capacity(min+1page)", UpdateSection::with_capacity(0x7800 + 512)),
        5 => ("with_capacity(min+511)", UpdateSection::with_capacity(0x7800 + 511)),
        6 => ("with_capacity(min+7pages)", UpdateSection::with_capacity(0x7800 + 7 * 512)),
        _ => ("with_capacity(2*min)", UpdateSection::with_capacity(2 * 0x7800)),
    };
    let capc = if sec.capacity_pages() == 60 { "capacity=min" } else { "capacity=above-min" };
    h.stats.add(&format!("update_section.histories.{ctor}"), 1);
    h.stats.max("update_section.max_capacity_pages", sec.capacity_pages() as u64);
    h.log(format!("{ctor} capacity_pages={}", sec.capacity_pages()));
    let mut model: Vec<LogEntry> = Vec::new();
    let pool: Vec<[u8; 9]> = (0..rng.urange(8, 400)).map(|_| rng.array::<9>()).collect();
    // two of three histories are long enough to fill the section (and do not clear it before it has been full)
    let fill_mode = rng.chance(2, 3);
    let n_ops = if fill_mode { sec.capacity_pages() * 21 * 10 / 9 + rng.urange(100, 500) } else { rng.urange(50, 1200) };
    let mut reached_full = false;
    let mut round_trips = 0u64;
    let mut refusals = 0u64;
    let newest = |model: &[LogEntry], k: &[u8; 9]| model.iter().rev().find(|e| e.0 == *k).copied();
    let check_search = |h: &mut Hist<'_>, sec: &UpdateSection, model: &[LogEntry], k: &[u8; 9], op: &str| {
        let got = sec.search(k);
        let exp = newest(model, k);
        let ok = match (&got, &exp) {
            (None, None) => true,
            (Some(g), Some(e)) => same_entry(g, e),
            _ => false,
        };
        if !ok {
            let rel = match (&got, &exp) {
                (None, Some(_)) => "appended-key-not-found",
                (Some(_), None) => "never-appended-key-found",
                _ => "not-the-most-recent-entry",
            };
            h.violation(format!("C05|UpdateSection::search|{rel}|after={op}|{capc}"), "search() does not return the most recent entry appended for the key", json!({"key": hex::encode(k), "expected": exp.map(|e| (e.1, e.2 as u8)), "got": got.map(|g| (g.archive_location.archive_id, g.archive_location.archive_offset, g.encoded_size, g.status as u8))}));
        }
    };
    let compare_all = |h: &mut Hist<'_>, sec: &UpdateSection, model: &[LogEntry], why: &str| {
        h.stats.add("update_section.full_comparisons", 1);
        let all: Vec<&UpdateEntry> = sec.all_entries().collect();
        let same = all.len() == model.len() && all.iter().zip(model).all(|(e, m)| same_entry(e, m));
        if !same {
            let first = all.iter().zip(model).position(|(e, m)| !same_entry(e, m));
            h.violation(format!("C05|UpdateSection::all_entries|differs-from-appended-sequence|{why}|{capc}"), "the entries of the section are not the successfully appended ones, oldest first", json!({"appended": model.len(), "enumerated": all.len(), "first_difference": first}));
        }
        if sec.entry_count() != model.len() {
            h.violation(format!("C05|UpdateSection::entry_count|differs-from-appended-count|{why}|{capc}"), "entry_count differs from the number of successfully appended entries", json!({"appended": model.len(), "entry_count": sec.entry_count()}));
        }
        if all.iter().any(|e| !e.validate_hash_guard()) {
            h.stats.add("update_section.hash_guard_invalid(not judged)", 1);
        }
        if sec.page_count() != model.len().div_ceil(21) {
            h.stats.add("update_section.page_count_differs_from_ceil(n/21)(not judged)", 1);
        }
    };
    for opi in 0..n_ops {
        let r = rng.below(1000);
        if r < 900 {
            let k = *rng.pick(&pool);
            let loc = gen_loc(rng, &mut h.stats);
            let st = *rng.pick(&[UpdateStatus::Normal, UpdateStatus::Normal, UpdateStatus::Delete, UpdateStatus::HeaderNonResident, UpdateStatus::DataNonResident]);
            let was_full = sec.is_full();
            let before = sec.entry_count();
            let ok = sec.append(UpdateEntry::new(k, ArchiveLocation { archive_id: loc.0, archive_offset: loc.1 }, loc.2, st));
            h.log(format!("append {} {:?} {} -> {ok}", hex::encode(&k[..4]), loc, st as u8));
            h.stats.add(&format!("update_section.ops.append.{ok}"), 1);
            if ok {
                model.push((k, loc, st));
                if sec.entry_count() != before + 1 {
                    h.violation(format!("C05|UpdateSection::append|returns-true-but-entry-count-not-incremented|{capc}"), "append returned true but entry_count did not grow by one", json!({"before": before, "after": sec.entry_count()}));
                }
                if was_full {
                    h.violation(format!("C05|UpdateSection::is_full|true-but-append-succeeds|{capc}"), "is_full() was true and the next append was accepted", json!({"entries": before}));
                }
            } else {
                refusals += 1;
                reached_full = true;
                h.stats.max("update_section.max_entries_at_refusal", before as u64);
                if sec.entry_count() != before {
                    h.violation(format!("C05|UpdateSection::append|returns-false-but-entry-count-changed|{capc}"), "append returned false but entry_count changed", json!({"before": before, "after": sec.entry_count()}));
                }
                if !was_full {
                    h.violation(format!("C05|UpdateSection::append|returns-false-although-is_full-is-false|{capc}"), "append refused an entry although is_full() was false", json!({"entries": before, "capacity_pages": sec.capacity_pages()}));
                }
            }
            check_search(&mut h, &sec, &model, &k, if ok { "append-true" } else { "append-false" });
        } else if r < 960 {
            let k = if rng.bool() { *rng.pick(&pool) } else { rng.array::<9>() };
            h.stats.add("update_section.ops.search", 1);
            check_search(&mut h, &sec, &model, &k, "probe");
        } else if r < 990 {
            // persistence of the section: serialise, parse, continue on the parsed copy
            let bytes = sec.to_bytes();
            let back = UpdateSection::from_bytes(&bytes);
            h.log(format!("to_bytes ({} bytes) + from_bytes", bytes.len()));
            h.stats.add("update_section.ops.round_trip", 1);
            round_trips += 1;
            if back.capacity_pages() != sec.capacity_pages() {
                h.stats.add("update_section.capacity_changed_by_round_trip(not judged)", 1);
            }
            if back.should_sync() != sec.should_sync() {
                h.stats.add("update_section.should_sync_changed_by_round_trip(not judged)", 1);
            }
            sec = back;
            compare_all(&mut h, &sec, &model, "after-round-trip");
            for k in pool.iter().take(24) {
                check_search(&mut h, &sec, &model, k, "round-trip");
            }
        } else if r < 995 && (!fill_mode || (reached_full && rng.chance(1, 4))) {
            h.log("clear".to_string());
            h.stats.add("update_section.ops.clear", 1);
            sec.clear();
            model.clear();
            if sec.is_full() {
                h.violation(format!("C05|UpdateSection::is_full|true-for-empty-section|{capc}"), "is_full() is true right after clear()", json!({}));
            }
            compare_all(&mut h, &sec, &model, "after-clear");
        } else {
            compare_all(&mut h, &sec, &model, "probe");
        }
        if (opi + 1) % 200 == 0 {
            compare_all(&mut h, &sec, &model, "every-200-operations");
        }
    }
    compare_all(&mut h, &sec, &model, "final");
    h.stats.max("update_section.max_entries", model.len() as u64);
    if reached_full {
        h.stats.add("update_section.histories.reached_full", 1);
    }
    h.stats.add("update_section.refused_appends", refusals);

    // one page on its own: push until it refuses, round trip
    let mut page = UpdatePage::new();
    let mut pm: Vec<LogEntry> = Vec::new();
    if !page.is_empty() {
        h.violation("C05|UpdatePage::is_empty|false-for-new-page".to_string(), "a new page is not empty", json!({}));
    }
    for _ in 0..rng.urange(1, 30) {
        let k: [u8; 9] = rng.array::<9>();
        let loc = gen_loc(rng, &mut h.stats);
        let was_full = page.is_full();
        let before = page.len();
        let ok = page.push(UpdateEntry::new(k, ArchiveLocation { archive_id: loc.0, archive_offset: loc.1 }, loc.2, UpdateStatus::Normal));
        h.stats.add(&format!("update_page.ops.push.{ok}"), 1);
        if ok {
            pm.push((k, loc, UpdateStatus::Normal));
        }
        let after = page.len();
        if (ok && (after != before + 1 || was_full)) || (!ok && (after != before || !was_full)) {
            h.violation(format!("C05|UpdatePage::push|returns-{ok}-but-len-{before}-to-{}-is_full-{was_full}", if after == before { "unchanged" } else { "changed" }), "push() on an update page does not tell the truth about whether the entry was added", json!({"before": before, "after": after, "was_full": was_full}));
        }
    }
    let back = UpdatePage::from_bytes(&page.to_bytes());
    let same = match &back {
        Some(b) => b.entries().len() == pm.len() && b.entries().iter().zip(&pm).all(|(e, m)| same_entry(e, m)),
        None => pm.is_empty(),
    };
    if !same {
        h.violation("C05|UpdatePage|round-trip-differs".to_string(), "to_bytes + from_bytes of an update page does not give the pushed entries back", json!({"pushed": pm.len(), "parsed": back.map(|b| b.len())}));
    }
    let nontrivial = reached_full && round_trips > 0;
    if nontrivial {
        ctx.eval_nontrivial(h.hash);
    } else {
        ctx.eval();
    }
    h.stats.flush(ctx);
    Ok(())
}

// ===========================================================================
// DynamicContainer as a persistent key map (write / remove / query / entry_count / flush / reopen), and the marks it
// makes itself when a read hits a truncated data file
// ===========================================================================

fn dc_ekey(payload: &[u8]) -> [u8; 16] {
    let mut v = Vec::with_capacity(payload.len() + 9);
    v.extend_from_slice(b"BLTE\0\0\0\0N");
    v.extend_from_slice(payload);
    md5::compute(&v).0
}

struct DcRun<'a> {
    h: Hist<'a>,
    present: BTreeMap<[u8; 16], usize>,
    removed: Vec<[u8; 16]>,
    res: BTreeMap<[u8; 16], ResState>,
    last_struct: &'static str,
}

struct DcOpen {
    c: DynamicContainer,
    rc: std::sync::Arc<ResidencyContainer>,
}

fn dc_open(rt: &tokio::runtime::Runtime, root: &Path) -> Result<DcOpen, String> {
    let rc = std::sync::Arc::new(open_container(rt, &root.join("residency"), AccessMode::ReadWrite)?);
    let c = DynamicContainer::builder(root.join("store")).residency(rc.clone()).build().map_err(|e| format!("DynamicContainer build: {e}"))?;
    rt.block_on(c.open()).map_err(|e| format!("DynamicContainer::open: {e}"))?;
    Ok(DcOpen { c, rc })
}

impl DcRun<'_> {
    fn query_check(&mut self, rt: &tokio::runtime::Runtime, o: &DcOpen, k: &[u8; 16], after: &str) {
        self.h.stats.add("dyn.probes", 1);
        let exp = self.present.contains_key(k);
        match rt.block_on(o.c.query(k)) {
            Ok(got) if got == exp => {}
            Ok(got) => {
                let rel = if got { "true-for-absent-key" } else { "false-for-present-key" };
                let ls = self.last_struct;
                self.h.violation(format!("C05|DynamicContainer::query|{rel}|last-structural-op={ls}"), "query() disagrees with the map of written and not removed keys", json!({"key": hex::encode(k), "expected": exp, "after_op": after}));
            }
            Err(e) => self.h.stats.add(&format!("dyn.query.err.{}", e.to_string().len().min(1)), 1),
        }
    }
    fn full_compare(&mut self, rt: &tokio::runtime::Runtime, o: &DcOpen, why: &str) {
        self.h.stats.add("dyn.full_comparisons", 1);
        let keys: Vec<[u8; 16]> = self.present.keys().copied().chain(self.removed.iter().copied()).collect();
        for k in keys {
            self.query_check(rt, o, &k, why);
        }
        let ec = o.c.entry_count();
        if ec != self.present.len() {
            let ls = self.last_struct;
            self.h.violation(format!("C05|DynamicContainer::entry_count|differs-from-model|last-structural-op={ls}"), "entry_count differs from the number of written and not removed keys", json!({"why": why, "entry_count": ec, "model_len": self.present.len()}));
        }
        let marks: Vec<([u8; 16], ResState)> = self.res.iter().map(|(k, s)| (*k, *s)).collect();
        for (k, st) in marks {
            let got = o.rc.is_resident(&k);
            if got != st.resident {
                let rel = if st.resident { "false-for-resident-key" } else { "true-for-non-resident-key" };
                self.h.violation(format!("C05|DynamicContainer+ResidencyContainer::is_resident|{rel}|last-mark={}", st.last_mark), "the residency container attached to the dynamic container disagrees with the latest mark of the key", json!({"key": hex::encode(k), "why": why}));
            }
        }
    }
}

fn run_dyncontainer(ctx: &Ctx, kind: &'static str, idx: usize, rng: &mut Rng) -> Result<(), String> {
    let rt = tokio::runtime::Builder::new_current_thread().enable_all().build().map_err(|e| e.to_string())?;
    let td = mk_tempdir(idx).map_err(|e| format!("tempdir: {e}"))?;
    let root = td.path().to_path_buf();
    let mut r = DcRun { h: Hist { ctx, kind, idx, trace: Vec::new(), stats: Stats::default(), hash: 0xd1c05 }, present: BTreeMap::new(), removed: Vec::new(), res: BTreeMap::new(), last_struct: "none" };
    let mut o = dc_open(&rt, &root)?;
    let n_ops = rng.urange(20, 120);
    r.h.stats.add(&format!("histories.{kind}"), 1);
    r.h.log(format!("open n_ops={n_ops}"));
    let mut counter = 0u64;
    let mut truncated = false;
    let mut seen_remove = false;
    let mut nontrivial = false;
    let truncate_at = if rng.chance(1, 2) { rng.urange(8, n_ops) } else { usize::MAX };
    for opi in 0..n_ops {
        let x = rng.below(100);
        let op: &'static str = if opi == truncate_at && !truncated && r.present.len() >= 3 {
            "truncate"
        } else if opi < 3 {
            "write"
        } else {
            match x {
                0..=37 => "write",
                38..=52 => "remove",
                53..=57 => "remove_absent",
                58..=69 => "query",
                70..=77 => "entry_count",
                78..=82 => "flush_bucket",
                83..=86 => "flush_all",
                _ => "reopen",
            }
        };
        match op {
            "write" => {
                counter += 1;
                let n = *rng.pick(&[0usize, 1, 30, 100, 700, 3000]);
                let mut payload = rng.bytes(n);
                if !rng.chance(1, 10) || r.present.is_empty() {
                    payload.extend_from_slice(&counter.to_le_bytes());
                    payload.extend_from_slice(&(idx as u32).to_le_bytes());
                } else {
                    // the same content again: same key, the map does not grow
                    payload = Vec::new();
                    payload.extend_from_slice(&1u64.to_le_bytes());
                    payload.extend_from_slice(&(idx as u32).to_le_bytes());
                }
                let ekey = dc_ekey(&payload);
                r.h.log(format!("write len={} key={}", payload.len(), hex::encode(&ekey[..5])));
                r.h.stats.add("dyn.ops.write", 1);
                match rt.block_on(o.c.write(&rng.array::<16>(), &payload)) {
                    Ok(()) => {
                        if matches!(rt.block_on(o.c.query(&ekey)), Ok(true)) {
                            r.h.stats.add("dyn.key_derivation.agrees", 1);
                            r.present.insert(ekey, payload.len());
                            r.removed.retain(|k| k != &ekey);
                            // what a downloader does after storing an object
                            if o.rc.mark_resident(&ekey).is_ok() {
                                r.res.insert(ekey, ResState { resident: true, last_mark: "mark_resident" });
                            }
                        } else {
                            // not this property's subject (C04: ok-but-object-not-indexed); the object is left out
                            r.h.stats.add("dyn.key_derivation.differs_or_write_not_visible", 1);
                        }
                    }
                    Err(e) => r.h.stats.add(&format!("dyn.write.err.{}", e.to_string().len().min(1)), 1),
                }
            }
            "remove" | "remove_absent" => {
                let k = if op == "remove" && !r.present.is_empty() {
                    let i = rng.usize_below(r.present.len());
                    r.present.keys().nth(i).copied().unwrap_or([0; 16])
                } else if !r.removed.is_empty() && rng.bool() {
                    *rng.pick(&r.removed)
                } else {
                    rng.array::<16>()
                };
                let was = r.present.contains_key(&k);
                r.h.log(format!("remove {} present={was}", hex::encode(&k[..5])));
                r.h.stats.add("dyn.ops.remove", 1);
                match rt.block_on(o.c.remove(&k)) {
                    Ok(()) => {
                        if r.present.remove(&k).is_some() {
                            r.removed.push(k);
                            seen_remove = true;
                        }
                        if matches!(rt.block_on(o.c.query(&k)), Ok(true)) {
                            r.h.violation("C05|DynamicContainer::remove|returns-ok-but-key-still-visible".to_string(), "remove() returned Ok but query() still reports the key", json!({"key": hex::encode(k), "was_present": was}));
                            r.present.insert(k, 0);
                            r.removed.retain(|x| x != &k);
                        }
                    }
                    Err(e) => {
                        r.h.stats.add(&format!("dyn.remove.err.{}", e.to_string().len().min(1)), 1);
                        r.query_check(&rt, &o, &k, "remove-err");
                    }
                }
            }
            "query" => {
                r.h.stats.add("dyn.ops.query", 1);
                let k = match rng.below(3) {
                    0 if !r.present.is_empty() => r.present.keys().nth(rng.usize_below(r.present.len())).copied().unwrap_or([0; 16]),
                    1 if !r.removed.is_empty() => *rng.pick(&r.removed),
                    _ => rng.array::<16>(),
                };
                r.query_check(&rt, &o, &k, "query");
            }
            "entry_count" => {
                r.h.stats.add("dyn.ops.entry_count", 1);
                let ec = o.c.entry_count();
                if ec != r.present.len() {
                    let ls = r.last_struct;
                    r.h.violation(format!("C05|DynamicContainer::entry_count|differs-from-model|last-structural-op={ls}"), "entry_count differs from the number of written and not removed keys", json!({"entry_count": ec, "model_len": r.present.len()}));
                }
            }
            "flush_bucket" | "flush_all" => {
                r.h.log(op.to_string());
                r.h.stats.add(&format!("dyn.ops.{op}"), 1);
                let res = if op == "flush_all" { o.c.flush_all_updates() } else { o.c.flush_bucket(rng.below(16) as u8) };
                if res.is_err() {
                    r.h.stats.add("dyn.flush.err", 1);
                }
                r.last_struct = "flush";
                if seen_remove {
                    nontrivial = true;
                }
                r.full_compare(&rt, &o, op);
            }
            "reopen" => {
                r.h.log("reopen".to_string());
                r.h.stats.add("dyn.ops.reopen", 1);
                if o.rc.flush().is_err() {
                    r.h.stats.add("dyn.residency_flush.err", 1);
                    continue;
                }
                drop(o);
                o = dc_open(&rt, &root)?;
                r.last_struct = "reopen";
                if seen_remove {
                    nontrivial = true;
                }
                r.full_compare(&rt, &o, "after reopen");
            }
            _ => {
                // "truncate": the data file loses the tail of the object stored last while the store is closed; the
                // read that hits it makes the container mark the key itself (index status + residency span)
                truncated = true;
                if o.rc.flush().is_err() {
                    continue;
                }
                drop(o);
                let store = root.join("store");
                let last = {
                    let mut im = IndexManager::new(&store);
                    rt.block_on(im.load_all()).map_err(|e| format!("load_all: {e}"))?;
                    im.iter_entries().map(|(_, e)| e).max_by_key(|e| (e.archive_id(), e.archive_offset()))
                };
                let mut cut: Option<[u8; 16]> = None;
                if let Some(e) = last {
                    let data = store.join(format!("data.{:03}", e.archive_id()));
                    let len = std::fs::metadata(&data).map(|m| m.len()).unwrap_or(0);
                    let key = r.present.keys().find(|k| k[..9] == e.key).copied();
                    if let (Some(k), true) = (key, u64::from(e.archive_offset()) + u64::from(e.size) == len && e.size >= 60) {
                        let new_len = u64::from(e.archive_offset()) + u64::from(e.size) / 2;
                        if std::fs::OpenOptions::new().write(true).open(&data).and_then(|f| f.set_len(new_len)).is_ok() {
                            cut = Some(k);
                            r.h.log(format!("data file truncated while closed {len} -> {new_len}: cuts {}", hex::encode(&k[..5])));
                        }
                    }
                }
                o = dc_open(&rt, &root)?;
                r.last_struct = "reopen";
                if let Some(k) = cut {
                    r.h.stats.add("dyn.ops.truncation", 1);
                    let mut buf = vec![0u8; r.present[&k] + 16];
                    match rt.block_on(o.c.read(&k, 0, 0, &mut buf)) {
                        Err(StorageError::TruncatedRead(_)) => {
                            r.h.stats.add("dyn.truncated_read_observed", 1);
                            // the container reported the truncation and marks the span non-resident: that is the key's latest mark
                            r.res.insert(k, ResState { resident: false, last_mark: "truncated-read(mark_span_non_resident)" });
                            nontrivial = true;
                        }
                        Err(_) => r.h.stats.add("dyn.read_of_cut_object.other_error", 1),
                        Ok(_) => r.h.stats.add("dyn.read_of_cut_object.ok", 1),
                    }
                    // the status change is not a removal: the key stays in the map, the count stays
                    r.full_compare(&rt, &o, "after truncated read");
                } else {
                    r.h.stats.add("dyn.truncation_skipped", 1);
                    r.full_compare(&rt, &o, "after reopen");
                }
            }
        }
        if (opi + 1) % 20 == 0 {
            r.full_compare(&rt, &o, "every-20-operations");
        }
    }
    let _ = o.rc.flush();
    drop(o);
    let o = dc_open(&rt, &root)?;
    r.last_struct = "reopen";
    r.h.stats.add("dyn.ops.reopen", 1);
    if seen_remove {
        nontrivial = true;
    }
    r.full_compare(&rt, &o, "final after reopen");
    drop(o);
    r.h.stats.max("dyn.max_keys_in_model", r.present.len() as u64);
    if nontrivial {
        ctx.eval_nontrivial(r.h.hash);
    } else {
        ctx.eval();
    }
    r.h.stats.flush(ctx);
    Ok(())
}

// ===========================================================================
// A bucket whose sorted section ends exactly on a 64 KiB boundary.
//
// Documented .idx layout (docs/src/client/local-storage.md): a 0x28-byte header area, then the sorted records (18
// bytes each), then the update section, which starts at the next 64 KiB boundary. The first record count at which the
// sorted section ends exactly ON such a boundary is N0 = 25 484 ((0x28 + 18 * N0) % 65536 == 0; further ones every
// 32 768 records). Histories: N0-1, N0, N0+1 (and N0 + 32 768 - 1.. in thorough) records flushed into the sorted
// section of one bucket, a few more entries left pending in the update section, save, reopen: a persistent map shows
// every one of them.

fn run_index_boundary(ctx: &Ctx, kind: &'static str, idx: usize, rng: &mut Rng) -> Result<(), String> {
    let rt = tokio::runtime::Builder::new_current_thread().enable_all().build().map_err(|e| e.to_string())?;
    let td = mk_tempdir(idx).map_err(|e| format!("tempdir: {e}"))?;
    let dir = td.path().to_path_buf();
    let mut h = Hist { ctx, kind, idx, trace: Vec::new(), stats: Stats::default(), hash: mix64(0xc05b, idx as u64) };
    h.stats.add(&format!("histories.{kind}"), 1);
    let n0 = (1usize..).find(|n| (0x28 + 18 * n) % 65536 == 0).unwrap_or(25_484);
    let n = if idx < 12 { n0 - 1 + idx % 3 } else { n0 + 32_768 - 1 + idx % 3 };
    let via = ["save_all+load_all", "save_all+load_index", "flush_again+load_all", "save_all+load_all"][(idx / 3) % 4];
    let b = rng.below(16) as u8;
    let pending_n = 1 + rng.usize_below(4);
    h.log(format!("bucket={b} sorted_records={n} (boundary count {n0}) pending={pending_n} via={via}"));
    h.stats.add(&format!("index-boundary.sorted_records.{}", if n % 32_768 == n0 % 32_768 { "exactly-on-64KiB" } else if n % 32_768 < n0 % 32_768 { "one-below" } else { "one-above" }), 1);
    let mut im = IndexManager::new(&dir);
    let mut model: BTreeMap<[u8; 9], Loc> = BTreeMap::new();
    let mut fresh_key = |i: usize, rng: &mut Rng| {
        let mut k = [0u8; 9];
        k[..4].copy_from_slice(&(i as u32 + 1).to_be_bytes());
        k[4..8].copy_from_slice(&rng.array::<4>());
        force_bucket(&mut k, b, rng);
        k
    };
    for i in 0..n {
        let k = fresh_key(i, rng);
        let loc: Loc = ((i % 1024) as u16, (i as u32).wrapping_mul(4099) & 0x3FFF_FFFF, 1 + (i as u32 % 70_000));
        im.add_entry(&ekey_for(&k, rng), loc.0, loc.1, loc.2).map_err(|e| format!("add_entry #{i}: {e}"))?;
        model.insert(k, loc);
    }
    im.flush_updates_for_bucket(b).map_err(|e| format!("flush: {e}"))?;
    h.stats.add("index.ops.add_entry", n as u64);
    let mut pending: Vec<[u8; 9]> = Vec::new();
    for j in 0..pending_n {
        let k = fresh_key(n + j, rng);
        let loc: Loc = (7, 1000 + j as u32, 99);
        h.log(format!("add_entry (pending) {} {:?}", hex::encode(k), loc));
        im.add_entry(&ekey_for(&k, rng), loc.0, loc.1, loc.2).map_err(|e| format!("add_entry pending: {e}"))?;
        model.insert(k, loc);
        pending.push(k);
    }
    if via == "flush_again+load_all" {
        im.flush_updates_for_bucket(b).map_err(|e| format!("flush: {e}"))?;
    }
    im.save_all().map_err(|e| format!("save_all: {e}"))?;
    drop(im);
    let mut fresh = IndexManager::new(&dir);
    let res = if via == "save_all+load_index" {
        let mut files: Vec<(u8, std::path::PathBuf)> = Vec::new();
        if let Ok(rd) = std::fs::read_dir(&dir) {
            for e in rd.flatten() {
                let name = e.file_name().to_string_lossy().to_string();
                if name.len() == 14 && name.ends_with(".idx") {
                    if let Ok(bb) = u8::from_str_radix(&name[..2], 16) {
                        files.push((bb, e.path()));
                    }
                }
            }
        }
        files.into_iter().try_for_each(|(bb, p)| fresh.load_index(bb, &p))
    } else {
        rt.block_on(fresh.load_all())
    };
    if let Err(e) = res {
        h.violation("C05|reload|load-error|sorted-section-at-64KiB-boundary".to_string(), "a fresh IndexManager could not load the files written by save_all", json!({"error": e.to_string(), "sorted_records": n}));
        ctx.eval_nontrivial(h.hash);
        h.stats.flush(ctx);
        return Ok(());
    }
    let cond = if n % 32_768 == n0 % 32_768 { "sorted-section-ends-on-64KiB-boundary" } else { "sorted-section-next-to-64KiB-boundary" };
    let mut check = |h: &mut Hist<'_>, k: &[u8; 9], what: &str, rng: &mut Rng| {
        let want = model[k];
        match fresh.lookup(&ekey_for(k, rng)) {
            Some(g) if g.key == *k && (g.archive_id(), g.archive_offset(), g.size) == want => {}
            Some(g) => h.violation(format!("C05|lookup|stale-or-wrong-location|after-reload|{what}|{cond}"), "after save and reload a lookup returns another location than the one stored", json!({"key": hex::encode(k), "expected": want, "got": (g.archive_id(), g.archive_offset(), g.size)})),
            None => h.violation(format!("C05|lookup|present-key-missing|after-reload|{what}|{cond}"), "an entry that was added before save_all is gone after reload", json!({"key": hex::encode(k), "expected": want, "sorted_records": n})),
        }
    };
    for k in &pending {
        check(&mut h, k, "entry-pending-in-update-section", rng);
    }
    let keys: Vec<[u8; 9]> = model.keys().copied().collect();
    for _ in 0..300 {
        let k = *rng.pick(&keys);
        if !pending.contains(&k) {
            check(&mut h, &k, "entry-in-sorted-section", rng);
        }
    }
    for k in [keys[0], keys[keys.len() - 1], keys[keys.len() / 2]] {
        if !pending.contains(&k) {
            check(&mut h, &k, "entry-in-sorted-section", rng);
        }
    }
    let listed = fresh.iter_entries().count();
    if listed != model.len() {
        h.violation(format!("C05|iter_entries|count-differs-from-model|after-reload|{cond}"), "after save and reload the index enumerates another number of entries than were added", json!({"listed": listed, "model": model.len()}));
    }
    h.stats.add("index-boundary.lookups_after_reload", 303 + pending.len() as u64);
    ctx.eval_nontrivial(h.hash);
    h.stats.flush(ctx);
    Ok(())
}

// ===========================================================================

fn run_one(ctx: &Ctx, kind: &'static str, idx: usize) {
    let stream = 50_000 + (KINDS.iter().position(|k| *k == kind).unwrap_or(0) as u64) * 10_000_000 + idx as u64;
    let mut rng = ctx.rng(stream);
    LAST_PANIC.with(|p| *p.borrow_mut() = None);
    let res = std::panic::catch_unwind(std::panic::AssertUnwindSafe(|| match kind {
        "index-short" | "index-long" => run_index(ctx, kind, idx, &mut rng),
        "update-section" => run_update_section(ctx, kind, idx, &mut rng),
        "dynamic-container" => run_dyncontainer(ctx, kind, idx, &mut rng),
        "index-boundary" => run_index_boundary(ctx, kind, idx, &mut rng),
        _ => run_residency(ctx, kind, idx, &mut rng),
    }));
    match res {
        Ok(Ok(())) => {}
        Ok(Err(e)) => {
            ctx.obs("histories.setup_failed", 1);
            ctx.inconclusive(&format!("history set-up failed ({kind}): {e}"));
        }
        Err(p) => {
            let msg = p.downcast_ref::<&str>().map(|s| (*s).to_string()).or_else(|| p.downcast_ref::<String>().cloned()).unwrap_or_else(|| "non-string panic payload".to_string());
            let loc = LAST_PANIC.with(|l| l.borrow().clone());
            let (file, _) = loc.clone().unwrap_or_default();
            if file.contains("/crates/cascette-") {
                let base = file.rsplit("/crates/").next().unwrap_or(&file).to_string();
                ctx.violation(&format!("C05|panic|{base}"), "the index/residency code panicked during a valid history", json!({"kind": kind, "history": idx, "message": msg, "location": loc.map(|l| l.1)}));
            } else {
                ctx.inconclusive(&format!("harness panic in {kind} history {idx}: {msg} at {file}"));
            }
        }
    }
}

fn arg_value(args: &[String], name: &str) -> Option<String> {
    args.iter().position(|a| a == name).and_then(|i| args.get(i + 1).cloned())
}

fn redirect_stderr() {
    // IndexManager::load_index prints debug lines for bucket 0 on stderr
    let dir = std::env::var("CARGO_TARGET_DIR").unwrap_or_else(|_| "/tmp".to_string());
    if let Ok(f) = std::fs::File::create(format!("{dir}/c05-stderr.log")) {
        use std::os::fd::AsRawFd;
        #[allow(unsafe_code)]
        unsafe {
            libc::dup2(f.as_raw_fd(), 2);
        }
    }
}

fn kind_static(s: &str) -> Option<&'static str> {
    KINDS.iter().copied().find(|k| *k == s)
}

fn main() {
    let ctx = Ctx::init("C05", "exploration");
    ctx.set_rule("a case is one seeded history: IndexManager (20-400 operations, or 1300-2700 bucket-targeted operations filling the 1260-entry update section of one bucket; locations are fresh or recur: a key is added / updated at a location it had earlier, also after a flush and a remove or move) or ResidencyDb/ResidencyContainer (20-400 operations, or a populated database with a >10000-key delete batch); non-trivial = the history contains a flush or reload (save+load) after at least one successful remove/update (index) or non-resident mark/delete (residency); distinct by hash of the executed operation trace");
    ctx.assume("the harness map model (BTreeMap keyed by the 9-byte truncated key / the 16-byte residency key) is the specification of 'most recent insertion or update wins'");
    ctx.assume("a reload without a preceding save_all is judged only when every bucket is known to be on disk (saved, or flushed while it had pending updates); otherwise the history saves first");
    redirect_stderr();
    std::panic::set_hook(Box::new(|info| {
        let (file, loc) = info.location().map(|l| (l.file().to_string(), format!("{}:{}", l.file(), l.line()))).unwrap_or_default();
        LAST_PANIC.with(|p| *p.borrow_mut() = Some((file, loc)));
    }));

    // the generator inverts the bucket function: check the inversion against the code's own function
    {
        let mut rng = ctx.rng(3);
        for _ in 0..2000 {
            let b = rng.below(16) as u8;
            let mut k9: [u8; 9] = rng.array::<9>();
            force_bucket(&mut k9, b, &mut rng);
            let ek = ekey_for(&k9, &mut rng);
            if IndexManager::bucket_for_key(&ek) != b || bucket9(&k9) != b {
                ctx.inconclusive("harness bucket inversion disagrees with IndexManager::bucket_for_key: bucket-targeted histories would not fill one bucket");
                ctx.finish();
            }
        }
    }

    let args = ctx.args.clone();
    let mut only_kind: Option<&'static str> = arg_value(&args, "--only-kind").and_then(|s| kind_static(&s));
    let mut only_history: Option<usize> = arg_value(&args, "--only-history").and_then(|s| s.parse().ok());
    if let Some(d) = ctx.replay_detail() {
        only_kind = d.get("kind").and_then(Value::as_str).and_then(kind_static).or(only_kind);
        only_history = d.get("history").and_then(Value::as_u64).map(|x| x as usize).or(only_history);
    }
    let scale: usize = arg_value(&args, "--scale").and_then(|s| s.parse().ok()).unwrap_or(100);
    let threads: usize = arg_value(&args, "--threads").and_then(|s| s.parse().ok()).unwrap_or(16);
    let wall_cap = ctx.pick(75.0, 520.0) * Ctx::wall_scale();

    if let (Some(k), Some(i)) = (only_kind, only_history) {
        run_one(&ctx, k, i);
        ctx.nontrivial(1);
        ctx.nontrivial(2);
        ctx.set_extra("slice", json!({"only_kind": k, "only_history": i}));
        ctx.finish();
    }

    // budgets per kind (quick, thorough), longest first
    let budgets: [(&'static str, usize); 8] = [
        ("index-boundary", ctx.pick(6, 24)),
        ("index-long", ctx.pick(64, 600)),
        ("residency-batch", ctx.pick(12, 120)),
        ("index-short", ctx.pick(1500, 20_000)),
        ("residency-db", ctx.pick(500, 6000)),
        ("residency-container", ctx.pick(300, 4000)),
        ("update-section", ctx.pick(160, 2000)),
        ("dynamic-container", ctx.pick(240, 3000)),
    ];
    let mut work: Vec<(&'static str, usize)> = Vec::new();
    for (k, n) in budgets {
        if only_kind.is_some_and(|ok| ok != k) {
            continue;
        }
        let n = (n * scale / 100).max(1);
        for i in 0..n {
            work.push((k, i));
        }
    }
    let next = AtomicUsize::new(0);
    let stopped = AtomicUsize::new(0);
    std::thread::scope(|s| {
        for _ in 0..threads.max(1) {
            s.spawn(|| {
                loop {
                    let i = next.fetch_add(1, Ordering::Relaxed);
                    if i >= work.len() {
                        break;
                    }
                    if ctx.elapsed_s() > wall_cap {
                        stopped.fetch_add(1, Ordering::Relaxed);
                        break;
                    }
                    run_one(&ctx, work[i].0, work[i].1);
                }
            });
        }
    });
    if stopped.load(Ordering::Relaxed) > 0 {
        ctx.obs("stopped_by_wall_cap_threads", stopped.load(Ordering::Relaxed) as u64);
    }

    if only_kind.is_none() {
        let flushes_before_full = ctx.get_obs("index.long.max_successful_adds_into_one_bucket") >= (SECTION_CAP + 200) as u64 && ctx.get_obs("index.max_update_section_fill.long") < SECTION_CAP as u64;
        for k in [
            "index.ops.add_entry",
            "index.ops.update_entry",
            "index.ops.update_entry_status",
            "index.ops.remove_entry",
            "index.ops.flush_updates_for_bucket",
            "index.ops.flush_all_updates",
            "index.ops.save_all",
            "index.ops.reload",
            "index.ops.clear_bucket",
            "histories.index-long.reached_full_section",
            "index.ops_at_full_section.remove",
            "index.limits.archive_id_1023",
            "index.limits.offset_2^30-1",
            "residency.ops.mark_resident",
            "residency.ops.mark_non_resident",
            "residency.ops.mark_span_non_resident",
            "residency.ops.delete_keys",
            "residency.ops.delete_keys_batch(>10000)",
            "residency.ops.save",
            "residency.ops.load.save_first=true",
            // coverage-driven extension
            "index.ops.clear",
            "index.ops.reload_via_load_index",
            "residency.ops.container_trait_calls",
            "residency.container.query.agrees",
            "update_section.ops.append.true",
            "update_section.ops.append.false",
            "update_section.ops.round_trip",
            "update_section.histories.reached_full",
            "update_page.ops.push.false",
            "dyn.ops.write",
            "dyn.ops.remove",
            "dyn.ops.reopen",
            "dyn.ops.entry_count",
            "dyn.key_derivation.agrees",
            "dyn.truncated_read_observed",
            // locations that recur in the history of a key
            "index.location_recurs.current_location_again",
            "index.location_recurs.earlier_location_of_present_key",
            "index.location_recurs.earlier_location_of_removed_key",
        ] {
            // "a full update section" is a state of the implementation, not of the workload: when a history put far more
            // than 1260 entries into one bucket and the section was still never observed full, the implementation merges
            // earlier (which the statement allows: a flush is transparent) and the two floors about that state do not apply
            let about_full_section = matches!(k, "histories.index-long.reached_full_section" | "index.ops_at_full_section.remove");
            if ctx.get_obs(k) == 0 && !(about_full_section && flushes_before_full) {
                ctx.inconclusive(&format!("workload never exercised {k}"));
            }
        }
        if ctx.get_obs("index.max_update_section_fill.long") < SECTION_CAP as u64 {
            if flushes_before_full {
                ctx.obs("index.implementation_never_leaves_a_full_update_section(merges earlier)", 1);
            } else {
                ctx.inconclusive("no bucket-targeted history filled the 1260-entry update section");
            }
        }
    }
    ctx.set_extra("update_section_capacity_entries", json!(SECTION_CAP));
    ctx.finish();
}
