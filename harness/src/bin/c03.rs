//! C03 — content resolution finds exactly what was indexed.
//!
//! For every structure family (encoding table, CDN archive index, archive group, root manifest V1-V4, TVFS
//! manifest, ContentResolver chains) generated key sets are put through the real builders, serialised, parsed
//! back, and then
//!   level 1: a linear scan over the parsed entries must equal the `BTreeMap` model of what was inserted;
//!   level 2: every lookup flavour must agree with the model (= the scan) for every inserted key and for
//!            negative probes (key+-1 neighbours, truncated / extended keys, all-00 / all-FF, random), and batch
//!            lookups must equal the element-wise single lookups.
//! Coverage-driven extension: a share of the structures is then edited through the builders' editing operations
//! (`from_encoding_file` / `from_archive_index` / `from_root_file`, remove, replace, add, clear), rebuilt, written and
//! read through the alternative entry points (BLTE wrappers, `CascFormat`, `write_to`, root header variants, ...) and
//! verified with the same two levels against the edited model; `ContentResolver` is re-probed after `clear_caches`
//! and after loading edited manifests.
//! Builder refusals (`Err`) are counted, never flagged. Every case is derived from (family, index, seed) so
//! `--replay FILE` re-runs exactly the failing structure.

#[path = "c03/aidx.rs"]
mod aidx;
#[path = "c03/common.rs"]
mod common;
#[path = "c03/enc.rs"]
mod enc;
#[path = "c03/resolver.rs"]
mod resolver;
#[path = "c03/root.rs"]
mod root;
#[path = "c03/tvfs.rs"]
mod tvfs;

use common::{Case, Tally, family_static, install_panic_hook, take_panic, viol};
use serde_json::{Value, json};
use std::sync::atomic::{AtomicUsize, Ordering};
use vh::Ctx;

fn run_case(ctx: &Ctx, case: &Case, t: &mut Tally) {
    let r = std::panic::catch_unwind(std::panic::AssertUnwindSafe(|| match case.family {
        "encoding" => enc::run(ctx, case, t),
        "archive_index" => aidx::run_index(ctx, case, t),
        "archive_group" => aidx::run_group(ctx, case, t),
        "root" => root::run(ctx, case, t),
        "tvfs" => tvfs::run(ctx, case, t),
        "resolver" => resolver::run(ctx, case, t),
        _ => {}
    }));
    if r.is_err() {
        let site = take_panic();
        ctx.eval();
        viol(ctx, case, &format!("C03|{}|panic-on-builder-input|{site}", case.family), "builder / serialiser / parser / lookup panicked on a generated key set", json!({"panic": site}));
    }
}

fn main() {
    let ctx = Ctx::init("C03", "exploration");
    ctx.set_rule("a case is one structure (family, configuration, generated key set) built with the real builder, serialised, parsed and probed with every inserted key and negative probes through every lookup flavour; key-set sizes sit at every page/block capacity multiple -1/0/+1; non-trivial = at least 2 pages/blocks/root blocks, a boundary count, or (root) a total in 16..99; distinct by hash of (family, index, parameters). Every 2nd (TVFS, resolver) / 3rd (encoding, archive index, root) structure additionally goes through the editing operations of its builder (from_<parsed structure>, remove / replace / add / clear, builder-state queries vs the model), is rebuilt, written through an alternative entry-point pair (build_blte+parse_blte, CascFormat, ArchiveIndex::build / write_to, TvfsFile::build, load_from_blte, root header variants MFST / extended 20-28 bytes, rebuild_lookups) and probed again against the edited model (removed keys gone, replaced keys carry the new value); resolver chains are re-probed after clear_caches and after loading edited manifests into the same resolver");
    ctx.assume("the BTreeMap model records exactly what the harness passed to the builder APIs; value equality for 6-byte archive offsets is taken on the 48-bit number (archive_index<<32 | offset)");
    ctx.assume("root lookups return the first entry whose flags match: any inserted entry of the key that matches the query is accepted");
    install_panic_hook();

    if let Some(detail) = ctx.replay_detail() {
        let c = detail.get("case").cloned().unwrap_or(Value::Null);
        let fam = c.get("family").and_then(Value::as_str).and_then(family_static);
        if let Some(family) = fam {
            let case = Case::new(family, c.get("idx").and_then(Value::as_u64).unwrap_or(0), c.get("params").cloned().unwrap_or(Value::Null));
            let mut t = Tally::default();
            run_case(&ctx, &case, &mut t);
            // a second, different case so that the evidence floor does not mask the replay verdict
            ctx.nontrivial(1);
            ctx.nontrivial(2);
            t.flush(&ctx);
        } else {
            ctx.inconclusive("replay file has no case description");
        }
        ctx.finish();
    }

    let quick = ctx.quick();
    let mut cases: Vec<Case> = Vec::new();
    cases.extend(enc::cases(quick));
    cases.extend(aidx::index_cases(quick));
    cases.extend(aidx::group_cases(quick));
    cases.extend(root::cases(quick));
    cases.extend(tvfs::cases(quick));
    cases.extend(resolver::cases(quick));
    // biggest structures first so that the tail of the run is short
    cases.sort_by_key(|c| std::cmp::Reverse(c.u("n").max(c.u("total"))));
    let mut per_family = std::collections::BTreeMap::new();
    for c in &cases {
        *per_family.entry(c.family).or_insert(0u64) += 1;
    }
    ctx.set_extra("cases_per_family", json!(per_family));

    let next = AtomicUsize::new(0);
    std::thread::scope(|s| {
        for _ in 0..16 {
            let ctx = &ctx;
            let cases = &cases;
            let next = &next;
            std::thread::Builder::new()
                .stack_size(32 << 20)
                .spawn_scoped(s, move || {
                    let mut t = Tally::default();
                    loop {
                        let i = next.fetch_add(1, Ordering::Relaxed);
                        if i >= cases.len() {
                            break;
                        }
                        let t0 = std::time::Instant::now();
                        run_case(ctx, &cases[i], &mut t);
                        let ms = t0.elapsed().as_millis() as u64;
                        if ms > 5000 {
                            ctx.obs("cases_slower_than_5s", 1);
                            eprintln!("slow case {} ms: {}", ms, cases[i].to_json());
                        }
                        ctx.obs_max("slowest_case_ms", ms);
                        t.flush(ctx);
                    }
                })
                .expect("spawn worker");
        }
    });

    // the check is only meaningful if every family produced lookups
    for fam in ["encoding", "archive_index", "archive_group", "root", "tvfs", "resolver"] {
        if ctx.get_obs(&format!("{fam}.lookups")) == 0 && ctx.violation_signatures().iter().all(|s| !s.contains(&format!("|{fam}|"))) {
            ctx.inconclusive(&format!("family {fam} performed no lookups"));
        }
    }
    // coverage-driven extension: every editing / alternative-entry-point stage must have run and probed something
    for k in [
        "encoding.edit.structures",
        "encoding.edit.removed_key_probes",
        "encoding.after-edit+blte.lookups",
        "encoding.after-edit+CascFormat.lookups",
        "archive_index.edit.structures",
        "archive_index.after-edit+write_to.lookups",
        "archive_index.after-edit+ArchiveIndex::build.lookups",
        "archive_group.composite_offset_identities",
        "root.edit.structures",
        "root.edit.removed_id_probes",
        "root.header-variant.lookups",
        "root.CascFormat.lookups",
        "root.rebuild_lookups.lookups",
        "tvfs.load_from_blte.lookups",
        "tvfs.CascFormat.lookups",
        "tvfs.TvfsFile::build.lookups",
        "resolver.after-clear_caches.lookups",
        "resolver.after-reload.lookups",
        "resolver.ext.reload_removed_ids",
    ] {
        if ctx.get_obs(k) == 0 && ctx.violation_signatures().is_empty() {
            ctx.inconclusive(&format!("extension stage never ran: {k}"));
        }
    }
    ctx.finish();
}
