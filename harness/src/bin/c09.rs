//! C09 — cipher and hash primitives compute the specified functions.
//!
//! Oracle: independent reference implementations (vh::refimpl, anchored by
//! published vectors), identity (decrypt∘encrypt), piecewise == whole, and
//! accelerated helper == portable fallback for every CPU-feature subset the
//! host supports. A JSONL event log of (function, parameters, observed output)
//! is written for the Python re-check (`pyref/c09.py`).

use cascette_cache::simd::{CpuFeatures, SimdHashOperations, SimdMemoryOps};
use cascette_crypto::salsa20::{decrypt_salsa20, encrypt_salsa20};
use cascette_crypto::{Arc4Cipher, ContentKey, EncodingKey, Jenkins96, Salsa20Cipher, hashlittle, hashlittle2};
use serde_json::json;
use std::io::Write;
use std::sync::Mutex;
use vh::refimpl::{lookup3, rc4, salsa20 as rsalsa};
use vh::{Ctx, Rng, fnv64, hex_short, mix64};

struct Log {
    file: Option<std::io::BufWriter<std::fs::File>>,
    every: u64,
    n: u64,
    written: u64,
}

impl Log {
    fn emit(&mut self, v: serde_json::Value) {
        self.n += 1;
        if self.n % self.every != 0 {
            return;
        }
        if let Some(f) = self.file.as_mut() {
            let _ = writeln!(f, "{v}");
            self.written += 1;
        }
    }
}

fn key_population(rng: &mut Rng, extra: usize) -> Vec<[u8; 16]> {
    let mut keys: Vec<[u8; 16]> = vec![[0u8; 16], [0xff; 16]];
    let mut k = [0u8; 16];
    k[0] = 0x80;
    keys.push(k);
    let mut k = [0u8; 16];
    for (i, b) in k.iter_mut().enumerate() {
        *b = i as u8;
    }
    keys.push(k);
    for _ in 0..extra {
        keys.push(rng.array::<16>());
    }
    keys
}

fn main() {
    let ctx = Ctx::init("C09", "exploration");
    ctx.set_rule("every primitive call is compared with an independent reference implementation (or with the portable fallback for SIMD helpers); cases are (function, length, parameter-hash); non-trivial = message/buffer length >= 1; distinct by hash of (function, length, parameters)");
    ctx.assume("reference implementations in harness/src/refimpl are correct (anchored by ECRYPT Salsa20, RC4, lookup3 driver5 and RFC 1321 vectors checked at start-up)");
    if let Err(e) = vh::refimpl::self_test_all() {
        ctx.inconclusive(&format!("reference self-test failed: {e}"));
        ctx.finish();
    }
    // RFC 1321 vector for the md5 crate used as reference
    if hex::encode(md5::compute(b"message digest").0) != "f96b697d7cb7938d525a2f31aaf161d0" {
        ctx.inconclusive("md5 reference crate failed RFC 1321 vector");
        ctx.finish();
    }

    let tdir = std::env::var("CARGO_TARGET_DIR").unwrap_or_else(|_| "/verif/harness/target".to_string());
    let log_path_s = format!("{tdir}/c09-events.jsonl");
    let log_path = log_path_s.as_str();
    let _ = std::fs::create_dir_all(&tdir);
    let log = Mutex::new(Log {
        file: std::fs::File::create(log_path).ok().map(std::io::BufWriter::new),
        every: ctx.pick(97, 11),
        n: 0,
        written: 0,
    });

    // the statement quantifies over lengths 0..=1024; thorough goes beyond and uses more keys per length
    let max_len: usize = ctx.pick(1024, 2560);
    let extra_keys: usize = ctx.pick(8, 28);
    let threads = 16usize;

    std::thread::scope(|s| {
        for t in 0..threads {
            let ctx = &ctx;
            let log = &log;
            s.spawn(move || {
                let mut rng = ctx.rng(100 + t as u64);
                let keys = key_population(&mut ctx.rng(7), extra_keys);
                // lengths are sharded over threads
                for len in (0..=max_len).filter(|l| l % threads == t) {
                    salsa_len(ctx, log, &mut rng, &keys, len);
                    arc4_len(ctx, log, &mut rng, len);
                    jenkins_len(ctx, log, &mut rng, len);
                    md5_len(ctx, log, &mut rng, len);
                }
            });
        }
    });

    salsa_long_streams(&ctx, &log);
    salsa_counter_carry(&ctx);
    simd_helpers(&ctx);

    let written = {
        let mut g = log.lock().unwrap_or_else(std::sync::PoisonError::into_inner);
        if let Some(f) = g.file.as_mut() {
            let _ = f.flush();
        }
        g.file = None;
        g.written
    };
    ctx.obs("event_log_lines", written);
    python_crosscheck(&ctx, log_path, written);
    ctx.finish();
}

fn salsa_len(ctx: &Ctx, log: &Mutex<Log>, rng: &mut Rng, keys: &[[u8; 16]], len: usize) {
    let block_indices: [u32; 7] = [0, 1, 1 << 8, 1 << 16, 1 << 31, u32::MAX, rng.next_u32()];
    let msg = rng.bytes(len);
    for (ki, key) in keys.iter().enumerate() {
        let iv8: [u8; 8] = match ki {
            0 => [0; 8],
            1 => [0xff; 8],
            _ => rng.array::<8>(),
        };
        let bi = block_indices[ki % block_indices.len()];
        for iv in [&iv8[..4], &iv8[..]] {
            let Some(expect) = rsalsa::casc_crypt(key, iv, bi, &msg) else {
                continue;
            };
            let h = mix64(fnv64(b"salsa20"), mix64(len as u64, mix64(fnv64(key), mix64(fnv64(iv), u64::from(bi)))));
            if len >= 1 {
                ctx.eval_nontrivial(h);
            } else {
                ctx.eval();
            }
            ctx.obs("salsa20.compared", 1);
            match encrypt_salsa20(&msg, key, iv, bi as usize) {
                Ok(got) => {
                    if got != expect {
                        ctx.violation(
                            &format!("C09|salsa20|encrypt!=reference|iv_len={}", iv.len()),
                            "encrypt_salsa20 output differs from the DJB-specification reference",
                            json!({"fn":"encrypt_salsa20","key":hex::encode(key),"iv":hex::encode(iv),"block_index":bi,"len":len,"msg":hex_short(&msg,64),"got":hex_short(&got,64),"expect":hex_short(&expect,64)}),
                        );
                    }
                    log.lock().unwrap_or_else(std::sync::PoisonError::into_inner).emit(json!({"fn":"salsa20","key":hex::encode(key),"iv":hex::encode(iv),"block_index":bi,"msg":hex::encode(&msg),"out":hex::encode(&got)}));
                    // identity
                    match decrypt_salsa20(&got, key, iv, bi as usize) {
                        Ok(back) if back == msg => {}
                        _ => ctx.violation(
                            "C09|salsa20|decrypt(encrypt(x))!=x",
                            "Salsa20 round trip is not the identity",
                            json!({"key":hex::encode(key),"iv":hex::encode(iv),"block_index":bi,"len":len}),
                        ),
                    }
                }
                Err(e) => ctx.violation(
                    &format!("C09|salsa20|encrypt-error|iv_len={}", iv.len()),
                    "encrypt_salsa20 failed for a valid 4/8-byte IV",
                    json!({"err":e.to_string(),"len":len}),
                ),
            }
            // piecewise application == whole
            let splits: Vec<usize> = if len <= 200 {
                (0..=len).collect()
            } else {
                (0..6).map(|_| rng.urange(0, len)).collect()
            };
            // only for a subset of keys to bound the cost (every key still sees some splits)
            let stride = if len <= 200 { 1 + ki } else { 1 };
            for &sp in splits.iter().step_by(stride) {
                if let Ok(mut c) = Salsa20Cipher::new(key, iv, bi as usize) {
                    let mut buf = msg.clone();
                    let (a, b) = buf.split_at_mut(sp);
                    c.apply_keystream(a);
                    // optionally a third piece
                    if b.len() > 2 && sp % 3 == 0 {
                        let m = b.len() / 2;
                        let (b1, b2) = b.split_at_mut(m);
                        c.apply_keystream(b1);
                        c.apply_keystream(b2);
                    } else {
                        c.apply_keystream(b);
                    }
                    ctx.obs("salsa20.piecewise_compared", 1);
                    if buf != expect {
                        ctx.violation(
                            "C09|salsa20|piecewise!=whole",
                            "keystream applied in pieces differs from the reference stream",
                            json!({"key":hex::encode(key),"iv":hex::encode(iv),"block_index":bi,"len":len,"split":sp}),
                        );
                    }
                }
            }
        }
    }
    // IV sizes other than 4/8 must be refused, not panic
    if len < 20 && len != 4 && len != 8 {
        let iv = vec![0u8; len];
        let r = std::panic::catch_unwind(|| Salsa20Cipher::new(&[1u8; 16], &iv, 0).is_ok());
        match r {
            Ok(false) => ctx.obs("salsa20.bad_iv_refused", 1),
            Ok(true) => ctx.obs("salsa20.bad_iv_accepted", 1),
            Err(_) => ctx.violation("C09|salsa20|panic-on-iv-size", "Salsa20Cipher::new panicked on an IV length", json!({"iv_len":len})),
        }
    }
}

fn salsa_long_streams(ctx: &Ctx, log: &Mutex<Log>) {
    let mut rng = ctx.rng(31);
    let sizes: Vec<usize> = if ctx.quick() {
        vec![4096 + 17, 65536 + 1, 262_144 - 1]
    } else {
        vec![4096 + 17, 65536 + 1, 262_144 - 1, (1 << 20) + 63, (1 << 20) + 64, 3 << 20]
    };
    for n in sizes {
        let key = rng.array::<16>();
        let iv = rng.array::<8>();
        let bi = rng.next_u32();
        let msg = rng.bytes(n);
        let Some(expect) = rsalsa::casc_crypt(&key, &iv[..4], bi, &msg) else { continue };
        ctx.eval_nontrivial(mix64(fnv64(b"salsa20.long"), n as u64));
        // chunked application with random piece sizes
        if let Ok(mut c) = Salsa20Cipher::new(&key, &iv[..4], bi as usize) {
            let mut buf = msg.clone();
            let mut off = 0;
            while off < n {
                let step = rng.urange(1, 5000).min(n - off);
                c.apply_keystream(&mut buf[off..off + step]);
                off += step;
            }
            ctx.obs("salsa20.long_stream_bytes", n as u64);
            if buf != expect {
                let first = buf.iter().zip(&expect).position(|(a, b)| a != b);
                ctx.violation(
                    "C09|salsa20|long-stream!=reference",
                    "multi-block Salsa20 stream differs from the reference",
                    json!({"len":n,"first_diff":first}),
                );
            }
            log.lock().unwrap_or_else(std::sync::PoisonError::into_inner).emit(json!({"fn":"salsa20.md5","key":hex::encode(key),"iv":hex::encode(&iv[..4]),"block_index":bi,"msg_md5":hex::encode(md5::compute(&msg).0),"len":n,"out_md5":hex::encode(md5::compute(&buf).0), "seed_note":"long stream; python regenerates nothing, compares digests of zero-message stream below"}));
        }
    }
}

fn salsa_counter_carry(ctx: &Ctx) {
    // 64-bit block counter: blocks 2^32-2 .. 2^32+1 must continue into the high word.
    let mut rng = ctx.rng(32);
    for case in 0..4u64 {
        let key = rng.array::<16>();
        let iv = rng.array::<8>();
        let bi = rng.next_u32();
        let Some(nonce) = rsalsa::casc_nonce(&iv, bi) else { continue };
        let start_block: u64 = (1u64 << 32) - 2 + (case % 2);
        let n = 64 * 5 + 13;
        let mut expect = vec![0u8; n];
        rsalsa::xor_stream(&key, &nonce, start_block * 64, &mut expect);
        if let Ok(mut c) = Salsa20Cipher::new(&key, &iv, bi as usize) {
            c.verif_set_block_counter(start_block as u32, (start_block >> 32) as u32);
            let mut buf = vec![0u8; n];
            c.apply_keystream(&mut buf);
            ctx.eval_nontrivial(mix64(fnv64(b"salsa20.carry"), case));
            ctx.obs("salsa20.counter_carry_cases", 1);
            if buf != expect {
                let first = buf.iter().zip(&expect).position(|(a, b)| a != b);
                ctx.violation(
                    "C09|salsa20|counter-carry",
                    "keystream across the 2^32-block counter carry differs from the reference",
                    json!({"start_block":start_block,"first_diff":first}),
                );
            }
        }
    }
}

fn arc4_len(ctx: &Ctx, log: &Mutex<Log>, rng: &mut Rng, len: usize) {
    let msg = rng.bytes(len);
    let key_lens = [1usize, 5, 8, 16, 32, 255, 256, rng.urange(1, 256)];
    for kl in key_lens {
        let key = rng.bytes(kl);
        let Some(expect) = rc4::crypt(&key, &msg) else { continue };
        let h = mix64(fnv64(b"arc4"), mix64(len as u64, fnv64(&key)));
        if len >= 1 { ctx.eval_nontrivial(h) } else { ctx.eval() }
        ctx.obs("arc4.compared", 1);
        let Ok(mut c) = Arc4Cipher::new(&key) else {
            ctx.violation("C09|arc4|new-error", "Arc4Cipher::new refused a 1..=256 byte key", json!({"key_len":kl}));
            continue;
        };
        let got = c.encrypt(&msg);
        if got != expect {
            ctx.violation("C09|arc4|encrypt!=reference", "ARC4 output differs from RC4 reference", json!({"key":hex::encode(&key),"len":len,"got":hex_short(&got,64),"expect":hex_short(&expect,64)}));
        }
        log.lock().unwrap_or_else(std::sync::PoisonError::into_inner).emit(json!({"fn":"arc4","key":hex::encode(&key),"msg":hex::encode(&msg),"out":hex::encode(&got)}));
        if let Ok(mut d) = Arc4Cipher::new(&key) {
            if d.decrypt(&got) != msg {
                ctx.violation("C09|arc4|decrypt(encrypt(x))!=x", "ARC4 round trip is not the identity", json!({"key_len":kl,"len":len}));
            }
        }
        // piecewise
        if let Ok(mut p) = Arc4Cipher::new(&key) {
            let sp = if len == 0 { 0 } else { rng.urange(0, len) };
            let mut buf = msg.clone();
            let (a, b) = buf.split_at_mut(sp);
            p.apply_keystream(a);
            p.apply_keystream(b);
            if buf != expect {
                ctx.violation("C09|arc4|piecewise!=whole", "ARC4 keystream in pieces differs from whole", json!({"key_len":kl,"len":len,"split":sp}));
            }
        }
    }
    if len == 0 {
        for kl in [0usize, 257, 1000] {
            let r = std::panic::catch_unwind(|| Arc4Cipher::new(&vec![1u8; kl]).is_ok());
            if r.is_err() {
                ctx.violation("C09|arc4|panic-on-key-size", "Arc4Cipher::new panicked", json!({"key_len":kl}));
            }
        }
    }
}

fn jenkins_len(ctx: &Ctx, log: &Mutex<Log>, rng: &mut Rng, len: usize) {
    let seeds: [(u32, u32); 6] = [
        (0, 0),
        (0, 0xdead_beef),
        (0xdead_beef, 0xdead_beef),
        (u32::MAX, u32::MAX),
        (1, 0),
        (rng.next_u32(), rng.next_u32()),
    ];
    for variant in 0..3 {
        let data = match variant {
            0 => rng.bytes(len),
            1 => vec![0xffu8; len],
            _ => (0..len).map(|i| i as u8).collect(),
        };
        for (pc0, pb0) in seeds {
            let (ec, eb) = lookup3::hashlittle2(&data, pc0, pb0);
            let h = mix64(fnv64(b"lookup3"), mix64(len as u64, mix64(fnv64(&data), (u64::from(pc0) << 32) | u64::from(pb0))));
            if len >= 1 { ctx.eval_nontrivial(h) } else { ctx.eval() }
            ctx.obs("lookup3.compared", 1);
            let (mut pc, mut pb) = (pc0, pb0);
            hashlittle2(&data, &mut pc, &mut pb);
            if (pc, pb) != (ec, eb) {
                ctx.violation(
                    &format!("C09|hashlittle2|!=reference|tail={}", len % 12),
                    "hashlittle2 differs from lookup3.c reference",
                    json!({"len":len,"data":hex_short(&data,64),"pc":pc0,"pb":pb0,"got":[pc,pb],"expect":[ec,eb]}),
                );
            }
            let one = hashlittle(&data, pc0);
            let e1 = lookup3::hashlittle(&data, pc0);
            if one != e1 {
                ctx.violation(
                    &format!("C09|hashlittle|!=reference|tail={}", len % 12),
                    "hashlittle differs from lookup3.c reference",
                    json!({"len":len,"data":hex_short(&data,64),"initval":pc0,"got":one,"expect":e1}),
                );
            }
            log.lock().unwrap_or_else(std::sync::PoisonError::into_inner).emit(json!({"fn":"lookup3","data":hex::encode(&data),"pc":pc0,"pb":pb0,"out_c":pc,"out_b":pb,"hashlittle":one}));
        }
        let j = Jenkins96::hash(&data);
        let (ec, eb) = lookup3::hashlittle2(&data, 0, 0);
        let e64 = (u64::from(ec) << 32) | u64::from(eb);
        if j.hash64 != e64 || j.hash32 != ec {
            ctx.violation("C09|Jenkins96::hash|!=reference", "Jenkins96::hash differs from hashlittle2(data,0,0)", json!({"len":len,"got":[j.hash64, j.hash32],"expect":[e64, ec]}));
        }
    }
}

fn md5_len(ctx: &Ctx, log: &Mutex<Log>, rng: &mut Rng, len: usize) {
    let data = rng.bytes(len);
    let expect = md5::compute(&data).0;
    let h = mix64(fnv64(b"md5"), mix64(len as u64, fnv64(&data)));
    if len >= 1 { ctx.eval_nontrivial(h) } else { ctx.eval() }
    ctx.obs("md5keys.compared", 1);
    let ck = ContentKey::from_data(&data);
    let ek = EncodingKey::from_data(&data);
    if ck.as_bytes() != &expect {
        ctx.violation("C09|ContentKey::from_data|!=md5", "ContentKey::from_data is not MD5(data)", json!({"len":len}));
    }
    if ek.as_bytes() != &expect {
        ctx.violation("C09|EncodingKey::from_data|!=md5", "EncodingKey::from_data is not MD5(data)", json!({"len":len}));
    }
    if ek.first_9() != expect[..9] {
        ctx.violation("C09|EncodingKey::first_9", "first_9 is not the first nine bytes", json!({"len":len}));
    }
    log.lock().unwrap_or_else(std::sync::PoisonError::into_inner).emit(json!({"fn":"md5","data":hex::encode(&data),"out":hex::encode(ck.as_bytes())}));
}

fn host_feature_subsets() -> Vec<CpuFeatures> {
    let host = CpuFeatures {
        sse2: std::is_x86_feature_detected!("sse2"),
        sse4_1: std::is_x86_feature_detected!("sse4.1"),
        avx2: std::is_x86_feature_detected!("avx2"),
        avx512: std::is_x86_feature_detected!("avx512f"),
    };
    let mut v = Vec::new();
    for mask in 0u8..16 {
        let f = CpuFeatures {
            sse2: mask & 1 != 0,
            sse4_1: mask & 2 != 0,
            avx2: mask & 4 != 0,
            avx512: mask & 8 != 0,
        };
        if (f.sse2 && !host.sse2) || (f.sse4_1 && !host.sse4_1) || (f.avx2 && !host.avx2) || (f.avx512 && !host.avx512) {
            continue;
        }
        v.push(f);
    }
    v
}

fn feat_name(f: &CpuFeatures) -> String {
    format!("sse2={},sse41={},avx2={},avx512={}", u8::from(f.sse2), u8::from(f.sse4_1), u8::from(f.avx2), u8::from(f.avx512))
}

fn simd_helpers(ctx: &Ctx) {
    let subsets = host_feature_subsets();
    ctx.obs("simd.feature_subsets", subsets.len() as u64);
    let none = CpuFeatures::none();
    let max_len = ctx.pick(200usize, 420usize);
    std::thread::scope(|s| {
        for (si, feat) in subsets.iter().enumerate() {
            let ctx = ctx;
            let feat = *feat;
            s.spawn(move || {
                let mut rng = ctx.rng(500 + si as u64);
                let fname = feat_name(&feat);
                // --- memcmp / mem_equal: all lengths, first difference at every position (+ equal, + length mismatch)
                for len in 0..=max_len {
                    let a = rng.bytes(len);
                    let mut cases: Vec<(Vec<u8>, Vec<u8>)> = vec![(a.clone(), a.clone())];
                    for pos in 0..len {
                        let mut b = a.clone();
                        b[pos] = b[pos].wrapping_add(if rng.bool() { 1 } else { 0x80 });
                        if rng.bool() {
                            // later bytes differ too, in the opposite direction
                            for x in b.iter_mut().skip(pos + 1) {
                                *x = !*x;
                            }
                        }
                        cases.push((a.clone(), b));
                    }
                    // different lengths, common prefix
                    if len > 0 {
                        cases.push((a.clone(), a[..len - 1].to_vec()));
                        cases.push((a[..len / 2].to_vec(), a.clone()));
                    }
                    for (x, y) in &cases {
                        let h = mix64(fnv64(b"memcmp"), mix64(fnv64(fname.as_bytes()), mix64(fnv64(x), fnv64(y))));
                        if len >= 1 { ctx.eval_nontrivial(h) } else { ctx.eval() }
                        let got = feat.vectorized_memcmp(x, y);
                        let fb = none.vectorized_memcmp(x, y);
                        if got != fb {
                            ctx.violation(
                                &format!("C09|simd|vectorized_memcmp|accel!=fallback|{fname}"),
                                "vectorized_memcmp differs between accelerated path and portable fallback",
                                json!({"features":fname,"a":hex::encode(x),"b":hex::encode(y),"accel":format!("{got:?}"),"fallback":format!("{fb:?}")}),
                            );
                        }
                        if fb != x.as_slice().cmp(y.as_slice()) {
                            ctx.obs("simd.fallback_memcmp_differs_from_slice_cmp", 1);
                        }
                        let got2 = feat.simd_memcmp(x, y);
                        let fb2 = none.simd_memcmp(x, y);
                        if got2 != fb2 {
                            ctx.violation(
                                &format!("C09|simd|simd_memcmp|accel!=fallback|{fname}"),
                                "simd_memcmp differs between accelerated path and portable fallback",
                                json!({"features":fname,"a":hex::encode(x),"b":hex::encode(y)}),
                            );
                        }
                    }
                    ctx.obs("simd.memcmp_cases", cases.len() as u64);
                    let pairs: Vec<(&[u8], &[u8])> = cases.iter().map(|(x, y)| (x.as_slice(), y.as_slice())).collect();
                    let got = feat.batch_mem_equal(&pairs);
                    let fb = none.batch_mem_equal(&pairs);
                    if got != fb {
                        let idx = got.iter().zip(&fb).position(|(a, b)| a != b);
                        ctx.violation(
                            &format!("C09|simd|batch_mem_equal|accel!=fallback|{fname}"),
                            "batch_mem_equal differs between accelerated path and portable fallback",
                            json!({"features":fname,"len":len,"pair_index":idx,"pair":idx.map(|i| (hex::encode(pairs[i].0), hex::encode(pairs[i].1)))}),
                        );
                    }
                    // memset / memcpy
                    let val = rng.next_u32() as u8;
                    let mut d1 = rng.bytes(len);
                    let mut d2 = d1.clone();
                    feat.simd_memset(&mut d1, val);
                    none.simd_memset(&mut d2, val);
                    if d1 != d2 || d1.iter().any(|&b| b != val) {
                        ctx.violation(
                            &format!("C09|simd|simd_memset|accel!=fallback|{fname}"),
                            "simd_memset result differs from fallback / fill value",
                            json!({"features":fname,"len":len}),
                        );
                    }
                    let src = rng.bytes(len);
                    for dlen in [len, len + 7, len.saturating_sub(3)] {
                        let mut c1 = vec![0xAAu8; dlen];
                        let mut c2 = vec![0xAAu8; dlen];
                        feat.simd_memcpy(&mut c1, &src);
                        none.simd_memcpy(&mut c2, &src);
                        if c1 != c2 {
                            ctx.violation(
                                &format!("C09|simd|simd_memcpy|accel!=fallback|{fname}"),
                                "simd_memcpy result differs from fallback",
                                json!({"features":fname,"src_len":len,"dest_len":dlen}),
                            );
                        }
                    }
                    ctx.obs("simd.memset_memcpy_lengths", 1);
                }
                // --- memmem: haystacks <= 96 with every needle length/position; random bigger ones
                let alphabet: &[u8] = b"ab";
                for hlen in 0..=96usize {
                    // low-entropy haystack so that partial matches are frequent
                    let hay: Vec<u8> = (0..hlen).map(|_| *rng.pick(alphabet)).collect();
                    let mut needles: Vec<Vec<u8>> = vec![Vec::new()];
                    let step = if ctx.quick() { 3 } else { 1 };
                    for nlen in 1..=hlen.min(40) {
                        for pos in (0..=(hlen - nlen)).step_by(step) {
                            needles.push(hay[pos..pos + nlen].to_vec());
                        }
                        // absent needle of this length
                        let mut n: Vec<u8> = (0..nlen).map(|_| *rng.pick(alphabet)).collect();
                        n[nlen - 1] = b'c';
                        needles.push(n);
                    }
                    needles.push(vec![b'a'; hlen + 1]);
                    for n in &needles {
                        let h = mix64(fnv64(b"memmem"), mix64(fnv64(fname.as_bytes()), mix64(fnv64(&hay), fnv64(n))));
                        if !n.is_empty() { ctx.eval_nontrivial(h) } else { ctx.eval() }
                        let got = feat.vectorized_memmem(&hay, n);
                        let fb = none.vectorized_memmem(&hay, n);
                        if got != fb {
                            ctx.violation(
                                &format!("C09|simd|vectorized_memmem|accel!=fallback|{fname}"),
                                "vectorized_memmem differs between accelerated path and portable fallback",
                                json!({"features":fname,"haystack":String::from_utf8_lossy(&hay),"needle":String::from_utf8_lossy(n),"accel":got,"fallback":fb}),
                            );
                        }
                        let truth = if n.is_empty() { fb } else { hay.windows(n.len()).position(|w| w == n.as_slice()) };
                        if fb != truth {
                            ctx.obs("simd.fallback_memmem_differs_from_naive", 1);
                        }
                        let g2 = feat.simd_search(&hay, n);
                        let f2 = none.simd_search(&hay, n);
                        if g2 != f2 {
                            ctx.violation(
                                &format!("C09|simd|simd_search|accel!=fallback|{fname}"),
                                "simd_search differs between accelerated path and portable fallback",
                                json!({"features":fname,"haystack":String::from_utf8_lossy(&hay),"needle":String::from_utf8_lossy(n),"accel":g2,"fallback":f2}),
                            );
                        }
                    }
                    ctx.obs("simd.memmem_cases", needles.len() as u64);
                }
                for _ in 0..ctx.pick(300, 5000) {
                    let hlen = rng.urange(97, 600);
                    let hay: Vec<u8> = (0..hlen).map(|_| *rng.pick(b"abc")).collect();
                    let nlen = rng.urange(1, 70);
                    let n: Vec<u8> = if rng.bool() && nlen <= hlen {
                        let p = rng.urange(0, hlen - nlen);
                        hay[p..p + nlen].to_vec()
                    } else {
                        (0..nlen).map(|_| *rng.pick(b"abc")).collect()
                    };
                    ctx.eval_nontrivial(mix64(fnv64(b"memmem.big"), mix64(fnv64(fname.as_bytes()), mix64(fnv64(&hay), fnv64(&n)))));
                    let got = feat.vectorized_memmem(&hay, &n);
                    let fb = none.vectorized_memmem(&hay, &n);
                    if got != fb {
                        ctx.violation(
                            &format!("C09|simd|vectorized_memmem|accel!=fallback|{fname}"),
                            "vectorized_memmem differs between accelerated path and portable fallback",
                            json!({"features":fname,"haystack":String::from_utf8_lossy(&hay),"needle":String::from_utf8_lossy(&n),"accel":got,"fallback":fb}),
                        );
                    }
                }
                // --- batch hashes: batches of 0..=9 buffers of assorted lengths
                for batch in 0..=9usize {
                    for round in 0..ctx.pick(6, 40) {
                        let bufs: Vec<Vec<u8>> = (0..batch).map(|i| { let n = (i * 37 + round * 13 + rng.urange(0, 80)) % 300; rng.bytes(n) }).collect();
                        let refs: Vec<&[u8]> = bufs.iter().map(Vec::as_slice).collect();
                        ctx.eval_nontrivial(mix64(fnv64(b"batch"), mix64(fnv64(fname.as_bytes()), mix64(batch as u64, round as u64))));
                        let got = feat.batch_content_keys(&refs);
                        let fb = none.batch_content_keys(&refs);
                        let truth: Vec<[u8; 16]> = bufs.iter().map(|b| md5::compute(b).0).collect();
                        if got != fb || got.iter().map(|k| *k.as_bytes()).collect::<Vec<_>>() != truth {
                            ctx.violation(
                                &format!("C09|simd|batch_content_keys|accel!=fallback|{fname}"),
                                "batch_content_keys differs from fallback / MD5",
                                json!({"features":fname,"batch":batch,"lens":bufs.iter().map(Vec::len).collect::<Vec<_>>()}),
                            );
                        }
                        let got = feat.batch_jenkins96_data(&refs);
                        let fb = none.batch_jenkins96_data(&refs);
                        let truth: Vec<(u64, u32)> = bufs.iter().map(|b| { let (c, bb) = lookup3::hashlittle2(b, 0, 0); ((u64::from(c) << 32) | u64::from(bb), c) }).collect();
                        if got != fb {
                            ctx.violation(
                                &format!("C09|simd|batch_jenkins96_data|accel!=fallback|{fname}"),
                                "batch_jenkins96_data differs from fallback",
                                json!({"features":fname,"batch":batch,"lens":bufs.iter().map(Vec::len).collect::<Vec<_>>()}),
                            );
                        }
                        if fb.iter().map(|j| (j.hash64, j.hash32)).collect::<Vec<_>>() != truth {
                            ctx.obs("simd.fallback_batch_jenkins96_data_differs_from_Jenkins96_reference", 1);
                        }
                        let strs: Vec<String> = bufs.iter().map(|b| b.iter().map(|x| char::from(b'A' + (x % 50))).collect()).collect();
                        let srefs: Vec<&str> = strs.iter().map(String::as_str).collect();
                        let got = feat.batch_jenkins96_paths(&srefs);
                        let fb = none.batch_jenkins96_paths(&srefs);
                        if got != fb {
                            ctx.violation(
                                &format!("C09|simd|batch_jenkins96_paths|accel!=fallback|{fname}"),
                                "batch_jenkins96_paths differs from fallback",
                                json!({"features":fname,"batch":batch,"paths":strs}),
                            );
                        }
                        ctx.obs("simd.batch_hash_cases", 3);
                    }
                }
            });
        }
    });
    if ctx.want_sample() {
        ctx.sample(json!({"kind":"simd feature subsets exercised","subsets":subsets.iter().map(feat_name).collect::<Vec<_>>()}));
    }
    let mut rng = ctx.rng(9);
    let key = rng.array::<16>();
    let iv = rng.array::<4>();
    let msg = rng.bytes(70);
    ctx.sample(json!({"kind":"salsa20 case","key":hex::encode(key),"iv":hex::encode(iv),"block_index":3,"msg":hex::encode(&msg),"out":encrypt_salsa20(&msg,&key,&iv,3).map(hex::encode).unwrap_or_default()}));
    ctx.sample(json!({"kind":"lookup3 case","data":"Four score and seven years ago","hashlittle(.,1)":format!("{:#x}", hashlittle(b"Four score and seven years ago", 1))}));
}

fn python_crosscheck(ctx: &Ctx, log_path: &str, written: u64) {
    if written == 0 {
        ctx.inconclusive("event log empty: nothing for the Python cross-check");
        return;
    }
    let out = std::process::Command::new("python3").arg("/verif/pyref/c09.py").arg(log_path).output();
    match out {
        Ok(o) => {
            let text = String::from_utf8_lossy(&o.stdout).to_string();
            let mut checked = 0u64;
            for line in text.lines() {
                if let Some(rest) = line.strip_prefix("CHECKED ") {
                    checked = rest.trim().parse().unwrap_or(0);
                }
                if let Some(rest) = line.strip_prefix("MISMATCH ") {
                    let func = rest.split_whitespace().next().unwrap_or("?");
                    ctx.violation(
                        &format!("C09|{func}|python-reference-mismatch"),
                        "independent Python implementation disagrees with the observed output in the event log",
                        json!({"line":rest}),
                    );
                }
            }
            ctx.obs("python_crosscheck.events_checked", checked);
            if !o.status.success() && !text.contains("MISMATCH") {
                ctx.inconclusive(&format!("python cross-check failed to run: {}", String::from_utf8_lossy(&o.stderr).lines().last().unwrap_or("")));
            } else if checked == 0 {
                ctx.inconclusive("python cross-check checked 0 events");
            }
        }
        Err(e) => ctx.inconclusive(&format!("python3 not runnable: {e}")),
    }
}
