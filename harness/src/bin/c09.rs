//! C09 — cipher and hash primitives compute the specified functions.
//!
//! Oracle: independent reference implementations (vh::refimpl, anchored by
//! published vectors), identity (decrypt∘encrypt), piecewise == whole, and
//! accelerated helper == portable fallback for every CPU-feature subset the
//! host supports. A JSONL event log of (function, parameters, observed output)
//! is written for the Python re-check (`pyref/c09.py`).
//!
//! Users of the hashes inside on-disk structures (LocalHeader checksums,
//! UpdateEntry hash guards, guarded blocks of saved `.idx` files) are compared
//! with byte layouts the harness writes itself using the reference lookup3; the
//! alternative key constructors / printers must agree with MD5 / lookup3 of the
//! data; `detect_cpu_features()` must report the host's feature bits.

use cascette_cache::simd::{CpuFeatures, SimdHashOperations, SimdMemoryOps, detect_cpu_features};
use cascette_client_storage::index::update::{UpdateEntry, UpdateStatus};
use cascette_client_storage::index::{ArchiveLocation, IndexManager};
use cascette_client_storage::storage::local_header::{LOCAL_HEADER_SIZE, LocalHeader};
use cascette_crypto::salsa20::{decrypt_salsa20, encrypt_salsa20};
use cascette_crypto::{Arc4Cipher, ContentKey, EncodingKey, Jenkins96, Salsa20Cipher, hashlittle, hashlittle2};
use serde_json::json;
use std::io::Write;
use std::sync::Mutex;
use vh::refimpl::{lookup3, rc4, salsa20 as rsalsa};
use vh::{Ctx, Rng, fnv64, hex_short, mix64};

struct Log {
    file: Option<std::io::BufWriter<std::fs::File>>,
    every: u64,
    n: u64,
    written: u64,
}

impl Log {
    fn emit(&mut self, v: serde_json::Value) {
        self.n += 1;
        if self.n % self.every != 0 {
            return;
        }
        if let Some(f) = self.file.as_mut() {
            let _ = writeln!(f, "{v}");
            self.written += 1;
        }
    }
}

fn key_population(rng: &mut Rng, extra: usize) -> Vec<[u8; 16]> {
    let mut keys: Vec<[u8; 16]> = vec![[0u8; 16], [0xff; 16]];
    let mut k = [0u8; 16];
    k[0] = 0x80;
    keys.push(k);
    let mut k = [0u8; 16];
    for (i, b) in k.iter_mut().enumerate() {
        *b = i as u8;
    }
    keys.push(k);
    for _ in 0..extra {
        keys.push(rng.array::<16>());
    }
    keys
}

fn main() {
    let ctx = Ctx::init("C09", "exploration");
    ctx.set_rule("every primitive call is compared with an independent reference implementation (or with the portable fallback for SIMD helpers); the hash users in on-disk structures (LocalHeader, UpdateEntry, .idx guarded blocks) are compared with byte layouts the harness writes itself with the reference lookup3; cases are (function, length, parameter-hash); non-trivial = message/buffer length >= 1; distinct by hash of (function, length, parameters)");
    ctx.assume("reference implementations in harness/src/refimpl are correct (anchored by ECRYPT Salsa20, RC4, lookup3 driver5 and RFC 1321 vectors checked at start-up)");
    if let Err(e) = vh::refimpl::self_test_all() {
        ctx.inconclusive(&format!("reference self-test failed: {e}"));
        ctx.finish();
    }
    // RFC 1321 vector for the md5 crate used as reference
    if hex::encode(md5::compute(b"message digest").0) != "f96b697d7cb7938d525a2f31aaf161d0" {
        ctx.inconclusive("md5 reference crate failed RFC 1321 vector");
        ctx.finish();
    }

    let tdir = std::env::var("CARGO_TARGET_DIR").unwrap_or_else(|_| "/verif/harness/target".to_string());
    let log_path_s = format!("{tdir}/c09-events.jsonl");
    let log_path = log_path_s.as_str();
    let _ = std::fs::create_dir_all(&tdir);
    let log = Mutex::new(Log {
        file: std::fs::File::create(log_path).ok().map(std::io::BufWriter::new),
        every: ctx.pick(97, 11),
        n: 0,
        written: 0,
    });

    // the statement quantifies over lengths 0..=1024; thorough goes beyond and uses more keys per length
    let max_len: usize = ctx.pick(1024, 2560);
    let extra_keys: usize = ctx.pick(8, 28);
    let threads = 16usize;

    std::thread::scope(|s| {
        for t in 0..threads {
            let ctx = &ctx;
            let log = &log;
            s.spawn(move || {
                let mut rng = ctx.rng(100 + t as u64);
                let keys = key_population(&mut ctx.rng(7), extra_keys);
                // lengths are sharded over threads
                for len in (0..=max_len).filter(|l| l % threads == t) {
                    salsa_len(ctx, log, &mut rng, &keys, len);
                    arc4_len(ctx, log, &mut rng, len);
                    jenkins_len(ctx, log, &mut rng, len);
                    md5_len(ctx, log, &mut rng, len);
                }
            });
        }
    });

    salsa_long_streams(&ctx, &log);
    salsa_counter_carry(&ctx);
    simd_helpers(&ctx);
    format_users(&ctx, &log);
    idx_guarded_blocks(&ctx);
    for (k, why) in [
        ("users.local_header.compared", "no LocalHeader checksum was compared with the reference"),
        ("users.update_entry.compared", "no UpdateEntry hash guard was compared with the reference"),
        ("users.idx.guarded_blocks_checked", "no guarded block of a saved .idx file was checked"),
        ("users.idx.update_entries_on_disk_checked", "no update-section entry of a saved .idx file was checked"),
        ("md5keys.alt_constructors_compared", "the alternative key constructors were not compared"),
        ("simd.detect_cpu_features_checked", "detect_cpu_features was not checked"),
    ] {
        if ctx.get_obs(k) == 0 {
            ctx.inconclusive(&format!("{why} (observation {k} = 0)"));
        }
    }

    let written = {
        let mut g = log.lock().unwrap_or_else(std::sync::PoisonError::into_inner);
        if let Some(f) = g.file.as_mut() {
            let _ = f.flush();
        }
        g.file = None;
        g.written
    };
    ctx.obs("event_log_lines", written);
    python_crosscheck(&ctx, log_path, written);
    ctx.finish();
}

fn salsa_len(ctx: &Ctx, log: &Mutex<Log>, rng: &mut Rng, keys: &[[u8; 16]], len: usize) {
    let block_indices: [u32; 7] = [0, 1, 1 << 8, 1 << 16, 1 << 31, u32::MAX, rng.next_u32()];
    let msg = rng.bytes(len);
    for (ki, key) in keys.iter().enumerate() {
        let iv8: [u8; 8] = match ki {
            0 => [0; 8],
            1 => [0xff; 8],
            _ => rng.array::<8>(),
        };
        let bi = block_indices[ki % block_indices.len()];
        for iv in [&iv8[..4], &iv8[..]] {
            let Some(expect) = rsalsa::casc_crypt(key, iv, bi, &msg) else {
                continue;
            };
            let h = mix64(fnv64(b"salsa20"), mix64(len as u64, mix64(fnv64(key), mix64(fnv64(iv), u64::from(bi)))));
            if len >= 1 {
                ctx.eval_nontrivial(h);
            } else {
                ctx.eval();
            }
            ctx.obs("salsa20.compared", 1);
            match encrypt_salsa20(&msg, key, iv, bi as usize) {
                Ok(got) => {
                    if got != expect {
                        ctx.violation(
                            &format!("C09|salsa20|encrypt!=reference|iv_len={}", iv.len()),
                            "encrypt_salsa20 output differs from the DJB-specification reference",
                            json!({"fn":"encrypt_salsa20","key":hex::encode(key),"iv":hex::encode(iv),"block_index":bi,"len":len,"msg":hex_short(&msg,64),"got":hex_short(&got,64),"expect":hex_short(&expect,64)}),
                        );
                    }
                    log.lock().unwrap_or_else(std::sync::PoisonError::into_inner).emit(json!({"fn":"salsa20","key":hex::encode(key),"iv":hex::encode(iv),"block_index":bi,"msg":hex::encode(&msg),"out":hex::encode(&got)}));
                    // identity
                    match decrypt_salsa20(&got, key, iv, bi as usize) {
                        Ok(back) if back == msg => {}
                        _ => ctx.violation(
                            "C09|salsa20|decrypt(encrypt(x))!=x",
                            "Salsa20 round trip is not the identity",
                            json!({"key":hex::encode(key),"iv":hex::encode(iv),"block_index":bi,"len":len}),
                        ),
                    }
                }
                Err(e) => ctx.violation(
                    &format!("C09|salsa20|encrypt-error|iv_len={}", iv.len()),
                    "encrypt_salsa20 failed for a valid 4/8-byte IV",
                    json!({"err":e.to_string(),"len":len}),
                ),
            }
            // piecewise application == whole
            let splits: Vec<usize> = if len <= 200 {
                (0..=len).collect()
            } else {
                (0..6).map(|_| rng.urange(0, len)).collect()
            };
            // only for a subset of keys to bound the cost (every key still sees some splits)
            let stride = if len <= 200 { 1 + ki } else { 1 };
            for &sp in splits.iter().step_by(stride) {
                if let Ok(mut c) = Salsa20Cipher::new(key, iv, bi as usize) {
                    let mut buf = msg.clone();
                    let (a, b) = buf.split_at_mut(sp);
                    c.apply_keystream(a);
                    // optionally a third piece
                    if b.len() > 2 && sp % 3 == 0 {
                        let m = b.len() / 2;
                        let (b1, b2) = b.split_at_mut(m);
                        c.apply_keystream(b1);
                        c.apply_keystream(b2);
                    } else {
                        c.apply_keystream(b);
                    }
                    ctx.obs("salsa20.piecewise_compared", 1);
                    if buf != expect {
                        ctx.violation(
                            "C09|salsa20|piecewise!=whole",
                            "keystream applied in pieces differs from the reference stream",
                            json!({"key":hex::encode(key),"iv":hex::encode(iv),"block_index":bi,"len":len,"split":sp}),
                        );
                    }
                }
            }
        }
    }
    // IV sizes other than 4/8 must be refused, not panic
    if len < 20 && len != 4 && len != 8 {
        let iv = vec![0u8; len];
        let r = std::panic::catch_unwind(|| Salsa20Cipher::new(&[1u8; 16], &iv, 0).is_ok());
        match r {
            Ok(false) => ctx.obs("salsa20.bad_iv_refused", 1),
            Ok(true) => ctx.obs("salsa20.bad_iv_accepted", 1),
            Err(_) => ctx.violation("C09|salsa20|panic-on-iv-size", "Salsa20Cipher::new panicked on an IV length", json!({"iv_len":len})),
        }
    }
}

fn salsa_long_streams(ctx: &Ctx, log: &Mutex<Log>) {
    let mut rng = ctx.rng(31);
    let sizes: Vec<usize> = if ctx.quick() {
        vec![4096 + 17, 65536 + 1, 262_144 - 1]
    } else {
        vec![4096 + 17, 65536 + 1, 262_144 - 1, (1 << 20) + 63, (1 << 20) + 64, 3 << 20]
    };
    for n in sizes {
        let key = rng.array::<16>();
        let iv = rng.array::<8>();
        let bi = rng.next_u32();
        let msg = rng.bytes(n);
        let Some(expect) = rsalsa::casc_crypt(&key, &iv[..4], bi, &msg) else { continue };
        ctx.eval_nontrivial(mix64(fnv64(b"salsa20.long"), n as u64));
        // chunked application with random piece sizes
        if let Ok(mut c) = Salsa20Cipher::new(&key, &iv[..4], bi as usize) {
            let mut buf = msg.clone();
            let mut off = 0;
            while off < n {
                let step = rng.urange(1, 5000).min(n - off);
                c.apply_keystream(&mut buf[off..off + step]);
                off += step;
            }
            ctx.obs("salsa20.long_stream_bytes", n as u64);
            if buf != expect {
                let first = buf.iter().zip(&expect).position(|(a, b)| a != b);
                ctx.violation(
                    "C09|salsa20|long-stream!=reference",
                    "multi-block Salsa20 stream differs from the reference",
                    json!({"len":n,"first_diff":first}),
                );
            }
            log.lock().unwrap_or_else(std::sync::PoisonError::into_inner).emit(json!({"fn":"salsa20.md5","key":hex::encode(key),"iv":hex::encode(&iv[..4]),"block_index":bi,"msg_md5":hex::encode(md5::compute(&msg).0),"len":n,"out_md5":hex::encode(md5::compute(&buf).0), "seed_note":"long stream; python regenerates nothing, compares digests of zero-message stream below"}));
        }
    }
}

fn salsa_counter_carry(ctx: &Ctx) {
    // 64-bit block counter: blocks 2^32-2 .. 2^32+1 must continue into the high word.
    let mut rng = ctx.rng(32);
    for case in 0..4u64 {
        let key = rng.array::<16>();
        let iv = rng.array::<8>();
        let bi = rng.next_u32();
        let Some(nonce) = rsalsa::casc_nonce(&iv, bi) else { continue };
        let start_block: u64 = (1u64 << 32) - 2 + (case % 2);
        let n = 64 * 5 + 13;
        let mut expect = vec![0u8; n];
        rsalsa::xor_stream(&key, &nonce, start_block * 64, &mut expect);
        if let Ok(mut c) = Salsa20Cipher::new(&key, &iv, bi as usize) {
            c.verif_set_block_counter(start_block as u32, (start_block >> 32) as u32);
            let mut buf = vec![0u8; n];
            c.apply_keystream(&mut buf);
            ctx.eval_nontrivial(mix64(fnv64(b"salsa20.carry"), case));
            ctx.obs("salsa20.counter_carry_cases", 1);
            if buf != expect {
                let first = buf.iter().zip(&expect).position(|(a, b)| a != b);
                ctx.violation(
                    "C09|salsa20|counter-carry",
                    "keystream across the 2^32-block counter carry differs from the reference",
                    json!({"start_block":start_block,"first_diff":first}),
                );
            }
        }
    }
}

fn arc4_len(ctx: &Ctx, log: &Mutex<Log>, rng: &mut Rng, len: usize) {
    let msg = rng.bytes(len);
    let key_lens = [1usize, 5, 8, 16, 32, 255, 256, rng.urange(1, 256)];
    for kl in key_lens {
        let key = rng.bytes(kl);
        let Some(expect) = rc4::crypt(&key, &msg) else { continue };
        let h = mix64(fnv64(b"arc4"), mix64(len as u64, fnv64(&key)));
        if len >= 1 { ctx.eval_nontrivial(h) } else { ctx.eval() }
        ctx.obs("arc4.compared", 1);
        let Ok(mut c) = Arc4Cipher::new(&key) else {
            ctx.violation("C09|arc4|new-error", "Arc4Cipher::new refused a 1..=256 byte key", json!({"key_len":kl}));
            continue;
        };
        let got = c.encrypt(&msg);
        if got != expect {
            ctx.violation("C09|arc4|encrypt!=reference", "ARC4 output differs from RC4 reference", json!({"key":hex::encode(&key),"len":len,"got":hex_short(&got,64),"expect":hex_short(&expect,64)}));
        }
        log.lock().unwrap_or_else(std::sync::PoisonError::into_inner).emit(json!({"fn":"arc4","key":hex::encode(&key),"msg":hex::encode(&msg),"out":hex::encode(&got)}));
        if let Ok(mut d) = Arc4Cipher::new(&key) {
            if d.decrypt(&got) != msg {
                ctx.violation("C09|arc4|decrypt(encrypt(x))!=x", "ARC4 round trip is not the identity", json!({"key_len":kl,"len":len}));
            }
        }
        // piecewise
        if let Ok(mut p) = Arc4Cipher::new(&key) {
            let sp = if len == 0 { 0 } else { rng.urange(0, len) };
            let mut buf = msg.clone();
            let (a, b) = buf.split_at_mut(sp);
            p.apply_keystream(a);
            p.apply_keystream(b);
            if buf != expect {
                ctx.violation("C09|arc4|piecewise!=whole", "ARC4 keystream in pieces differs from whole", json!({"key_len":kl,"len":len,"split":sp}));
            }
        }
    }
    if len == 0 {
        for kl in [0usize, 257, 1000] {
            let r = std::panic::catch_unwind(|| Arc4Cipher::new(&vec![1u8; kl]).is_ok());
            if r.is_err() {
                ctx.violation("C09|arc4|panic-on-key-size", "Arc4Cipher::new panicked", json!({"key_len":kl}));
            }
        }
    }
}

fn jenkins_len(ctx: &Ctx, log: &Mutex<Log>, rng: &mut Rng, len: usize) {
    let seeds: [(u32, u32); 6] = [
        (0, 0),
        (0, 0xdead_beef),
        (0xdead_beef, 0xdead_beef),
        (u32::MAX, u32::MAX),
        (1, 0),
        (rng.next_u32(), rng.next_u32()),
    ];
    for variant in 0..3 {
        let data = match variant {
            0 => rng.bytes(len),
            1 => vec![0xffu8; len],
            _ => (0..len).map(|i| i as u8).collect(),
        };
        for (pc0, pb0) in seeds {
            let (ec, eb) = lookup3::hashlittle2(&data, pc0, pb0);
            let h = mix64(fnv64(b"lookup3"), mix64(len as u64, mix64(fnv64(&data), (u64::from(pc0) << 32) | u64::from(pb0))));
            if len >= 1 { ctx.eval_nontrivial(h) } else { ctx.eval() }
            ctx.obs("lookup3.compared", 1);
            let (mut pc, mut pb) = (pc0, pb0);
            hashlittle2(&data, &mut pc, &mut pb);
            if (pc, pb) != (ec, eb) {
                ctx.violation(
                    &format!("C09|hashlittle2|!=reference|tail={}", len % 12),
                    "hashlittle2 differs from lookup3.c reference",
                    json!({"len":len,"data":hex_short(&data,64),"pc":pc0,"pb":pb0,"got":[pc,pb],"expect":[ec,eb]}),
                );
            }
            let one = hashlittle(&data, pc0);
            let e1 = lookup3::hashlittle(&data, pc0);
            if one != e1 {
                ctx.violation(
                    &format!("C09|hashlittle|!=reference|tail={}", len % 12),
                    "hashlittle differs from lookup3.c reference",
                    json!({"len":len,"data":hex_short(&data,64),"initval":pc0,"got":one,"expect":e1}),
                );
            }
            log.lock().unwrap_or_else(std::sync::PoisonError::into_inner).emit(json!({"fn":"lookup3","data":hex::encode(&data),"pc":pc0,"pb":pb0,"out_c":pc,"out_b":pb,"hashlittle":one}));
        }
        let j = Jenkins96::hash(&data);
        let (ec, eb) = lookup3::hashlittle2(&data, 0, 0);
        let e64 = (u64::from(ec) << 32) | u64::from(eb);
        if j.hash64 != e64 || j.hash32 != ec {
            ctx.violation("C09|Jenkins96::hash|!=reference", "Jenkins96::hash differs from hashlittle2(data,0,0)", json!({"len":len,"got":[j.hash64, j.hash32],"expect":[e64, ec]}));
        }
        // the other constructor and the printed form (16 + 8 lower-case hex digits) carry the same value
        let fp = Jenkins96::from_parts(e64, ec);
        if fp != j || fp.to_string() != format!("{e64:016x}:{ec:08x}") {
            ctx.violation("C09|Jenkins96::from_parts/Display|!=reference", "Jenkins96::from_parts(reference parts) differs from Jenkins96::hash(data) or prints differently", json!({"len":len,"from_parts":fp.to_string(),"hash":j.to_string()}));
        }
    }
}

fn md5_len(ctx: &Ctx, log: &Mutex<Log>, rng: &mut Rng, len: usize) {
    let data = rng.bytes(len);
    let expect = md5::compute(&data).0;
    let h = mix64(fnv64(b"md5"), mix64(len as u64, fnv64(&data)));
    if len >= 1 { ctx.eval_nontrivial(h) } else { ctx.eval() }
    ctx.obs("md5keys.compared", 1);
    let ck = ContentKey::from_data(&data);
    let ek = EncodingKey::from_data(&data);
    if ck.as_bytes() != &expect {
        ctx.violation("C09|ContentKey::from_data|!=md5", "ContentKey::from_data is not MD5(data)", json!({"len":len}));
    }
    if ek.as_bytes() != &expect {
        ctx.violation("C09|EncodingKey::from_data|!=md5", "EncodingKey::from_data is not MD5(data)", json!({"len":len}));
    }
    if ek.first_9() != expect[..9] {
        ctx.violation("C09|EncodingKey::first_9", "first_9 is not the first nine bytes", json!({"len":len}));
    }
    log.lock().unwrap_or_else(std::sync::PoisonError::into_inner).emit(json!({"fn":"md5","data":hex::encode(&data),"out":hex::encode(ck.as_bytes())}));
    // the other ways to obtain / print the same key must agree with MD5(data): from_bytes, from_hex (either case),
    // to_hex, Display — a key that prints or parses differently is a different key for every other implementation
    let hex_lower: String = expect.iter().map(|b| format!("{b:02x}")).collect();
    let hex_upper = hex_lower.to_uppercase();
    ctx.obs("md5keys.alt_constructors_compared", 1);
    let mut bad: Vec<&'static str> = Vec::new();
    if ContentKey::from_bytes(expect) != ck {
        bad.push("ContentKey::from_bytes(md5)!=from_data");
    }
    if EncodingKey::from_bytes(expect) != ek {
        bad.push("EncodingKey::from_bytes(md5)!=from_data");
    }
    for h in [&hex_lower, &hex_upper] {
        if !matches!(ContentKey::from_hex(h), Ok(k) if k == ck) {
            bad.push("ContentKey::from_hex(hex(md5))!=from_data");
        }
        if !matches!(EncodingKey::from_hex(h), Ok(k) if k == ek) {
            bad.push("EncodingKey::from_hex(hex(md5))!=from_data");
        }
    }
    if ck.to_hex() != hex_lower || ck.to_string() != hex_lower {
        bad.push("ContentKey::to_hex/Display!=lowercase-hex(md5)");
    }
    if ek.to_hex() != hex_lower || ek.to_string() != hex_lower {
        bad.push("EncodingKey::to_hex/Display!=lowercase-hex(md5)");
    }
    // not a key: wrong length / non-hex must be refused, not truncated or padded
    if len < 40 {
        let short = &hex_lower[..30];
        let long = format!("{hex_lower}00");
        let nonhex = format!("{}zz", &hex_lower[..30]);
        for h in [short, long.as_str(), nonhex.as_str()] {
            if ContentKey::from_hex(h).is_ok() || EncodingKey::from_hex(h).is_ok() {
                bad.push("from_hex-accepts-a-string-that-is-not-32-hex-digits");
            }
        }
    }
    bad.dedup();
    for rel in bad {
        ctx.violation(&format!("C09|md5-keys|{rel}"), "a key constructor / printer disagrees with MD5(data)", json!({"len":len,"md5":hex_lower}));
    }
}

/// Users of the hash primitives inside on-disk structures: the value stored must be the published function over the
/// documented byte range with the documented seed (module docs of local_header.rs / update.rs), computed here by the
/// reference lookup3 over bytes the harness lays out itself.
fn format_users(ctx: &Ctx, log: &Mutex<Log>) {
    let mut rng = ctx.rng(41);
    let n = ctx.pick(4_000u64, 60_000u64);
    // ---- LocalHeader: key reversed, size BE incl. header, flags, checksum_a = hashlittle(bytes[0..0x16], 0x3D6BE971),
    //      checksum_b = XOR of bytes[0..0x1A] into a 4-byte accumulator at index (base_offset + i) & 3
    for i in 0..n {
        let key: [u8; 16] = match i % 7 {
            0 => [0u8; 16],
            1 => [0xff; 16],
            _ => rng.array::<16>(),
        };
        let blte_size: u32 = match i % 5 {
            0 => 0,
            1 => rng.next_u32() % 4096,
            2 => u32::MAX - LOCAL_HEADER_SIZE as u32,
            _ => rng.next_u32() % (u32::MAX - 64),
        };
        let base_offset: usize = match i % 4 {
            0 => 0,
            1 => rng.urange(1, 3),
            2 => rng.urange(0, 1 << 20) * 30,
            _ => rng.urange(0, 1 << 30),
        };
        let mut model = [0u8; 30];
        for (d, s) in model[..16].iter_mut().zip(key.iter().rev()) {
            *d = *s;
        }
        model[16..20].copy_from_slice(&(blte_size + 30).to_be_bytes());
        let a = lookup3::hashlittle(&model[..0x16], 0x3D6B_E971);
        model[0x16..0x1A].copy_from_slice(&a.to_le_bytes());
        let mut acc = [0u8; 4];
        for (k, b) in model[..0x1A].iter().enumerate() {
            acc[(base_offset + k) & 3] ^= *b;
        }
        model[0x1A..0x1E].copy_from_slice(&acc);
        ctx.eval_nontrivial(mix64(fnv64(b"local_header"), mix64(fnv64(&key), mix64(u64::from(blte_size), base_offset as u64))));
        ctx.obs("users.local_header.compared", 1);
        let h = LocalHeader::new(key, blte_size, base_offset);
        let got = h.to_bytes();
        let detail = || json!({"key":hex::encode(key),"blte_size":blte_size,"base_offset":base_offset,"got":hex::encode(got),"expect":hex::encode(model)});
        if got[0x16..0x1A] != model[0x16..0x1A] {
            ctx.violation("C09|LocalHeader|checksum_a!=hashlittle(header[0..22],0x3D6BE971)", "LocalHeader::new stores a checksum_a that is not the seeded lookup3 hash of the first 22 header bytes", detail());
        } else if got[0x1A..] != model[0x1A..] {
            ctx.violation("C09|LocalHeader|checksum_b!=xor-accumulation(header[0..26])", "LocalHeader::new stores a checksum_b that is not the rotating XOR of the first 26 header bytes", detail());
        } else if got != model {
            ctx.violation("C09|LocalHeader|hashed-bytes-differ-from-documented-layout", "LocalHeader::new lays out key / size / flags differently from the documented 30-byte header (the checksums cover these bytes)", detail());
        }
        // the free-standing functions over arbitrary 30 bytes
        let raw: [u8; 30] = rng.array::<30>();
        if LocalHeader::compute_checksum_a(&raw) != lookup3::hashlittle(&raw[..0x16], 0x3D6B_E971) {
            ctx.violation("C09|LocalHeader::compute_checksum_a|!=reference", "compute_checksum_a differs from the seeded lookup3 hash", json!({"bytes":hex::encode(raw)}));
        }
        let mut acc = [0u8; 4];
        for (k, b) in raw[..0x1A].iter().enumerate() {
            acc[(base_offset + k) & 3] ^= *b;
        }
        if LocalHeader::compute_checksum_b(&raw, base_offset) != u32::from_le_bytes(acc) {
            ctx.violation("C09|LocalHeader::compute_checksum_b|!=reference", "compute_checksum_b differs from the documented XOR accumulation", json!({"bytes":hex::encode(raw),"base_offset":base_offset}));
        }
        // validate_checksums: accepts what `new` wrote (also after a to_bytes/from_bytes round trip), refuses a
        // header in which one covered bit changed
        let back = LocalHeader::from_bytes(&got);
        let accepts = h.validate_checksums(base_offset) && back.as_ref().is_some_and(|b| b.validate_checksums(base_offset) && b.to_bytes() == got);
        if !accepts {
            ctx.violation("C09|LocalHeader::validate_checksums|rejects-header-written-by-new", "validate_checksums (directly or after from_bytes(to_bytes)) rejects the header LocalHeader::new produced", detail());
        }
        if let Some(b) = &back {
            if b.original_encoding_key() != key || (blte_size <= u32::MAX - 30 && b.blte_size() != blte_size) {
                ctx.violation("C09|LocalHeader|from_bytes(to_bytes)-loses-key-or-size", "the key / size read back from the header bytes differ from what was written", detail());
            }
        }
        let bit = rng.urange(0, 0x1A * 8 - 1);
        let mut flipped = got;
        flipped[bit / 8] ^= 1 << (bit % 8);
        if LocalHeader::from_bytes(&flipped).is_some_and(|f| f.validate_checksums(base_offset)) {
            ctx.violation("C09|LocalHeader::validate_checksums|accepts-header-with-flipped-bit", "validate_checksums accepts a header in which one bit of the checksummed range was flipped", json!({"bit":bit,"header":hex::encode(flipped),"base_offset":base_offset}));
        }
        // the flip followed by a repair of only ONE checksum: "validates both checksums" means the other, stale one
        // still makes the header invalid (staleness decided by the model, so a chance collision is not misjudged)
        let xor_b = |h: &[u8; 30]| {
            let mut acc = [0u8; 4];
            for (k, b) in h[..0x1A].iter().enumerate() {
                acc[(base_offset + k) & 3] ^= *b;
            }
            acc
        };
        let mut only_a = flipped;
        let a2 = lookup3::hashlittle(&only_a[..0x16], 0x3D6B_E971);
        only_a[0x16..0x1A].copy_from_slice(&a2.to_le_bytes());
        let mut only_b = flipped;
        let b2 = xor_b(&only_b);
        only_b[0x1A..].copy_from_slice(&b2);
        for (which, h) in [("a-repaired,b-stale", only_a), ("b-repaired,a-stale", only_b)] {
            let a_ok = h[0x16..0x1A] == lookup3::hashlittle(&h[..0x16], 0x3D6B_E971).to_le_bytes();
            let b_ok = h[0x1A..] == xor_b(&h);
            if a_ok && b_ok {
                continue;
            }
            ctx.obs("users.local_header.one_stale_checksum_cases", 1);
            if LocalHeader::from_bytes(&h).is_some_and(|f| f.validate_checksums(base_offset)) {
                ctx.violation(
                    &format!("C09|LocalHeader::validate_checksums|accepts-header-with-one-stale-checksum|{which}"),
                    "validate_checksums accepts a header of which only one of the two checksums matches the contents",
                    json!({"header":hex::encode(h),"base_offset":base_offset,"checksum_a_matches":a_ok,"checksum_b_matches":b_ok}),
                );
            }
        }
        log.lock().unwrap_or_else(std::sync::PoisonError::into_inner).emit(json!({"fn":"lookup3","data":hex::encode(&got[..0x16]),"pc":0x3D6B_E971u32,"pb":0,"out_c":lookup3::hashlittle2(&got[..0x16], 0x3D6B_E971, 0).0,"out_b":lookup3::hashlittle2(&got[..0x16], 0x3D6B_E971, 0).1,"hashlittle":u32::from_le_bytes([got[0x16], got[0x17], got[0x18], got[0x19]])}));
    }
    if LocalHeader::from_bytes(&[0u8; 29]).is_some() {
        ctx.violation("C09|LocalHeader::from_bytes|accepts-29-bytes", "from_bytes accepts fewer than 30 bytes", json!({}));
    }

    // ---- UpdateEntry: [0..4] guard LE = hashlittle(bytes[4..23], 0) | 0x80000000, [4..13] ekey, [13] archive_id >> 2,
    //      [14..18] BE (archive_id & 3) << 30 | offset, [18..22] size LE, [22] status, [23] 0
    for i in 0..n {
        let ekey: [u8; 9] = match i % 9 {
            0 => [0u8; 9],
            1 => [0xff; 9],
            _ => rng.array::<9>(),
        };
        let archive_id: u16 = match i % 4 {
            0 => 0,
            1 => 1023,
            _ => (rng.next_u32() % 1024) as u16,
        };
        let archive_offset: u32 = match i % 3 {
            0 => 0,
            1 => 0x3FFF_FFFF,
            _ => rng.next_u32() & 0x3FFF_FFFF,
        };
        let size: u32 = if i % 6 == 0 { u32::MAX } else { rng.next_u32() };
        let (status, sb) = *rng.pick(&[(UpdateStatus::Normal, 0u8), (UpdateStatus::Delete, 3), (UpdateStatus::HeaderNonResident, 6), (UpdateStatus::DataNonResident, 7)]);
        let mut model = [0u8; 24];
        model[4..13].copy_from_slice(&ekey);
        model[13] = (archive_id >> 2) as u8;
        model[14..18].copy_from_slice(&((u32::from(archive_id & 3) << 30) | archive_offset).to_be_bytes());
        model[18..22].copy_from_slice(&size.to_le_bytes());
        model[22] = sb;
        let guard = lookup3::hashlittle(&model[4..23], 0) | 0x8000_0000;
        model[0..4].copy_from_slice(&guard.to_le_bytes());
        ctx.eval_nontrivial(mix64(fnv64(b"update_entry"), fnv64(&model)));
        ctx.obs("users.update_entry.compared", 1);
        let e = UpdateEntry::new(ekey, ArchiveLocation { archive_id, archive_offset }, size, status);
        let got = e.to_bytes();
        let detail = || json!({"ekey":hex::encode(ekey),"archive_id":archive_id,"archive_offset":archive_offset,"size":size,"status":sb,"got":hex::encode(got),"expect":hex::encode(model)});
        if got[4..] != model[4..] {
            ctx.violation("C09|UpdateEntry|hashed-bytes-differ-from-documented-layout", "UpdateEntry::to_bytes lays out ekey / location / size / status differently from the documented 24-byte entry (the hash guard covers these bytes)", detail());
        } else if got[..4] != model[..4] || e.hash_guard != guard {
            ctx.violation("C09|UpdateEntry|hash_guard!=hashlittle(entry[4..23],0)|0x80000000", "UpdateEntry::new stores a hash guard that is not the lookup3 hash of bytes 4..23 with the top bit set", detail());
        }
        let raw: [u8; 24] = rng.array::<24>();
        if UpdateEntry::compute_hash_guard(&raw) != (lookup3::hashlittle(&raw[4..23], 0) | 0x8000_0000) {
            ctx.violation("C09|UpdateEntry::compute_hash_guard|!=reference", "compute_hash_guard differs from lookup3 over bytes 4..23", json!({"bytes":hex::encode(raw)}));
        }
        let back = UpdateEntry::from_bytes(&got);
        if !e.validate_hash_guard() || !back.validate_hash_guard() || back.to_bytes() != got {
            ctx.violation("C09|UpdateEntry::validate_hash_guard|rejects-entry-written-by-new", "validate_hash_guard (directly or after from_bytes(to_bytes)) rejects the entry UpdateEntry::new produced", detail());
        }
        // one flipped bit in the hashed range (bytes 4..23). Status bytes other than 0/3/6/7 are read back as
        // "Normal" (documented), so a flip inside the status byte is not used.
        let bit = rng.urange(4 * 8, 22 * 8 - 1);
        let mut flipped = got;
        flipped[bit / 8] ^= 1 << (bit % 8);
        if UpdateEntry::from_bytes(&flipped).validate_hash_guard() {
            ctx.violation("C09|UpdateEntry::validate_hash_guard|accepts-entry-with-flipped-bit", "validate_hash_guard accepts an entry in which one bit of the hashed range was flipped", json!({"bit":bit,"entry":hex::encode(flipped)}));
        }
    }
}

/// `.idx` files written by `IndexManager::save_all`: the two guarded blocks (size + lookup3 hash) and the hash guards
/// of the update-section entries, read back from the file bytes by the harness.
fn idx_guarded_blocks(ctx: &Ctx) {
    let mut rng = ctx.rng(43);
    let rounds = ctx.pick(6usize, 40usize);
    for round in 0..rounds {
        let Ok(dir) = tempfile::tempdir() else {
            ctx.inconclusive("tempdir unavailable");
            return;
        };
        let mut mgr = IndexManager::new(dir.path());
        let n_sorted = [0usize, 1, 2, 40, 300, 1000][round % 6];
        let n_update = [3usize, 0, 22, 1, 100, 500][round % 6];
        let mut ok = true;
        for _ in 0..n_sorted {
            let k = EncodingKey::from_bytes(rng.array::<16>());
            ok &= mgr.add_entry(&k, (rng.next_u32() % 1024) as u16, rng.next_u32() & 0x3FFF_FFFF, rng.next_u32()).is_ok();
        }
        if n_sorted > 0 {
            ok &= mgr.flush_all_updates().is_ok();
        }
        for _ in 0..n_update {
            let k = EncodingKey::from_bytes(rng.array::<16>());
            ok &= mgr.add_entry(&k, (rng.next_u32() % 1024) as u16, rng.next_u32() & 0x3FFF_FFFF, rng.next_u32()).is_ok();
        }
        ok &= mgr.save_all().is_ok();
        if !ok {
            ctx.obs("users.idx.manager_call_failed", 1);
            continue;
        }
        let Ok(rd) = std::fs::read_dir(dir.path()) else { continue };
        for ent in rd.flatten() {
            let p = ent.path();
            if p.extension().is_none_or(|e| e != "idx") {
                continue;
            }
            let Ok(b) = std::fs::read(&p) else { continue };
            if b.len() < 0x28 {
                ctx.obs("users.idx.file_too_short", 1);
                continue;
            }
            let le = |o: usize| u32::from_le_bytes([b[o], b[o + 1], b[o + 2], b[o + 3]]);
            let (hsz, hhash) = (le(0) as usize, le(4));
            ctx.eval_nontrivial(mix64(fnv64(b"idx"), fnv64(&b[..b.len().min(4096)])));
            if 8 + hsz > b.len() {
                ctx.obs("users.idx.header_block_beyond_file", 1);
                continue;
            }
            ctx.obs("users.idx.guarded_blocks_checked", 1);
            if hhash != lookup3::hashlittle(&b[8..8 + hsz], 0) {
                ctx.violation(
                    "C09|idx|header-guarded-block-hash!=hashlittle(block,0)",
                    "the hash of the header guarded block of a saved .idx file is not lookup3 hashlittle over the block",
                    json!({"file":p.file_name().map(|s| s.to_string_lossy().to_string()),"block_size":hsz,"stored":hhash,"expect":lookup3::hashlittle(&b[8..8 + hsz], 0)}),
                );
            }
            // entries block: after the header block, padded to 16 bytes
            let eo = (8 + hsz + 15) & !15;
            if eo + 8 > b.len() {
                continue;
            }
            let (esz, ehash) = (le(eo) as usize, le(eo + 4));
            if eo + 8 + esz > b.len() {
                ctx.obs("users.idx.entry_block_beyond_file", 1);
                continue;
            }
            let block = &b[eo + 8..eo + 8 + esz];
            // Two published readings of "Jenkins hash of the entries": lookup3 hashlittle over the whole block (this
            // repository's documentation) and hashlittle2 chained entry by entry, first result word (CascLib). The
            // statement does not choose; either is accepted, which one is recorded.
            let whole = lookup3::hashlittle(block, 0);
            let (mut pc, mut pb) = (0u32, 0u32);
            // entry size from the header fields (size + location + key lengths; 4 + 5 + 9 in the standard layout)
            let entry_len = match (b[12] as usize) + (b[13] as usize) + (b[14] as usize) {
                0 => 18,
                n => n,
            };
            for ent in block.chunks(entry_len) {
                let (c, bb) = lookup3::hashlittle2(ent, pc, pb);
                pc = c;
                pb = bb;
            }
            ctx.obs("users.idx.guarded_blocks_checked", 1);
            ctx.obs_max("max.idx_entry_block_bytes", esz as u64);
            if ehash == whole {
                ctx.obs("users.idx.entry_block_hash==hashlittle(whole block)", 1);
            } else if esz > 0 && ehash == pc {
                ctx.obs("users.idx.entry_block_hash==hashlittle2(chained per entry)", 1);
            } else {
                ctx.violation(
                    "C09|idx|entries-guarded-block-hash-is-no-lookup3-hash-of-the-block",
                    "the hash of the entries guarded block of a saved .idx file is neither hashlittle over the block nor the per-entry chained hashlittle2",
                    json!({"file":p.file_name().map(|s| s.to_string_lossy().to_string()),"block_size":esz,"stored":ehash,"hashlittle(block,0)":whole,"chained_hashlittle2":pc}),
                );
            }
            // update section: first 64 KiB boundary after the sorted section; 512-byte pages of 21 entries
            let uo = (eo + 8 + esz + 0xFFFF) & !0xFFFF;
            let mut off = uo;
            while off + 512 <= b.len() {
                for s in 0..21 {
                    let e = &b[off + s * 24..off + s * 24 + 24];
                    let g = u32::from_le_bytes([e[0], e[1], e[2], e[3]]);
                    if g == 0 {
                        break;
                    }
                    ctx.obs("users.idx.update_entries_on_disk_checked", 1);
                    if g != (lookup3::hashlittle(&e[4..23], 0) | 0x8000_0000) {
                        ctx.violation(
                            "C09|idx|update-entry-on-disk|hash_guard!=hashlittle(entry[4..23],0)|0x80000000",
                            "an update-section entry of a saved .idx file carries a hash guard that is not the lookup3 hash of its bytes 4..23",
                            json!({"file":p.file_name().map(|s| s.to_string_lossy().to_string()),"offset":off + s * 24,"entry":hex::encode(e)}),
                        );
                    }
                }
                off += 512;
            }
        }
    }
}

fn host_feature_subsets() -> Vec<CpuFeatures> {
    let host = CpuFeatures {
        sse2: std::is_x86_feature_detected!("sse2"),
        sse4_1: std::is_x86_feature_detected!("sse4.1"),
        avx2: std::is_x86_feature_detected!("avx2"),
        avx512: std::is_x86_feature_detected!("avx512f"),
    };
    let mut v = Vec::new();
    for mask in 0u8..16 {
        let f = CpuFeatures {
            sse2: mask & 1 != 0,
            sse4_1: mask & 2 != 0,
            avx2: mask & 4 != 0,
            avx512: mask & 8 != 0,
        };
        if (f.sse2 && !host.sse2) || (f.sse4_1 && !host.sse4_1) || (f.avx2 && !host.avx2) || (f.avx512 && !host.avx512) {
            continue;
        }
        v.push(f);
    }
    v
}

fn feat_name(f: &CpuFeatures) -> String {
    format!("sse2={},sse41={},avx2={},avx512={}", u8::from(f.sse2), u8::from(f.sse4_1), u8::from(f.avx2), u8::from(f.avx512))
}

fn simd_helpers(ctx: &Ctx) {
    let mut subsets = host_feature_subsets();
    // the production entry point: what it reports must be what the host has (claiming more executes illegal
    // instructions, the accelerated paths are selected from it), and the helpers are swept with exactly that value
    let det = detect_cpu_features();
    ctx.obs("simd.detect_cpu_features_checked", 1);
    let host = [
        ("sse2", det.sse2, std::is_x86_feature_detected!("sse2")),
        ("sse4.1", det.sse4_1, std::is_x86_feature_detected!("sse4.1")),
        ("avx2", det.avx2, std::is_x86_feature_detected!("avx2")),
        ("avx512f", det.avx512, std::is_x86_feature_detected!("avx512f")),
    ];
    for (name, claimed, real) in host {
        if claimed != real {
            ctx.violation(
                &format!("C09|simd|detect_cpu_features|{}|{name}", if claimed { "claims-feature-the-host-lacks" } else { "misses-feature-the-host-has" }),
                "detect_cpu_features disagrees with the CPU's feature bits",
                json!({"feature":name,"reported":claimed,"host":real}),
            );
        }
    }
    if !subsets.iter().any(|f| feat_name(f) == feat_name(&det)) && !host.iter().any(|(_, c, r)| *c && !*r) {
        subsets.push(det);
    }
    ctx.obs("simd.feature_subsets", subsets.len() as u64);
    let none = CpuFeatures::none();
    let max_len = ctx.pick(200usize, 420usize);
    std::thread::scope(|s| {
        for (si, feat) in subsets.iter().enumerate() {
            let ctx = ctx;
            let feat = *feat;
            s.spawn(move || {
                let mut rng = ctx.rng(500 + si as u64);
                let fname = feat_name(&feat);
                // --- memcmp / mem_equal: all lengths, first difference at every position (+ equal, + length mismatch)
                for len in 0..=max_len {
                    let a = rng.bytes(len);
                    let mut cases: Vec<(Vec<u8>, Vec<u8>)> = vec![(a.clone(), a.clone())];
                    for pos in 0..len {
                        let mut b = a.clone();
                        b[pos] = b[pos].wrapping_add(if rng.bool() { 1 } else { 0x80 });
                        if rng.bool() {
                            // later bytes differ too, in the opposite direction
                            for x in b.iter_mut().skip(pos + 1) {
                                *x = !*x;
                            }
                        }
                        cases.push((a.clone(), b));
                    }
                    // different lengths, common prefix
                    if len > 0 {
                        cases.push((a.clone(), a[..len - 1].to_vec()));
                        cases.push((a[..len / 2].to_vec(), a.clone()));
                    }
                    for (x, y) in &cases {
                        let h = mix64(fnv64(b"memcmp"), mix64(fnv64(fname.as_bytes()), mix64(fnv64(x), fnv64(y))));
                        if len >= 1 { ctx.eval_nontrivial(h) } else { ctx.eval() }
                        let got = feat.vectorized_memcmp(x, y);
                        let fb = none.vectorized_memcmp(x, y);
                        if got != fb {
                            ctx.violation(
                                &format!("C09|simd|vectorized_memcmp|accel!=fallback|{fname}"),
                                "vectorized_memcmp differs between accelerated path and portable fallback",
                                json!({"features":fname,"a":hex::encode(x),"b":hex::encode(y),"accel":format!("{got:?}"),"fallback":format!("{fb:?}")}),
                            );
                        }
                        if fb != x.as_slice().cmp(y.as_slice()) {
                            ctx.obs("simd.fallback_memcmp_differs_from_slice_cmp", 1);
                        }
                        let got2 = feat.simd_memcmp(x, y);
                        let fb2 = none.simd_memcmp(x, y);
                        if got2 != fb2 {
                            ctx.violation(
                                &format!("C09|simd|simd_memcmp|accel!=fallback|{fname}"),
                                "simd_memcmp differs between accelerated path and portable fallback",
                                json!({"features":fname,"a":hex::encode(x),"b":hex::encode(y)}),
                            );
                        }
                    }
                    ctx.obs("simd.memcmp_cases", cases.len() as u64);
                    let pairs: Vec<(&[u8], &[u8])> = cases.iter().map(|(x, y)| (x.as_slice(), y.as_slice())).collect();
                    let got = feat.batch_mem_equal(&pairs);
                    let fb = none.batch_mem_equal(&pairs);
                    if got != fb {
                        let idx = got.iter().zip(&fb).position(|(a, b)| a != b);
                        ctx.violation(
                            &format!("C09|simd|batch_mem_equal|accel!=fallback|{fname}"),
                            "batch_mem_equal differs between accelerated path and portable fallback",
                            json!({"features":fname,"len":len,"pair_index":idx,"pair":idx.map(|i| (hex::encode(pairs[i].0), hex::encode(pairs[i].1)))}),
                        );
                    }
                    // memset / memcpy
                    let val = rng.next_u32() as u8;
                    let mut d1 = rng.bytes(len);
                    let mut d2 = d1.clone();
                    feat.simd_memset(&mut d1, val);
                    none.simd_memset(&mut d2, val);
                    if d1 != d2 || d1.iter().any(|&b| b != val) {
                        ctx.violation(
                            &format!("C09|simd|simd_memset|accel!=fallback|{fname}"),
                            "simd_memset result differs from fallback / fill value",
                            json!({"features":fname,"len":len}),
                        );
                    }
                    let src = rng.bytes(len);
                    for dlen in [len, len + 7, len.saturating_sub(3)] {
                        let mut c1 = vec![0xAAu8; dlen];
                        let mut c2 = vec![0xAAu8; dlen];
                        feat.simd_memcpy(&mut c1, &src);
                        none.simd_memcpy(&mut c2, &src);
                        if c1 != c2 {
                            ctx.violation(
                                &format!("C09|simd|simd_memcpy|accel!=fallback|{fname}"),
                                "simd_memcpy result differs from fallback",
                                json!({"features":fname,"src_len":len,"dest_len":dlen}),
                            );
                        }
                    }
                    ctx.obs("simd.memset_memcpy_lengths", 1);
                }
                // --- memmem: haystacks <= 96 with every needle length/position; random bigger ones
                let alphabet: &[u8] = b"ab";
                for hlen in 0..=96usize {
                    // low-entropy haystack so that partial matches are frequent
                    let hay: Vec<u8> = (0..hlen).map(|_| *rng.pick(alphabet)).collect();
                    let mut needles: Vec<Vec<u8>> = vec![Vec::new()];
                    let step = if ctx.quick() { 3 } else { 1 };
                    for nlen in 1..=hlen.min(40) {
                        for pos in (0..=(hlen - nlen)).step_by(step) {
                            needles.push(hay[pos..pos + nlen].to_vec());
                        }
                        // absent needle of this length
                        let mut n: Vec<u8> = (0..nlen).map(|_| *rng.pick(alphabet)).collect();
                        n[nlen - 1] = b'c';
                        needles.push(n);
                    }
                    needles.push(vec![b'a'; hlen + 1]);
                    for n in &needles {
                        let h = mix64(fnv64(b"memmem"), mix64(fnv64(fname.as_bytes()), mix64(fnv64(&hay), fnv64(n))));
                        if !n.is_empty() { ctx.eval_nontrivial(h) } else { ctx.eval() }
                        let got = feat.vectorized_memmem(&hay, n);
                        let fb = none.vectorized_memmem(&hay, n);
                        if got != fb {
                            ctx.violation(
                                &format!("C09|simd|vectorized_memmem|accel!=fallback|{fname}"),
                                "vectorized_memmem differs between accelerated path and portable fallback",
                                json!({"features":fname,"haystack":String::from_utf8_lossy(&hay),"needle":String::from_utf8_lossy(n),"accel":got,"fallback":fb}),
                            );
                        }
                        let truth = if n.is_empty() { fb } else { hay.windows(n.len()).position(|w| w == n.as_slice()) };
                        if fb != truth {
                            ctx.obs("simd.fallback_memmem_differs_from_naive", 1);
                        }
                        let g2 = feat.simd_search(&hay, n);
                        let f2 = none.simd_search(&hay, n);
                        if g2 != f2 {
                            ctx.violation(
                                &format!("C09|simd|simd_search|accel!=fallback|{fname}"),
                                "simd_search differs between accelerated path and portable fallback",
                                json!({"features":fname,"haystack":String::from_utf8_lossy(&hay),"needle":String::from_utf8_lossy(n),"accel":g2,"fallback":f2}),
                            );
                        }
                    }
                    ctx.obs("simd.memmem_cases", needles.len() as u64);
                }
                for _ in 0..ctx.pick(300, 5000) {
                    let hlen = rng.urange(97, 600);
                    let hay: Vec<u8> = (0..hlen).map(|_| *rng.pick(b"abc")).collect();
                    let nlen = rng.urange(1, 70);
                    let n: Vec<u8> = if rng.bool() && nlen <= hlen {
                        let p = rng.urange(0, hlen - nlen);
                        hay[p..p + nlen].to_vec()
                    } else {
                        (0..nlen).map(|_| *rng.pick(b"abc")).collect()
                    };
                    ctx.eval_nontrivial(mix64(fnv64(b"memmem.big"), mix64(fnv64(fname.as_bytes()), mix64(fnv64(&hay), fnv64(&n)))));
                    let got = feat.vectorized_memmem(&hay, &n);
                    let fb = none.vectorized_memmem(&hay, &n);
                    if got != fb {
                        ctx.violation(
                            &format!("C09|simd|vectorized_memmem|accel!=fallback|{fname}"),
                            "vectorized_memmem differs between accelerated path and portable fallback",
                            json!({"features":fname,"haystack":String::from_utf8_lossy(&hay),"needle":String::from_utf8_lossy(&n),"accel":got,"fallback":fb}),
                        );
                    }
                }
                // --- batch hashes: batches of 0..=9 buffers of assorted lengths
                for batch in 0..=9usize {
                    for round in 0..ctx.pick(6, 40) {
                        let bufs: Vec<Vec<u8>> = (0..batch).map(|i| { let n = (i * 37 + round * 13 + rng.urange(0, 80)) % 300; rng.bytes(n) }).collect();
                        let refs: Vec<&[u8]> = bufs.iter().map(Vec::as_slice).collect();
                        ctx.eval_nontrivial(mix64(fnv64(b"batch"), mix64(fnv64(fname.as_bytes()), mix64(batch as u64, round as u64))));
                        let got = feat.batch_content_keys(&refs);
                        let fb = none.batch_content_keys(&refs);
                        let truth: Vec<[u8; 16]> = bufs.iter().map(|b| md5::compute(b).0).collect();
                        if got != fb || got.iter().map(|k| *k.as_bytes()).collect::<Vec<_>>() != truth {
                            ctx.violation(
                                &format!("C09|simd|batch_content_keys|accel!=fallback|{fname}"),
                                "batch_content_keys differs from fallback / MD5",
                                json!({"features":fname,"batch":batch,"lens":bufs.iter().map(Vec::len).collect::<Vec<_>>()}),
                            );
                        }
                        let got = feat.batch_jenkins96_data(&refs);
                        let fb = none.batch_jenkins96_data(&refs);
                        let truth: Vec<(u64, u32)> = bufs.iter().map(|b| { let (c, bb) = lookup3::hashlittle2(b, 0, 0); ((u64::from(c) << 32) | u64::from(bb), c) }).collect();
                        if got != fb {
                            ctx.violation(
                                &format!("C09|simd|batch_jenkins96_data|accel!=fallback|{fname}"),
                                "batch_jenkins96_data differs from fallback",
                                json!({"features":fname,"batch":batch,"lens":bufs.iter().map(Vec::len).collect::<Vec<_>>()}),
                            );
                        }
                        if fb.iter().map(|j| (j.hash64, j.hash32)).collect::<Vec<_>>() != truth {
                            ctx.obs("simd.fallback_batch_jenkins96_data_differs_from_Jenkins96_reference", 1);
                        }
                        let strs: Vec<String> = bufs.iter().map(|b| b.iter().map(|x| char::from(b'A' + (x % 50))).collect()).collect();
                        let srefs: Vec<&str> = strs.iter().map(String::as_str).collect();
                        let got = feat.batch_jenkins96_paths(&srefs);
                        let fb = none.batch_jenkins96_paths(&srefs);
                        if got != fb {
                            ctx.violation(
                                &format!("C09|simd|batch_jenkins96_paths|accel!=fallback|{fname}"),
                                "batch_jenkins96_paths differs from fallback",
                                json!({"features":fname,"batch":batch,"paths":strs}),
                            );
                        }
                        ctx.obs("simd.batch_hash_cases", 3);
                    }
                }
            });
        }
    });
    if ctx.want_sample() {
        ctx.sample(json!({"kind":"simd feature subsets exercised","subsets":subsets.iter().map(feat_name).collect::<Vec<_>>()}));
    }
    let mut rng = ctx.rng(9);
    let key = rng.array::<16>();
    let iv = rng.array::<4>();
    let msg = rng.bytes(70);
    ctx.sample(json!({"kind":"salsa20 case","key":hex::encode(key),"iv":hex::encode(iv),"block_index":3,"msg":hex::encode(&msg),"out":encrypt_salsa20(&msg,&key,&iv,3).map(hex::encode).unwrap_or_default()}));
    ctx.sample(json!({"kind":"lookup3 case","data":"Four score and seven years ago","hashlittle(.,1)":format!("{:#x}", hashlittle(b"Four score and seven years ago", 1))}));
}

fn python_crosscheck(ctx: &Ctx, log_path: &str, written: u64) {
    if written == 0 {
        ctx.inconclusive("event log empty: nothing for the Python cross-check");
        return;
    }
    let out = std::process::Command::new("python3").arg("/verif/pyref/c09.py").arg(log_path).output();
    match out {
        Ok(o) => {
            let text = String::from_utf8_lossy(&o.stdout).to_string();
            let mut checked = 0u64;
            for line in text.lines() {
                if let Some(rest) = line.strip_prefix("CHECKED ") {
                    checked = rest.trim().parse().unwrap_or(0);
                }
                if let Some(rest) = line.strip_prefix("MISMATCH ") {
                    let func = rest.split_whitespace().next().unwrap_or("?");
                    ctx.violation(
                        &format!("C09|{func}|python-reference-mismatch"),
                        "independent Python implementation disagrees with the observed output in the event log",
                        json!({"line":rest}),
                    );
                }
            }
            ctx.obs("python_crosscheck.events_checked", checked);
            if !o.status.success() && !text.contains("MISMATCH") {
                ctx.inconclusive(&format!("python cross-check failed to run: {}", String::from_utf8_lossy(&o.stderr).lines().last().unwrap_or("")));
            } else if checked == 0 {
                ctx.inconclusive("python cross-check checked 0 events");
            }
        }
        Err(e) => ctx.inconclusive(&format!("python3 not runnable: {e}")),
    }
}
