//! C13 — sub-workloads added by the coverage-driven extension (see notes/C13.md):
//!
//!  * `CdnClient::download` / `download_archive_index`: cache-then-fetch-then-store histories
//!    (hit inside the TTL without traffic, per key / per content type, failed download never cached,
//!    refetch after the TTL ended) — the mechanism "CdnClient::download cache-then-fetch-then-store";
//!  * `ProtocolCache::clear` between two queries (forced refresh);
//!  * a configuration built by `ClientConfig::from_env` (which URL ends up in which slot of the chain);
//!  * endpoints that `validate_endpoint` has to refuse (nothing cached, no panic, chain order kept);
//!  * a Ribbit response beyond the client's size limit (never `Ok` with a truncated document);
//!  * `ProtocolCache` used from a thread without runtime (the other branch of its sync/async bridge).
//!
//! Every oracle is written from the statement: an answer is served from the cache without network
//! traffic until its time-to-live ends, a failed answer is never cached, the chain is HTTPS, HTTP, TCP.

use super::*;
use cascette_protocol::{CdnClient, CdnConfig, CdnEndpoint, ContentType};

// ------------------------------------------------------------------ CDN histories

#[derive(Clone, Copy, Debug, PartialEq, Eq)]
pub enum CdnEntry {
    Data,
    Config,
    Patch,
    Index,
}

impl CdnEntry {
    fn name(self) -> &'static str {
        match self {
            CdnEntry::Data => "download:data",
            CdnEntry::Config => "download:config",
            CdnEntry::Patch => "download:patch",
            CdnEntry::Index => "download_archive_index",
        }
    }
    /// another content type for the same key (other cache entry, other URL)
    fn other_type(self) -> CdnEntry {
        match self {
            CdnEntry::Data => CdnEntry::Config,
            CdnEntry::Config => CdnEntry::Patch,
            CdnEntry::Patch => CdnEntry::Data,
            CdnEntry::Index => CdnEntry::Data,
        }
    }
}

#[derive(Clone, Copy, Debug, PartialEq, Eq)]
pub enum CdnHist {
    Hit,
    Fail,
    Expiry,
}

#[derive(Clone, Debug, PartialEq, Eq)]
pub enum DR {
    Ok(Vec<u8>),
    Err(String),
    Panic(String),
}

impl DR {
    fn short(&self) -> String {
        match self {
            DR::Ok(b) => format!("Ok({} bytes: {})", b.len(), String::from_utf8_lossy(&b[..b.len().min(60)])),
            DR::Err(e) => format!("Err({})", e.chars().take(200).collect::<String>()),
            DR::Panic(p) => format!("PANIC({p})"),
        }
    }
}

fn cdn_key(uniq: u64, n: u64) -> [u8; 16] {
    let mut k = [0u8; 16];
    k[..8].copy_from_slice(&mix64(uniq, 0xC0DE + n).to_be_bytes());
    k[8..].copy_from_slice(&mix64(uniq, 0xFEED + n).to_be_bytes());
    k
}

/// Content served by the CDN mock in `generation` (binary, generation visible in the first bytes).
fn cdn_body(uniq: u64, generation: u32) -> Vec<u8> {
    let mut b = format!("cdn-content uniq={uniq} generation={generation} ").into_bytes();
    let n = 64 + (mix64(uniq, 77) % 1500) as usize;
    for i in 0..n {
        b.push((mix64(uniq + u64::from(generation) * 1_000_003, i as u64) & 0xff) as u8);
    }
    b
}

async fn cdn_fetch(client: &Arc<CdnClient>, ep: &CdnEndpoint, entry: CdnEntry, key: [u8; 16]) -> DR {
    let c = Arc::clone(client);
    let ep = ep.clone();
    let h = tokio::spawn(async move {
        let r = match entry {
            CdnEntry::Data => c.download(&ep, ContentType::Data, &key).await,
            CdnEntry::Config => c.download(&ep, ContentType::Config, &key).await,
            CdnEntry::Patch => c.download(&ep, ContentType::Patch, &key).await,
            CdnEntry::Index => c.download_archive_index(&ep, &hex::encode(key)).await,
        };
        r.map_err(|e| format!("{e:?}"))
    });
    match tokio::time::timeout(Duration::from_secs(90), h).await {
        Err(_) => DR::Err("harness: watchdog (90 s)".into()),
        Ok(Ok(Ok(b))) => DR::Ok(b),
        Ok(Ok(Err(e))) => DR::Err(e),
        Ok(Err(je)) => {
            if je.is_panic() {
                let p = je.into_panic();
                DR::Panic(p.downcast_ref::<&str>().map(|s| (*s).to_string()).or_else(|| p.downcast_ref::<String>().cloned()).unwrap_or_else(|| "<panic>".into()))
            } else {
                DR::Err("harness: task cancelled".into())
            }
        }
    }
}

/// `CdnEndpoint` for a loopback mock: either written down directly or derived from a row of a
/// `cdns` answer with `CdnClient::endpoint_from_bpsv_row` (Hosts with query parameters and a second
/// host, Path with a trailing slash), as a caller of the version service would do.
fn cdn_endpoint(port: u16, via_row: bool) -> Result<CdnEndpoint, String> {
    if !via_row {
        return Ok(CdnEndpoint { host: format!("127.0.0.1:{port}"), path: "tpr/wow".into(), product_path: None, scheme: Some("http".into()), is_fallback: false, strict: false, max_hosts: None });
    }
    let text = format!("Name!STRING:0|Path!STRING:0|Hosts!STRING:0|Servers!STRING:0|ConfigPath!STRING:0\n## seqn = 41\nus|tpr/wow/|127.0.0.1:{port}?maxhosts=4&fallback=0&unknown=x second.example.net|http://127.0.0.1:{port}/?maxhosts=4 https://second.example.net/?fallback=1|tpr/configs/data\n");
    let doc = <BpsvDocument as CascFormat>::parse(text.as_bytes()).map_err(|e| format!("harness: cdns document does not parse: {e}"))?;
    let row = doc.rows().first().ok_or("harness: cdns document has no row")?;
    let mut ep = CdnClient::endpoint_from_bpsv_row(row, doc.schema()).map_err(|e| format!("endpoint_from_bpsv_row: {e:?}"))?;
    ep.scheme = Some("http".into()); // the mock speaks plain HTTP (TLS is out of scope)
    Ok(ep)
}

pub struct CdnStep {
    name: &'static str,
    client: &'static str,
    /// cold | within | after | other-key | other-type | fail | recover | unjudged
    phase: &'static str,
    result: DR,
    new_requests: usize,
    /// generation whose content must come back (for Ok phases)
    want_generation: u32,
}

pub struct CdnObs {
    steps: Vec<CdnStep>,
    g0: Vec<u8>,
    g1: Vec<u8>,
    /// ProtocolCache::len before / after the failing download
    len: (Option<usize>, Option<usize>),
    files: Option<(usize, usize)>,
    endpoint_error: Option<String>,
}

#[derive(Clone, Debug)]
pub struct CdnCase {
    pub hist: CdnHist,
    pub mode: CacheMode,
    pub entry: CdnEntry,
    /// behaviour of the failing server (Fail histories)
    pub beh: HttpBeh,
    pub via_row: bool,
    pub uniq: u64,
}

impl CdnCase {
    fn to_json(&self) -> Value {
        json!({"kind": "cdn", "history": format!("{:?}", self.hist), "cache": format!("{:?}", self.mode), "entry_point": self.entry.name(), "failing_server": self.beh.code(), "endpoint_from_cdns_row": self.via_row})
    }
}

type PCache = Arc<cascette_protocol::cache::ProtocolCache>;

fn new_cdn_client(cache_cfg: &CacheConfig) -> Result<(Arc<CdnClient>, PCache), String> {
    let cache: PCache = Arc::new(cascette_protocol::cache::ProtocolCache::new(cache_cfg).map_err(|e| format!("harness: ProtocolCache::new: {e}"))?);
    let client = CdnClient::new(Arc::clone(&cache), CdnConfig::default()).map(Arc::new).map_err(|e| format!("harness: CdnClient::new: {e}"))?;
    Ok((client, cache))
}

pub async fn run_cdn_case(case: &CdnCase) -> Result<CdnObs, String> {
    let ttl = if case.hist == CdnHist::Expiry { TTL } else { Duration::from_secs(600) };
    let dir = if case.mode != CacheMode::Memory { Some(tempfile::tempdir().map_err(|e| format!("harness: tempdir: {e}"))?) } else { None };
    let cache_cfg = CacheConfig { cache_dir: dir.as_ref().map(|d| d.path().to_path_buf()), ribbit_ttl: ttl, cdn_ttl: ttl, config_ttl: ttl, ..CacheConfig::default() };
    let (g0, g1) = (cdn_body(case.uniq, 0), cdn_body(case.uniq, 1));
    let log = Log::new();
    let good = Arc::new(Mutex::new(HttpScript { beh: HttpBeh::Valid(Shape::Plain), body: g0.clone() }));
    let m_good = start_http(Slot::Https, Arc::clone(&good), log.clone()).await.ok_or("harness: cannot bind cdn mock")?;
    let mut steps: Vec<CdnStep> = Vec::new();
    let key_a = cdn_key(case.uniq, 1);
    let key_b = cdn_key(case.uniq, 2);
    let ep_good = match cdn_endpoint(m_good.port, case.via_row) {
        Ok(e) => e,
        Err(e) if e.starts_with("harness") => return Err(e),
        Err(e) => return Ok(CdnObs { steps, g0, g1, len: (None, None), files: None, endpoint_error: Some(e) }),
    };
    let (c1, cache1) = new_cdn_client(&cache_cfg)?;
    let mut len = (None, None);
    let mut files = None;
    let set_body = |b: &Vec<u8>| -> Result<(), String> {
        good.lock().map_err(|_| "lock")?.body = b.clone();
        Ok(())
    };
    match case.hist {
        CdnHist::Hit => {
            let before = log.len();
            let r = cdn_fetch(&c1, &ep_good, case.entry, key_a).await;
            steps.push(CdnStep { name: "cold-download", client: "first-client", phase: "cold", result: r, new_requests: log.len() - before, want_generation: 0 });
            set_body(&g1)?;
            let before = log.len();
            let r = cdn_fetch(&c1, &ep_good, case.entry, key_a).await;
            steps.push(CdnStep { name: "repeat-inside-ttl", client: "same-client", phase: "within", result: r, new_requests: log.len() - before, want_generation: 0 });
            if case.mode == CacheMode::DiskNewClient {
                let (c2, _) = new_cdn_client(&cache_cfg)?;
                let before = log.len();
                let r = cdn_fetch(&c2, &ep_good, case.entry, key_a).await;
                steps.push(CdnStep { name: "repeat-inside-ttl", client: "new-client", phase: "within", result: r, new_requests: log.len() - before, want_generation: 0 });
            }
            let before = log.len();
            let r = cdn_fetch(&c1, &ep_good, case.entry, key_b).await;
            steps.push(CdnStep { name: "other-key", client: "same-client", phase: "other-key", result: r, new_requests: log.len() - before, want_generation: 1 });
            let before = log.len();
            let r = cdn_fetch(&c1, &ep_good, case.entry.other_type(), key_a).await;
            steps.push(CdnStep { name: "same-key-other-content-type", client: "same-client", phase: "other-type", result: r, new_requests: log.len() - before, want_generation: 1 });
        }
        CdnHist::Fail => {
            // a second server that fails; same path and key, so the same cache entry is addressed
            let bad_body = if matches!(case.beh, HttpBeh::CloseMidBody | HttpBeh::ResetMidBody) { g0.clone() } else { Vec::new() };
            let bad = Arc::new(Mutex::new(HttpScript { beh: case.beh.clone(), body: bad_body }));
            let m_bad = start_http(Slot::Http, Arc::clone(&bad), log.clone()).await.ok_or("harness: cannot bind failing cdn mock")?;
            let mut ep_bad = ep_good.clone();
            ep_bad.host = format!("127.0.0.1:{}", m_bad.port);
            set_body(&g1)?;
            len.0 = cache1.len().ok();
            let f0 = dir.as_ref().map(|d| count_files(d.path()));
            let before = log.len();
            let r = cdn_fetch(&c1, &ep_bad, case.entry, key_a).await;
            steps.push(CdnStep { name: "download-from-failing-server", client: "first-client", phase: "fail", result: r, new_requests: log.len() - before, want_generation: 0 });
            len.1 = cache1.len().ok();
            files = f0.zip(dir.as_ref().map(|d| count_files(d.path())));
            let (client, who): (Arc<CdnClient>, &'static str) = if case.mode == CacheMode::DiskNewClient { (new_cdn_client(&cache_cfg)?.0, "new-client") } else { (Arc::clone(&c1), "same-client") };
            let before = log.len();
            let r = cdn_fetch(&client, &ep_good, case.entry, key_a).await;
            steps.push(CdnStep { name: "download-from-good-server-afterwards", client: who, phase: "recover", result: r, new_requests: log.len() - before, want_generation: 1 });
            drop(m_bad);
        }
        CdnHist::Expiry => {
            let t1s = Instant::now();
            let before = log.len();
            let r = cdn_fetch(&c1, &ep_good, case.entry, key_a).await;
            steps.push(CdnStep { name: "cold-download", client: "first-client", phase: "cold", result: r, new_requests: log.len() - before, want_generation: 0 });
            set_body(&g1)?;
            let (client, who): (Arc<CdnClient>, &'static str) = if case.mode == CacheMode::DiskNewClient { (new_cdn_client(&cache_cfg)?.0, "new-client") } else { (Arc::clone(&c1), "same-client") };
            let before = log.len();
            let r = cdn_fetch(&client, &ep_good, case.entry, key_a).await;
            let end = Instant::now();
            let phase = if end.duration_since(t1s) < TTL / 3 { "within" } else { "unjudged" };
            steps.push(CdnStep { name: "repeat-before-expiry", client: who, phase, result: r, new_requests: log.len() - before, want_generation: 0 });
            // wait 3 TTLs after the LAST download (a wrongful refetch above would have started a fresh TTL)
            tokio::time::sleep(TTL * 3 + Duration::from_millis(50)).await;
            if Instant::now().duration_since(end) < TTL * 3 {
                return Err("harness: sleep returned early".into());
            }
            let (client, who): (Arc<CdnClient>, &'static str) = if case.mode == CacheMode::DiskNewClient { (new_cdn_client(&cache_cfg)?.0, "new-client") } else { (Arc::clone(&c1), "same-client") };
            let before = log.len();
            let r = cdn_fetch(&client, &ep_good, case.entry, key_a).await;
            steps.push(CdnStep { name: "download-after-expiry", client: who, phase: "after", result: r, new_requests: log.len() - before, want_generation: 1 });
        }
    }
    drop(c1);
    drop(cache1);
    drop(m_good);
    Ok(CdnObs { steps, g0, g1, len, files, endpoint_error: None })
}

/// returns true when every step could be judged
pub fn judge_cdn(ctx: &Ctx, case: &CdnCase, obs: &CdnObs) -> bool {
    let m = case.mode.name();
    let entry = case.entry.name();
    let detail = |failing: &str| {
        json!({
            "scenario": case.to_json(),
            "failing_step": failing,
            "history": obs.steps.iter().map(|s| json!({"step": s.name, "client": s.client, "phase": s.phase, "new_requests": s.new_requests, "result": s.result.short(), "wanted_generation": s.want_generation})).collect::<Vec<_>>(),
            "cache_len_before_after_failed_download": format!("{:?}", obs.len),
            "cache_files_before_after_failed_download": format!("{:?}", obs.files),
            "replay": "re-run the tier with the same seed (real-time history)",
        })
    };
    let row = if case.via_row { "|endpoint-from-cdns-row" } else { "" };
    if let Some(e) = &obs.endpoint_error {
        ctx.violation(&format!("C13|cdn|cold-download-did-not-return-the-served-content|{entry}{row}"), "no download possible: the endpoint could not be derived from a well-formed cdns row", json!({"scenario": case.to_json(), "error": e}));
        return true;
    }
    let mut all_judged = true;
    for s in &obs.steps {
        let want = if s.want_generation == 0 { &obs.g0 } else { &obs.g1 };
        if let DR::Panic(msg) = &s.result {
            ctx.violation("C13|cdn|panic", "a CdnClient download entry point panicked", json!({"panic": msg, "case": detail(s.name)}));
            continue;
        }
        if let DR::Err(e) = &s.result {
            if e.starts_with("harness:") {
                ctx.inconclusive(&format!("cdn history: {e}"));
                continue;
            }
        }
        match s.phase {
            "cold" => {
                ctx.obs(&format!("cdn.cold.{entry}"), 1);
                if s.result != DR::Ok(want.clone()) || s.new_requests == 0 {
                    ctx.violation(&format!("C13|cdn|cold-download-did-not-return-the-served-content|{entry}{row}"), "first download on an empty cache did not return the content the server sent", detail(s.name));
                }
            }
            "within" => {
                ctx.obs(&format!("cdn.judged.inside-ttl.{m}.{}", s.client), 1);
                if s.new_requests > 0 {
                    ctx.violation(&format!("C13|cdn-cache|network-traffic-for-unexpired-content|{m}|{}", s.client), "a repeated download inside the TTL caused network traffic", detail(s.name));
                } else if s.result != DR::Ok(want.clone()) {
                    ctx.violation(&format!("C13|cdn-cache|served-content-differs-from-original|{m}|{}", s.client), "the content served from the cache differs from what was downloaded", detail(s.name));
                }
            }
            "other-key" | "other-type" => {
                ctx.obs(&format!("cdn.judged.{}", s.phase), 1);
                if s.result == DR::Ok(obs.g0.clone()) && s.new_requests == 0 {
                    ctx.violation(&format!("C13|cdn-cache|cached-content-served-for-{}|{m}|{entry}", if s.phase == "other-key" { "another-key" } else { "another-content-type" }), "a download of something that was never fetched was answered from the cache entry of something else", detail(s.name));
                } else if s.result != DR::Ok(want.clone()) || s.new_requests == 0 {
                    ctx.violation(&format!("C13|cdn|cold-download-did-not-return-the-served-content|{entry}{row}"), "first download of this key / content type did not return the content the server sent", detail(s.name));
                }
            }
            "fail" => {
                ctx.obs(&format!("cdn.judged.failing-server.{}", case.beh.family()), 1);
                if let DR::Ok(_) = &s.result {
                    ctx.violation(&format!("C13|cdn|ok-without-successful-response|{}", case.beh.family()), "download returned Ok although the server never sent a complete successful response", detail(s.name));
                }
                if let (Some(b), Some(a)) = obs.len {
                    if a > b {
                        ctx.violation(&format!("C13|cdn-cache|cache-grew-after-failed-download|{m}"), "ProtocolCache::len grew although the download failed", detail(s.name));
                    }
                }
                if let Some((b, a)) = obs.files {
                    if a > b {
                        ctx.violation("C13|cdn-cache|file-added-to-cache-directory-after-failed-download|disk", "a file appeared below the cache directory although the download failed", detail(s.name));
                    }
                }
            }
            "recover" => {
                ctx.obs(&format!("cdn.judged.after-failed-download.{m}.{}", s.client), 1);
                if s.new_requests == 0 {
                    ctx.violation(&format!("C13|cdn-cache|failed-download-answered-from-cache|{m}|{}|{}", s.client, case.beh.family()), "after a failed download the next download of the same key caused no request: the failure (or a partial body) was cached", detail(s.name));
                } else if s.result != DR::Ok(want.clone()) {
                    ctx.violation(&format!("C13|cdn|cold-download-did-not-return-the-served-content|{entry}{row}"), "download from a healthy server after a failed one did not return the served content", detail(s.name));
                }
            }
            "after" => {
                ctx.obs(&format!("cdn.judged.after-expiry.{m}.{}", s.client), 1);
                let stale = s.result == DR::Ok(obs.g0.clone());
                if stale && s.new_requests == 0 {
                    ctx.violation(&format!("C13|cdn-cache|content-served-after-ttl-ended|{m}|{}", s.client), "content was served from the cache (no network traffic) more than 3 TTLs after it was stored", detail(s.name));
                } else if s.result != DR::Ok(want.clone()) {
                    ctx.violation(&format!("C13|cdn-cache|download-after-expiry-did-not-return-the-fresh-content|{m}|{}", s.client), "after expiry the download did not return the content now served", detail(s.name));
                }
            }
            _ => {
                all_judged = false;
                ctx.obs("cdn.step_too_close_to_ttl_boundary(not judged)", 1);
            }
        }
    }
    all_judged
}

pub fn cdn_cases(ctx: &Ctx, uniq: &mut u64) -> Vec<CdnCase> {
    let mut v = Vec::new();
    let mut push = |hist, mode, entry, beh: HttpBeh, via_row| {
        *uniq += 1;
        v.push(CdnCase { hist, mode, entry, beh, via_row, uniq: *uniq });
    };
    let ok = HttpBeh::Valid(Shape::Plain);
    let entries = [CdnEntry::Data, CdnEntry::Config, CdnEntry::Patch, CdnEntry::Index];
    for (i, entry) in entries.iter().enumerate() {
        for (j, mode) in [CacheMode::Memory, CacheMode::DiskSameClient, CacheMode::DiskNewClient].iter().enumerate() {
            push(CdnHist::Hit, *mode, *entry, ok.clone(), (i + j) % 2 == 0);
        }
    }
    let fails = [
        HttpBeh::Status(404, None),
        HttpBeh::Status(403, None),
        HttpBeh::Status(500, None),
        HttpBeh::Status(503, None),
        HttpBeh::Status(429, None),
        HttpBeh::CloseBeforeHeaders,
        HttpBeh::CloseMidBody,
        HttpBeh::ResetMidBody,
        HttpBeh::Refused,
    ];
    let modes = [CacheMode::Memory, CacheMode::DiskSameClient, CacheMode::DiskNewClient];
    let rot = (ctx.seed % 12) as usize;
    for (i, beh) in fails.iter().enumerate() {
        let reps = ctx.pick(1, 3);
        for r in 0..reps {
            push(CdnHist::Fail, modes[(i + r + rot) % 3], entries[(i + r + rot / 3) % 4], beh.clone(), (i + r) % 3 == 0);
        }
    }
    for (i, mode) in modes.iter().enumerate() {
        push(CdnHist::Expiry, *mode, CdnEntry::Data, ok.clone(), false);
        push(CdnHist::Expiry, *mode, [CdnEntry::Index, CdnEntry::Config, CdnEntry::Patch][(i + rot) % 3], ok.clone(), true);
    }
    v
}

/// Runs all CDN histories concurrently (they mostly sleep: TTL waits, retry back-off); a history whose
/// timing got too close to the TTL boundary is repeated (at most 3 rounds).
pub fn cdn_section(ctx: &Arc<Ctx>, rt: &tokio::runtime::Runtime, uniq: &mut u64) {
    let mut pending = cdn_cases(ctx, uniq);
    ctx.obs("cdn.histories_planned", pending.len() as u64);
    for round in 0..3 {
        if pending.is_empty() {
            break;
        }
        let handles: Vec<_> = pending
            .iter()
            .cloned()
            .map(|case| {
                rt.spawn(async move {
                    let r = tokio::time::timeout(Duration::from_secs(150), run_cdn_case(&case)).await;
                    (case, r)
                })
            })
            .collect();
        let mut again = Vec::new();
        for h in handles {
            match rt.block_on(h) {
                Ok((case, Ok(Ok(obs)))) => {
                    let complete = obs.steps.iter().all(|s| s.phase != "unjudged");
                    if !complete && round < 2 {
                        *uniq += 1;
                        again.push(CdnCase { uniq: *uniq, ..case });
                        ctx.obs("cdn.history_repeated(too close to boundary)", 1);
                        continue;
                    }
                    ctx.eval_nontrivial(mix64(fnv64(b"cdn"), fnv64(case.to_json().to_string().as_bytes())));
                    ctx.obs(&format!("cdn.histories.{:?}.{}", case.hist, case.mode.name()), 1);
                    ctx.obs(&format!("cdn.entry_point.{}", case.entry.name()), 1);
                    if case.via_row {
                        ctx.obs("cdn.endpoint_from_bpsv_row", 1);
                    }
                    judge_cdn(ctx, &case, &obs);
                    if ctx.want_sample() && case.hist == CdnHist::Fail && case.beh == HttpBeh::Status(503, None) {
                        ctx.sample(json!({"kind": "cdn history", "case": case.to_json(), "steps": obs.steps.iter().map(|s| format!("{}[{}|{}] new_requests={} -> {}", s.name, s.client, s.phase, s.new_requests, s.result.short().chars().take(60).collect::<String>())).collect::<Vec<_>>()}));
                    }
                }
                Ok((_, Ok(Err(e)))) => ctx.inconclusive(&format!("cdn history: {e}")),
                Ok((case, Err(_))) => ctx.inconclusive(&format!("cdn history: watchdog (150 s) {}", case.to_json())),
                Err(_) => ctx.inconclusive("cdn history task failed"),
            }
        }
        pending = again;
    }
}

// ------------------------------------------------------------------ ProtocolCache::clear between two queries

pub struct ClearObs {
    first: QR,
    clear: Result<(), String>,
    state_after_clear: CacheState,
    second: QR,
    second_requests: usize,
    third: QR,
    third_requests: usize,
    g0: String,
    g1: String,
}

pub async fn run_clear_case(disk: bool, class: EpClass, uniq: u64) -> Result<ClearObs, String> {
    let sc = Scenario { class, https: HttpBeh::Valid(Shape::Plain), http: HttpBeh::Valid(Shape::Plain), tcp: TcpBeh::ValidV2(Shape::Plain), splits: vec![], uniq, disk, rows: 3, opt: Opt::default() };
    let dir = if disk { Some(tempfile::tempdir().map_err(|e| format!("harness: tempdir: {e}"))?) } else { None };
    let rig = build_rig(&sc, Duration::from_secs(600), dir.as_ref().map(|d| d.path().to_path_buf())).await?;
    let slot = if class.tcp_only() { Slot::Tcp } else { Slot::Https };
    let body = |generation: u32| -> Vec<u8> {
        if slot == Slot::Tcp { tcp_payload(&sc.tcp, class, uniq, generation, sc.rows) } else { http_body(&sc.https, class, Slot::Https, uniq, generation, sc.rows) }
    };
    let parse = |b: &[u8]| if slot == Slot::Tcp { ref_tcp(b) } else { ref_http(b) };
    let g0 = parse(&body(0)).ok_or("harness: generation 0 does not parse")?;
    let g1 = parse(&body(1)).ok_or("harness: generation 1 does not parse")?;
    let client = new_client(&rig.cfg)?;
    let ep = class.endpoint();
    let first = do_query(&client, ep).await;
    if slot == Slot::Tcp {
        rig.tcp_script.lock().map_err(|_| "lock")?.payload = body(1);
    } else {
        rig.https_script.lock().map_err(|_| "lock")?.body = body(1);
    }
    let clear = client.cache().clear().map_err(|e| e.to_string());
    let state_after_clear = cache_state(&client, ep);
    let before = rig.log.len();
    let second = do_query(&client, ep).await;
    let second_requests = rig.log.len() - before;
    let before = rig.log.len();
    let third = do_query(&client, ep).await;
    let third_requests = rig.log.len() - before;
    Ok(ClearObs { first, clear, state_after_clear, second, second_requests, third, third_requests, g0, g1 })
}

pub fn judge_clear(ctx: &Ctx, disk: bool, class: EpClass, o: &ClearObs) {
    let m = if disk { "disk" } else { "memory" };
    let detail = || {
        json!({"scenario": {"kind": "clear", "cache": m, "class": class.name()}, "first_query": o.first.short(), "clear": format!("{:?}", o.clear), "cache_entry_after_clear": format!("{:?}", o.state_after_clear).chars().take(120).collect::<String>(),
            "query_after_clear": o.second.short(), "requests_after_clear": o.second_requests, "repeat": o.third.short(), "requests_of_repeat": o.third_requests, "replay": "re-run the tier with the same seed"})
    };
    for r in [&o.first, &o.second, &o.third] {
        if let QR::Panic(p) = r {
            ctx.violation("C13|query|panic", "RibbitTactClient::query panicked", json!({"panic": p, "case": detail()}));
            return;
        }
    }
    if o.first != QR::Ok(o.g0.clone()) {
        ctx.violation(&format!("C13|cache|cold-query-did-not-fetch-the-answer|{m}"), "first query on an empty cache did not return the served answer", detail());
        return;
    }
    ctx.obs(&format!("clear.{}", if o.clear.is_ok() { "ok" } else { "err" }), 1);
    ctx.obs(&format!("clear.entry_afterwards.{}", match &o.state_after_clear { CacheState::Absent => "absent", CacheState::Holds(_) => "still-present", _ => "other" }), 1);
    // what the statement fixes: whatever clear() did, a query answers either from the cache (the stored
    // answer, no traffic) or from the network (the answer now served, traffic) — nothing else
    match (&o.second, o.second_requests) {
        (QR::Ok(p), 0) if *p == o.g0 => ctx.obs("clear.query_afterwards.served_from_cache", 1),
        (QR::Ok(p), n) if n > 0 && *p == o.g1 => ctx.obs("clear.query_afterwards.refetched", 1),
        _ => ctx.violation(&format!("C13|cache|query-after-clear-is-neither-the-cached-nor-the-fresh-answer|{m}"), "after ProtocolCache::clear a query returned neither the stored answer without traffic nor the answer now served", detail()),
    }
    // and the answer it returned is served from the cache afterwards
    if matches!(o.second, QR::Ok(_)) {
        if o.third_requests > 0 {
            ctx.violation(&format!("C13|cache|network-traffic-for-unexpired-answer|{m}|same-client|after-clear"), "a repeated query (TTL 600 s) after clear + query caused network traffic", detail());
        } else if o.third != o.second {
            ctx.violation(&format!("C13|cache|served-answer-differs-from-original|{m}|same-client"), "the repeated query returned something else than the previous answer", detail());
        }
    }
}

// ------------------------------------------------------------------ configuration from the environment

/// Listeners bound before anything else runs, so that the URLs can be put into the environment while
/// the process is still single-threaded; `ClientConfig::from_env` is called right there.
pub struct EnvRig {
    listeners: Option<[std::net::TcpListener; 3]>,
    pub cfg: Result<ClientConfig, String>,
}

impl EnvRig {
    pub fn prepare() -> Option<EnvRig> {
        let mk = || std::net::TcpListener::bind("127.0.0.1:0").ok();
        let (l0, l1, l2) = (mk()?, mk()?, mk()?);
        let port = |l: &std::net::TcpListener| l.local_addr().map(|a| a.port()).ok();
        let (p0, p1, p2) = (port(&l0)?, port(&l1)?, port(&l2)?);
        // SAFETY: called first thing in main, before any thread exists.
        unsafe {
            std::env::set_var("CASCETTE_TACT_HTTPS_URL", format!("http://127.0.0.1:{p0}"));
            std::env::set_var("CASCETTE_TACT_HTTP_URL", format!("http://127.0.0.1:{p1}"));
            std::env::set_var("CASCETTE_RIBBIT_URL", format!("tcp://127.0.0.1:{p2}"));
            for k in ["CASCETTE_RIBBIT_TTL", "CASCETTE_CDN_TTL", "CASCETTE_CONFIG_TTL"] {
                std::env::set_var(k, "600");
            }
            std::env::remove_var("CASCETTE_CACHE_DIR");
        }
        let cfg = std::panic::catch_unwind(ClientConfig::from_env).map_err(|_| "ClientConfig::from_env panicked".to_string()).and_then(|r| r.map_err(|e| format!("{e:?}")));
        Some(EnvRig { listeners: Some([l0, l1, l2]), cfg })
    }
}

pub struct EnvObs {
    /// (scenario used for judging, result, log)
    runs: Vec<(Scenario, QR, Vec<LogEntry>)>,
}

pub async fn run_env_case(rig: &mut EnvRig, uniq: u64) -> Result<EnvObs, String> {
    let cfg = rig.cfg.clone()?;
    let [l0, l1, l2] = rig.listeners.take().ok_or("harness: listeners already used")?;
    let conv = |l: std::net::TcpListener| -> Result<TcpListener, String> {
        l.set_nonblocking(true).map_err(|e| format!("harness: {e}"))?;
        TcpListener::from_std(l).map_err(|e| format!("harness: {e}"))
    };
    // first query: HTTPS slot 503, HTTP slot answers; second query (other endpoint): HTTPS slot answers
    let sc1 = Scenario { class: EpClass::Versions, https: HttpBeh::Status(503, None), http: HttpBeh::Valid(Shape::InteriorBlank), tcp: TcpBeh::ValidV2(Shape::Plain), splits: vec![], uniq, disk: false, rows: 3, opt: Opt::default() };
    let sc2 = Scenario { class: EpClass::Cdns, https: HttpBeh::Valid(Shape::Plain), http: HttpBeh::Valid(Shape::Plain), tcp: TcpBeh::ValidV1(true, Shape::Plain), splits: vec![], uniq: uniq + 1, disk: false, rows: 2, opt: Opt::default() };
    let sc3 = Scenario { class: EpClass::Bgdl, https: HttpBeh::Status(502, None), http: HttpBeh::Status(429, None), tcp: TcpBeh::ValidV1(false, Shape::Plain), splits: vec![], uniq: uniq + 2, disk: false, rows: 2, opt: Opt::default() };
    let log = Log::new();
    let s0 = Arc::new(Mutex::new(HttpScript { beh: sc1.https.clone(), body: Vec::new() }));
    let s1 = Arc::new(Mutex::new(HttpScript { beh: sc1.http.clone(), body: Vec::new() }));
    let s2 = Arc::new(Mutex::new(TcpScript { beh: sc1.tcp.clone(), payload: Vec::new(), splits: vec![] }));
    let _m0 = start_http_on(conv(l0)?, Slot::Https, Arc::clone(&s0), log.clone()).ok_or("harness: mock")?;
    let _m1 = start_http_on(conv(l1)?, Slot::Http, Arc::clone(&s1), log.clone()).ok_or("harness: mock")?;
    let _m2 = start_tcp_on(conv(l2)?, Arc::clone(&s2), log.clone(), Arc::new(AtomicU64::new(0))).ok_or("harness: mock")?;
    let client = new_client(&cfg)?;
    let mut runs = Vec::new();
    for sc in [sc1, sc2, sc3] {
        *s0.lock().map_err(|_| "lock")? = HttpScript { beh: sc.https.clone(), body: http_body(&sc.https, sc.class, Slot::Https, sc.uniq, 0, sc.rows) };
        *s1.lock().map_err(|_| "lock")? = HttpScript { beh: sc.http.clone(), body: http_body(&sc.http, sc.class, Slot::Http, sc.uniq, 0, sc.rows) };
        *s2.lock().map_err(|_| "lock")? = TcpScript { beh: sc.tcp.clone(), payload: tcp_payload(&sc.tcp, sc.class, sc.uniq, 0, sc.rows), splits: vec![] };
        let before = log.len();
        let r = do_query(&client, sc.class.endpoint()).await;
        let entries: Vec<LogEntry> = log.snapshot().into_iter().skip(before).collect();
        runs.push((sc, r, entries));
    }
    Ok(EnvObs { runs })
}

pub fn judge_env(ctx: &Ctx, o: &EnvObs) {
    for (sc, result, log) in &o.runs {
        let Ok(expect) = expectations(sc) else {
            ctx.inconclusive("harness: reference parse of a valid document failed");
            return;
        };
        let eps = views(sc, &expect, log);
        ctx.obs("config.from_env.queries", 1);
        let detail = json!({"scenario": sc.to_json(), "configuration": "ClientConfig::from_env (CASCETTE_TACT_HTTPS_URL / CASCETTE_TACT_HTTP_URL / CASCETTE_RIBBIT_URL point at the three mocks)", "result": result.short(), "request_log": log.iter().map(|e| format!("#{} {} {}", e.seq, e.slot.name(), e.what)).collect::<Vec<_>>(), "replay": "re-run the tier with the same seed"});
        if let QR::Panic(msg) = result {
            ctx.violation("C13|query|panic", "RibbitTactClient::query panicked", json!({"panic": msg, "case": detail}));
            continue;
        }
        if let Some((sig, summary)) = judge_chain(&eps, result) {
            ctx.violation(&format!("{sig}|config-from-env"), &summary, detail);
        } else {
            ctx.obs("config.from_env.chain_as_configured", 1);
        }
    }
}

// ------------------------------------------------------------------ endpoints the validator has to refuse

pub fn invalid_endpoints() -> Vec<(&'static str, String)> {
    vec![
        ("empty", String::new()),
        ("blank", " ".into()),
        ("inner-space", "v1/products/wow versions".into()),
        ("query-string", "v1/products/wow/versions?x=1".into()),
        ("fragment", "v1/products/wow/versions#frag".into()),
        ("percent-escape", "v1/products/w%6fw/versions".into()),
        ("crlf-second-command", "v1/products/wow/versions\r\nv1/summary".into()),
        ("nul", "v1/products/wow/versions\0".into()),
        ("dotdot-segment", "v1/products/../versions".into()),
        ("dotdot-leading", "../../v1/summary".into()),
        ("backslash", "v1\\products\\wow\\versions".into()),
        ("too-long", format!("v1/products/{}/versions", "a".repeat(1001))),
    ]
}

pub struct InvalidObs {
    name: &'static str,
    endpoint: String,
    result: QR,
    log: Vec<LogEntry>,
    len: (Option<usize>, Option<usize>),
}

pub async fn run_invalid_endpoints(uniq: u64) -> Result<(Scenario, Vec<InvalidObs>, (Option<bool>, Option<bool>)), String> {
    let sc = Scenario { class: EpClass::Versions, https: HttpBeh::Valid(Shape::Plain), http: HttpBeh::Valid(Shape::Plain), tcp: TcpBeh::ValidV2(Shape::Plain), splits: vec![], uniq, disk: false, rows: 2, opt: Opt::default() };
    let rig = build_rig(&sc, Duration::from_secs(600), None).await?;
    let client = new_client(&rig.cfg)?;
    let mut out = Vec::new();
    let empty_before = client.cache().is_empty().ok();
    for (name, ep) in invalid_endpoints() {
        let before = rig.log.len();
        let l0 = client.cache().len().ok();
        let result = do_query(&client, &ep).await;
        let l1 = client.cache().len().ok();
        let log: Vec<LogEntry> = rig.log.snapshot().into_iter().skip(before).collect();
        out.push(InvalidObs { name, endpoint: ep, result, log, len: (l0, l1) });
    }
    let empty_after = client.cache().is_empty().ok();
    Ok((sc, out, (empty_before, empty_after)))
}

pub fn judge_invalid(ctx: &Ctx, sc: &Scenario, obs: &[InvalidObs], empty: (Option<bool>, Option<bool>)) {
    let Ok(expect) = expectations(sc) else {
        ctx.inconclusive("harness: reference parse of a valid document failed");
        return;
    };
    // a cache that was empty is still empty when every query in between failed
    if obs.iter().all(|o| matches!(o.result, QR::Err(_))) {
        ctx.obs("endpoint.invalid.is_empty_compared", 1);
        if empty == (Some(true), Some(false)) {
            ctx.violation("C13|cache|cache-grew-after-failed-query|memory|malformed-endpoint", "ProtocolCache::is_empty turned false although every query since it was true failed", json!({"scenario": {"kind": "invalid-endpoint"}, "endpoints": obs.iter().map(|o| o.name).collect::<Vec<_>>(), "replay": "re-run the tier with the same seed"}));
        }
    }
    for o in obs {
        ctx.obs("endpoint.invalid.queries", 1);
        let detail = json!({"scenario": {"kind": "invalid-endpoint", "class_of_endpoint": o.name}, "endpoint": o.endpoint.chars().take(80).collect::<String>(), "result": o.result.short(), "request_log": o.log.iter().map(|e| format!("#{} {} {}", e.seq, e.slot.name(), e.what.chars().take(80).collect::<String>())).collect::<Vec<_>>(), "cache_len_before_after": format!("{:?}", o.len), "replay": "re-run the tier with the same seed"});
        match &o.result {
            QR::Panic(msg) => {
                ctx.violation(&format!("C13|query|panic|malformed-endpoint|{}", o.name), "RibbitTactClient::query panicked on a malformed endpoint", json!({"panic": msg, "case": detail}));
                continue;
            }
            QR::Err(_) if o.log.is_empty() => ctx.obs("endpoint.invalid.refused_before_any_contact", 1),
            _ => {
                // not refused up front: then it is a query like any other and the chain rules apply
                ctx.obs("endpoint.invalid.sent_to_the_service", 1);
                let eps = views(sc, &expect, &o.log);
                if let Some((sig, summary)) = judge_chain(&eps, &o.result) {
                    ctx.violation(&format!("{sig}|malformed-endpoint|{}", o.name), &summary, detail.clone());
                }
            }
        }
        // a failed query never adds anything to the cache
        if let (QR::Err(_), (Some(b), Some(a))) = (&o.result, o.len) {
            if a > b {
                ctx.violation("C13|cache|cache-grew-after-failed-query|memory|malformed-endpoint", "ProtocolCache::len grew although the query failed", detail);
            }
        }
    }
}

// ------------------------------------------------------------------ response beyond the client's size limit

pub struct HugeObs {
    rows_sent: usize,
    bytes_sent: usize,
    /// Ok(number of rows of the returned document)
    result: Result<usize, String>,
    panicked: Option<String>,
    cached: Option<bool>,
}

/// A well-formed V2 answer of more than 50 MiB over the TCP-only route. Refusing it is legitimate
/// (safety limit); what must not happen is `Ok` with a document that is not the whole answer.
pub async fn run_huge(uniq: u64) -> Result<HugeObs, String> {
    let class = EpClass::Summary;
    let mut text = String::with_capacity(54 * 1024 * 1024);
    // one STRING column: every prefix of the response that ends inside a row is itself a parseable document,
    // so a reader that silently stops early yields Ok with fewer rows (and not a parse error that would hide it)
    text.push_str("Product!STRING:0\n## seqn = 99\n");
    let mut rows_sent = 0usize;
    // well beyond the limit: a reader that merely stops at the limit has not seen the last megabyte
    while text.len() <= 51 * 1024 * 1024 {
        use std::fmt::Write as _;
        let _ = writeln!(text, "product_{rows_sent:09}_{uniq}_filler-filler-filler-filler-filler-filler-filler-filler-filler-filler");
        rows_sent += 1;
    }
    let bytes_sent = text.len();
    let sc = Scenario { class, https: HttpBeh::Refused, http: HttpBeh::Refused, tcp: TcpBeh::ValidV2(Shape::Plain), splits: vec![], uniq, disk: false, rows: 2, opt: Opt::default() };
    let rig = build_rig(&sc, Duration::from_secs(600), None).await?;
    rig.tcp_script.lock().map_err(|_| "lock")?.payload = text.into_bytes();
    let client = new_client(&rig.cfg)?;
    let c = Arc::clone(&client);
    let h = tokio::spawn(async move { c.query(class.endpoint()).await.map(|d| d.rows().len()).map_err(|e| format!("{e:?}").chars().take(200).collect::<String>()) });
    let (result, panicked) = match tokio::time::timeout(Duration::from_secs(150), h).await {
        Err(_) => return Err("watchdog: oversized-response scenario did not finish within 150 s".into()),
        Ok(Ok(r)) => (r, None),
        Ok(Err(je)) if je.is_panic() => {
            let p = je.into_panic();
            (Err("panic".into()), Some(p.downcast_ref::<&str>().map(|s| (*s).to_string()).or_else(|| p.downcast_ref::<String>().cloned()).unwrap_or_else(|| "<panic>".into())))
        }
        Ok(Err(_)) => return Err("harness: task cancelled".into()),
    };
    let cached = cache_key(class.endpoint()).and_then(|k| client.cache().get(&k).ok().map(|o| o.is_some()));
    Ok(HugeObs { rows_sent, bytes_sent, result, panicked, cached })
}

pub fn judge_huge(ctx: &Ctx, o: &HugeObs) {
    let detail = json!({"scenario": {"kind": "oversized-response"}, "bytes_sent": o.bytes_sent, "rows_sent": o.rows_sent, "result": format!("{:?}", o.result), "cached": o.cached, "replay": "re-run the tier with the same seed"});
    ctx.obs("oversized_response.runs", 1);
    if let Some(p) = &o.panicked {
        ctx.violation("C13|query|panic", "RibbitTactClient::query panicked", json!({"panic": p, "case": detail}));
        return;
    }
    match &o.result {
        Ok(n) if *n == o.rows_sent => ctx.obs("oversized_response.returned_whole_document", 1),
        Ok(_) => ctx.violation("C13|ribbit-tcp|oversized-response|ok-with-a-document-that-is-not-the-whole-answer", "a response beyond the size limit was returned as Ok with only part of its rows", detail),
        Err(_) => {
            ctx.obs("oversized_response.refused", 1);
            if o.cached == Some(true) {
                ctx.violation("C13|cache|entry-present-after-failed-query|memory", "the cache holds an entry for the endpoint although the query failed", detail);
            }
        }
    }
}

// ------------------------------------------------------------------ cache used from a thread without runtime

/// Called from the main thread (no runtime context): `ProtocolCache` then drives its own runtime
/// directly instead of a helper thread. An answer stored that way must be served by `query` without
/// traffic, and an answer `query` stored must be visible that way.
pub fn sync_context_case(ctx: &Ctx, rt: &tokio::runtime::Runtime, uniq: u64) {
    if tokio::runtime::Handle::try_current().is_ok() {
        ctx.inconclusive("harness: sync-context case was started inside a runtime");
        return;
    }
    let sc = Scenario { class: EpClass::Versions, https: HttpBeh::Valid(Shape::Plain), http: HttpBeh::Valid(Shape::Plain), tcp: TcpBeh::ValidV2(Shape::Plain), splits: vec![], uniq, disk: false, rows: 3, opt: Opt::default() };
    let rig = match rt.block_on(build_rig(&sc, Duration::from_secs(600), None)) {
        Ok(r) => r,
        Err(e) => return ctx.inconclusive(&e),
    };
    let client = match new_client(&rig.cfg) {
        Ok(c) => c,
        Err(e) => return ctx.inconclusive(&e),
    };
    // (1) stored from here, served by query without traffic
    let ep1 = EpClass::Cdns.endpoint();
    let stored = bpsv_text(EpClass::Cdns, Slot::Https, uniq, 7, Shape::Plain, 2);
    let Some(want) = ref_http(stored.as_bytes()) else { return ctx.inconclusive("harness: document does not parse") };
    let Some(key1) = cache_key(ep1) else {
        // the client keeps its answers under another key than the one this sub-check would store under
        ctx.obs("cache.sync_context.skipped(cache key format not recognised)", 1);
        drop(client);
        rt.block_on(async move { drop(rig) });
        return;
    };
    if let Err(e) = client.cache().store_with_ttl(&key1, stored.as_bytes(), Duration::from_secs(600)) {
        return ctx.inconclusive(&format!("harness: store from sync context failed: {e}"));
    }
    let readback = client.cache().get(&key1).ok().flatten();
    let before = rig.log.len();
    let r = rt.block_on(do_query(&client, ep1));
    let n = rig.log.len() - before;
    ctx.obs("cache.sync_context.store_then_query", 1);
    ctx.eval_nontrivial(mix64(fnv64(b"sync-context"), 1));
    let detail = |extra: Value| json!({"scenario": {"kind": "sync-context"}, "extra": extra, "replay": "re-run the tier with the same seed"});
    if readback.as_deref() != Some(stored.as_bytes()) {
        ctx.violation("C13|cache|stored-answer-not-readable|memory|sync-context", "ProtocolCache::get did not return what store_with_ttl (TTL 600 s) had just stored, both called outside a runtime", detail(json!({"readback_len": readback.map(|b| b.len())})));
    } else if n > 0 {
        ctx.violation("C13|cache|network-traffic-for-unexpired-answer|memory|stored-from-sync-context", "query caused network traffic although the cache held an unexpired answer for the endpoint", detail(json!({"result": r.short(), "new_requests": n})));
    } else if r != QR::Ok(want) {
        ctx.violation("C13|cache|served-answer-differs-from-original|memory|stored-from-sync-context", "query returned something else than the unexpired answer held by the cache", detail(json!({"result": r.short()})));
    }
    // (2) stored by query, read from here
    let ep2 = EpClass::Versions.endpoint();
    let r2 = rt.block_on(do_query(&client, ep2));
    let st = cache_state(&client, ep2);
    ctx.obs("cache.sync_context.query_then_get", 1);
    ctx.eval_nontrivial(mix64(fnv64(b"sync-context"), 2));
    match (&r2, &st) {
        (QR::Ok(p), CacheState::Holds(c)) if p == c => ctx.obs("cache.sync_context.holds_returned_answer", 1),
        (QR::Ok(_), CacheState::Absent) => ctx.obs("cache.after_ok.absent", 1),
        (QR::Ok(_), _) => ctx.violation("C13|cache|cached-answer-differs-from-returned-answer|memory|read-from-sync-context", "the cached document read outside a runtime is not the answer that was returned", detail(json!({"result": r2.short(), "cache": format!("{st:?}").chars().take(200).collect::<String>()}))),
        _ => ctx.violation("C13|fallback|err-although-https-gave-well-formed-answer|valid", "query failed although every endpoint answers well-formed", detail(json!({"result": r2.short()}))),
    }
    drop(client);
    rt.block_on(async move { drop(rig) });
}

// ------------------------------------------------------------------ ribbit_url without a port

/// `tcp://127.0.0.1` (no port): the Ribbit port 1119 is implied. Needs 127.0.0.1:1119 for the mock; when another
/// process holds it the case is skipped (recorded, never an alarm). The chain rules are the usual ones.
pub async fn run_default_port(uniq: u64) -> Result<Option<(Scenario, QR, Vec<LogEntry>)>, String> {
    let Ok(listener) = TcpListener::bind("127.0.0.1:1119").await else { return Ok(None) };
    let sc = Scenario { class: EpClass::Versions, https: HttpBeh::Status(503, None), http: HttpBeh::Refused, tcp: TcpBeh::ValidV1(true, Shape::Plain), splits: vec![], uniq, disk: false, rows: 2, opt: Opt::default() };
    let mut rig = build_rig(&sc, Duration::from_secs(600), None).await?;
    let _m = start_tcp_on(listener, Arc::clone(&rig.tcp_script), rig.log.clone(), Arc::new(AtomicU64::new(0))).ok_or("harness: mock on 1119")?;
    rig.cfg.ribbit_url = if uniq % 2 == 0 { "tcp://127.0.0.1".into() } else { "127.0.0.1".into() };
    let client = new_client(&rig.cfg)?;
    let r = do_query(&client, sc.class.endpoint()).await;
    let log = rig.log.snapshot();
    Ok(Some((sc, r, log)))
}

pub fn judge_default_port(ctx: &Ctx, sc: &Scenario, result: &QR, log: &[LogEntry]) {
    let Ok(expect) = expectations(sc) else {
        ctx.inconclusive("harness: reference parse of a valid document failed");
        return;
    };
    ctx.obs("config.ribbit_url.without_port", 1);
    let detail = json!({"scenario": sc.to_json(), "configuration": "ribbit_url without a port (1119 implied), the TCP mock listens on 127.0.0.1:1119", "result": result.short(), "request_log": log.iter().map(|e| format!("#{} {} {}", e.seq, e.slot.name(), e.what)).collect::<Vec<_>>(), "replay": "re-run the tier with the same seed"});
    if let QR::Panic(msg) = result {
        ctx.violation("C13|query|panic", "RibbitTactClient::query panicked", json!({"panic": msg, "case": detail}));
    } else if let Some((sig, summary)) = judge_chain(&views(sc, &expect, log), result) {
        ctx.violation(&format!("{sig}|ribbit-url-without-port"), &summary, detail);
    }
}
