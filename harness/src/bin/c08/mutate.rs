//! Mutators of the C08 corpus (binary and text flavours).

use vh::Rng;

const INTERESTING: [u32; 20] = [
    0, 1, 2, 3, 9, 16, 0x7f, 0x80, 0xff, 0x100, 0x7fff, 0x8000, 0xffff, 0x1_0000, 0xff_ffff, 0x100_0000, 0x7fff_ffff, 0x8000_0000, 0xffff_fffe, 0xffff_ffff,
];

/// Offsets biased to the header (first 256 bytes) and trailer (last 64 bytes) regions.
fn pick_offset(rng: &mut Rng, len: usize) -> usize {
    if len == 0 {
        return 0;
    }
    match rng.below(20) {
        0..=11 => rng.usize_below(len.min(256)),
        12..=16 => len - 1 - rng.usize_below(len.min(64)),
        _ => rng.usize_below(len),
    }
}

fn write_int(buf: &mut [u8], off: usize, width: usize, le: bool, val: u32) {
    let bytes = val.to_be_bytes();
    let src = &bytes[4 - width..];
    for i in 0..width {
        if off + i < buf.len() {
            buf[off + i] = if le { src[width - 1 - i] } else { src[i] };
        }
    }
}

fn read_int(buf: &[u8], off: usize, width: usize, le: bool) -> u32 {
    let mut v = 0u32;
    for i in 0..width {
        let b = if off + i < buf.len() { buf[off + i] } else { 0 };
        if le {
            v |= u32::from(b) << (8 * i);
        } else {
            v = (v << 8) | u32::from(b);
        }
    }
    v
}

fn one_binary(rng: &mut Rng, v: &mut Vec<u8>, others: &[&[u8]]) -> &'static str {
    let len = v.len();
    match rng.below(12) {
        0 | 1 => {
            for _ in 0..rng.urange(1, 3) {
                if !v.is_empty() {
                    let o = pick_offset(rng, v.len());
                    v[o] ^= 1 << rng.below(8);
                }
            }
            "bitflip"
        }
        2..=4 => {
            let w = rng.urange(1, 4);
            let o = pick_offset(rng, len);
            let val = *rng.pick(&INTERESTING);
            write_int(v, o, w, rng.bool(), val);
            "interesting-value"
        }
        5 | 6 => {
            let w = rng.urange(1, 4);
            let le = rng.bool();
            let o = pick_offset(rng, len);
            let cur = read_int(v, o, w, le);
            let delta = *rng.pick(&[1u32, 1, 1, 2, 7, 8, 16]);
            let nv = if rng.bool() { cur.wrapping_add(delta) } else { cur.wrapping_sub(delta) };
            write_int(v, o, w, le, nv);
            "field-plus-minus"
        }
        7 => {
            let nl = match rng.below(5) {
                0 => len.saturating_sub(1),
                1 => len.saturating_sub(rng.urange(1, 64)),
                2 => len / 2,
                3 => rng.usize_below(len.min(300) + 1),
                _ => rng.usize_below(len + 1),
            };
            v.truncate(nl);
            "truncate"
        }
        8 => {
            let own = v.clone();
            let src: &[u8] = if !others.is_empty() && rng.bool() { others[rng.usize_below(others.len())] } else { &own };
            if !src.is_empty() && !v.is_empty() {
                let l = rng.urange(1, 64.min(src.len()));
                let a = rng.usize_below(src.len() - l + 1);
                let b = pick_offset(rng, v.len());
                for i in 0..l {
                    if b + i < v.len() {
                        v[b + i] = src[a + i];
                    }
                }
            }
            "splice"
        }
        9 => {
            if !v.is_empty() {
                let l = match rng.below(4) {
                    0 => rng.urange(1, 8),
                    1 => *rng.pick(&[9usize, 16, 17, 20, 24, 25, 26, 32, 38]),
                    2 => rng.urange(1, 256),
                    _ => *rng.pick(&[1024usize, 4096]),
                }
                .min(v.len());
                let a = if rng.bool() { pick_offset(rng, v.len() - l + 1) } else { rng.usize_below(v.len() - l + 1) };
                let chunk = v[a..a + l].to_vec();
                let at = a + l;
                v.splice(at..at, chunk);
            }
            "duplicate-region"
        }
        10 => {
            if !v.is_empty() {
                let l = rng.urange(1, 64).min(v.len());
                let a = pick_offset(rng, v.len() - l + 1);
                v.drain(a..a + l);
            }
            "delete-region"
        }
        _ => {
            let n = rng.urange(1, 64);
            match rng.below(3) {
                0 => v.extend(std::iter::repeat_n(0u8, n)),
                1 => v.extend(rng.bytes(n)),
                _ => {
                    let tail: Vec<u8> = v.iter().rev().take(n).rev().copied().collect();
                    v.extend(tail);
                }
            }
            "append"
        }
    }
}

fn one_text(rng: &mut Rng, v: &mut Vec<u8>, others: &[&[u8]]) -> &'static str {
    let text = String::from_utf8_lossy(v).into_owned();
    let mut lines: Vec<String> = text.split('\n').map(str::to_string).collect();
    let nl = lines.len();
    let kind = match rng.below(14) {
        0 => {
            let i = rng.usize_below(nl);
            let l = lines[i].clone();
            lines.insert(i, l);
            "dup-line"
        }
        1 => {
            if nl > 1 {
                lines.remove(rng.usize_below(nl));
            }
            "delete-line"
        }
        2 => {
            let (a, b) = (rng.usize_below(nl), rng.usize_below(nl));
            lines.swap(a, b);
            "swap-lines"
        }
        3 => {
            let i = rng.usize_below(nl);
            lines[i] = lines[i].replace(" = ", *rng.pick(&["=", " =", "= ", "  =  ", " = = "]));
            "separator"
        }
        4 => {
            let i = rng.usize_below(nl);
            lines[i].push_str(*rng.pick(&[" ", "\t", "\r", "  extra", " 0", " #c", "|", "|x"]));
            "line-suffix"
        }
        5 => {
            let i = rng.usize_below(nl);
            lines.insert(i, (*rng.pick(&["", "# comment", "## seqn = 7", "   ", "#", "key = ", " = value", "novalue", "a = b = c"])).to_string());
            "insert-line"
        }
        6 => {
            let i = rng.usize_below(nl);
            lines[i] = if rng.bool() { lines[i].to_uppercase() } else { lines[i].to_lowercase() };
            "case"
        }
        7 => {
            // same key again with another value
            let i = rng.usize_below(nl);
            if let Some(p) = lines[i].find('=') {
                let k = lines[i][..p].to_string();
                let at = rng.usize_below(nl + 1);
                lines.insert(at, format!("{k}= {}", *rng.pick(&["other", "1 2 3", "", "deadbeef"])));
            }
            "dup-key"
        }
        8 => {
            for l in &mut lines {
                if !l.ends_with('\r') {
                    l.push('\r');
                }
            }
            "crlf"
        }
        9 => {
            let i = rng.usize_below(nl);
            let l = &lines[i];
            if !l.is_empty() {
                let mut cs: Vec<char> = l.chars().collect();
                let p = rng.usize_below(cs.len());
                match rng.below(3) {
                    0 => cs[p] = *rng.pick(&['0', '9', 'a', 'f', 'z', 'Z', ':', '{', '}', ',', '*', '=', '|', '!', ' ', '-', '_', '.', '"']),
                    1 => {
                        cs.remove(p);
                    }
                    _ => {
                        let c = cs[p];
                        cs.insert(p, c);
                    }
                }
                lines[i] = cs.into_iter().collect();
            }
            "char-edit"
        }
        10 => {
            if !others.is_empty() {
                let o = String::from_utf8_lossy(others[rng.usize_below(others.len())]).into_owned();
                let ol: Vec<&str> = o.split('\n').collect();
                let at = rng.usize_below(nl + 1);
                lines.insert(at, ol[rng.usize_below(ol.len())].to_string());
            }
            "foreign-line"
        }
        11 => {
            // digits: bump a number
            let i = rng.usize_below(nl);
            let mut cs: Vec<char> = lines[i].chars().collect();
            let digits: Vec<usize> = cs.iter().enumerate().filter(|(_, c)| c.is_ascii_digit()).map(|(p, _)| p).collect();
            if !digits.is_empty() {
                let p = *rng.pick(&digits);
                cs[p] = char::from(b'0' + rng.below(10) as u8);
                lines[i] = cs.into_iter().collect();
            }
            "digit"
        }
        12 => {
            let mut out = lines.join("\n").into_bytes();
            let k = one_binary(rng, &mut out, others);
            *v = out;
            return k;
        }
        _ => {
            // drop or add the final newline
            if lines.last().is_some_and(String::is_empty) {
                lines.pop();
            } else {
                lines.push(String::new());
            }
            "final-newline"
        }
    };
    *v = lines.join("\n").into_bytes();
    kind
}

/// Mutate `seed` (1-2 stacked mutations). Returns the input and the kind label of the first mutation.
pub fn mutate(rng: &mut Rng, seed: &[u8], others: &[&[u8]], text: bool) -> (Vec<u8>, &'static str) {
    let mut v = seed.to_vec();
    let kind = if text { one_text(rng, &mut v, others) } else { one_binary(rng, &mut v, others) };
    if rng.chance(3, 10) {
        if text {
            one_text(rng, &mut v, others);
        } else {
            one_binary(rng, &mut v, others);
        }
    }
    (v, kind)
}
