//! Format table of the C08 driver: one `Fmt` implementation per `CascFormat` implementor (+ archive group),
//! each with a logical-content projection written over public fields / accessors (no raw-byte caches).

use cascette_formats::CascFormat;
use cascette_formats::archive::{ArchiveGroup, ArchiveGroupBuilder, ArchiveIndex};
use cascette_formats::blte::BlteFile;
use cascette_formats::bpsv::BpsvDocument;
use cascette_formats::config::{BuildConfig, CdnConfig, KeyringConfig, PatchConfig, ProductConfig};
use cascette_formats::download::DownloadManifest;
use cascette_formats::encoding::EncodingFile;
use cascette_formats::espec::ESpec;
use cascette_formats::install::InstallManifest;
use cascette_formats::patch_archive::PatchArchive;
use cascette_formats::patch_index::PatchIndex;
use cascette_formats::root::RootFile;
use cascette_formats::size::SizeManifest;
use cascette_formats::tvfs::TvfsFile;
use cascette_formats::zbsdiff::ZbsDiff;
use std::fmt::{Debug, Write};

/// FNV-1a over the `Debug` rendering, without materialising the string.
struct HashWriter(u64);
impl Write for HashWriter {
    fn write_str(&mut self, s: &str) -> std::fmt::Result {
        for b in s.bytes() {
            self.0 ^= u64::from(b);
            self.0 = self.0.wrapping_mul(0x0000_0100_0000_01b3);
        }
        Ok(())
    }
}
pub fn dh<T: Debug + ?Sized>(t: &T) -> u64 {
    let mut h = HashWriter(0xcbf2_9ce4_8422_2325);
    let _ = write!(h, "{t:?}");
    h.0
}

/// Candidate config keys: every trimmed prefix of a line that ends before an '='.
pub fn candidate_keys(texts: &[&[u8]]) -> Vec<String> {
    let mut keys = std::collections::BTreeSet::new();
    for t in texts {
        let s = String::from_utf8_lossy(t);
        for line in s.lines() {
            for (i, c) in line.char_indices() {
                if c == '=' {
                    keys.insert(line[..i].trim().to_string());
                }
            }
        }
    }
    keys.into_iter().collect()
}

pub type Projection = Vec<(&'static str, u64)>;

pub trait Fmt: Sized {
    const NAME: &'static str;
    const TEXT: bool = false;
    fn parse_(d: &[u8]) -> Result<Self, String>;
    fn build_(&self) -> Result<Vec<u8>, String>;
    /// `keys`: candidate keys for map-backed text configs (ignored by the others)
    fn project(&self, keys: &[String]) -> Projection;
    /// pretty `Debug` rendering (replay dumps only)
    fn dbg(&self) -> String;
    /// A format-specific structural reason why the rebuild of `x` (= `b1`) is inconsistent; when present it
    /// replaces the generic class in the violation signature so that one defect has one class.
    fn cause(_x: &[u8], _b1: &[u8]) -> Option<String> {
        None
    }
    /// `CascFormat::verify_round_trip(x).is_ok()` (None: the format has no `CascFormat` impl)
    fn verify_(_x: &[u8]) -> Option<bool> {
        None
    }
}

/// TVFS: width of the EST / CFT offset fields implied by a serialised header.
fn tvfs_widths(d: &[u8]) -> Option<(u8, u8)> {
    use binrw::BinRead;
    let h = cascette_formats::tvfs::TvfsHeader::read_options(&mut std::io::Cursor::new(d), binrw::Endian::Big, ()).ok()?;
    Some((if h.has_encoding_spec() { h.est_offs_size() } else { 0 }, h.cft_offs_size()))
}

/// Class of the difference between an unmutated fixture and its rebuild (part of the violation signature).
pub fn fixture_diff_class(format: &str, x: &[u8], b1: &[u8]) -> String {
    let generic = match b1.len().cmp(&x.len()) {
        std::cmp::Ordering::Less => "rebuilt-shorter",
        std::cmp::Ordering::Greater => "rebuilt-longer",
        std::cmp::Ordering::Equal => "same-length",
    };
    match format {
        "ESpec" => {
            let (xs, bs) = (String::from_utf8_lossy(x), String::from_utf8_lossy(b1));
            let stars = |s: &str| s.matches("*=").count();
            if stars(&xs) > stars(&bs) {
                "repeat-marker(*)-dropped".into()
            } else if xs.to_lowercase() == bs.to_lowercase() {
                "hex-case-normalised".into()
            } else {
                generic.into()
            }
        }
        "BuildConfig" | "CdnConfig" | "PatchConfig" | "KeyringConfig" => {
            let lines = |t: &[u8]| {
                let mut v: Vec<String> = String::from_utf8_lossy(t).lines().map(|l| l.trim().to_string()).filter(|l| !l.is_empty() && !l.starts_with('#')).collect();
                v.sort();
                v
            };
            if lines(x) == lines(b1) { "lines-reordered-or-comments-changed".into() } else { generic.into() }
        }
        _ => generic.into(),
    }
}

fn es(e: Box<dyn std::error::Error>) -> String {
    format!("{e:?}")
}

macro_rules! debug_fmt {
    ($t:ty, $name:expr, $text:expr) => {
        impl Fmt for $t {
            const NAME: &'static str = $name;
            const TEXT: bool = $text;
            fn parse_(d: &[u8]) -> Result<Self, String> {
                <$t as CascFormat>::parse(d).map_err(es)
            }
            fn build_(&self) -> Result<Vec<u8>, String> {
                CascFormat::build(self).map_err(es)
            }
            fn project(&self, _keys: &[String]) -> Projection {
                vec![("value", dh(self))]
            }
            fn dbg(&self) -> String {
                format!("{self:#?}")
            }
            fn verify_(x: &[u8]) -> Option<bool> {
                Some(<$t as CascFormat>::verify_round_trip(x).is_ok())
            }
        }
    };
}

macro_rules! casc_fmt {
    ($t:ty, $name:expr, $text:expr, |$s:ident, $k:ident| $proj:expr) => {
        impl Fmt for $t {
            const NAME: &'static str = $name;
            const TEXT: bool = $text;
            fn parse_(d: &[u8]) -> Result<Self, String> {
                <$t as CascFormat>::parse(d).map_err(es)
            }
            fn build_(&self) -> Result<Vec<u8>, String> {
                CascFormat::build(self).map_err(es)
            }
            fn project(&self, $k: &[String]) -> Projection {
                let $s = self;
                $proj
            }
            fn dbg(&self) -> String {
                format!("{self:#?}")
            }
            fn verify_(x: &[u8]) -> Option<bool> {
                Some(<$t as CascFormat>::verify_round_trip(x).is_ok())
            }
        }
    };
}

casc_fmt!(BlteFile, "BlteFile", false, |s, _k| vec![("header", dh(&s.header)), ("chunks", dh(&s.chunks.iter().map(|c| (c.mode, &c.data)).collect::<Vec<_>>()))]);
casc_fmt!(InstallManifest, "InstallManifest", false, |s, _k| vec![("header", dh(&s.header)), ("tags", dh(&s.tags)), ("entries", dh(&s.entries))]);
casc_fmt!(DownloadManifest, "DownloadManifest", false, |s, _k| vec![("header", dh(&s.header)), ("entries", dh(&s.entries)), ("tags", dh(&s.tags))]);
casc_fmt!(SizeManifest, "SizeManifest", false, |s, _k| vec![("header", dh(&s.header)), ("tags", dh(&s.tags)), ("entries", dh(&s.entries))]);
casc_fmt!(PatchArchive, "PatchArchive", false, |s, _k| vec![
    // block_count, block offsets, the block table's last-key column and the order/partition of the entries are
    // layout derived from the entries; the content is the header format fields + the set of file entries
    ("header_format", dh(&(s.header.version, s.header.file_key_size, s.header.old_key_size, s.header.patch_key_size, s.header.block_size_bits, s.header.flags))),
    ("encoding_info", dh(&s.encoding_info)),
    ("file_entries", {
        let mut e: Vec<u64> = s.blocks.iter().flat_map(|b| b.file_entries.iter().map(dh)).collect();
        e.sort_unstable();
        dh(&e)
    }),
]);
casc_fmt!(PatchIndex, "PatchIndex", false, |s, _k| vec![
    ("header(version,extra-key)", dh(&(s.header.version, s.header.key_size, s.header.key_data))),
    ("key_size", dh(&s.key_size)),
    ("entries", dh(&s.entries)),
]);
casc_fmt!(ZbsDiff, "ZbsDiff", false, |s, _k| vec![("header", dh(&s.header)), ("control", dh(&s.control_data)), ("diff", dh(&s.diff_data)), ("extra", dh(&s.extra_data))]);
casc_fmt!(ArchiveIndex, "ArchiveIndex", false, |s, _k| vec![
    // 6-byte offsets are (archive index, offset) pairs: compare the 48-bit number
    ("entries", dh(&s.entries.iter().map(|e| (&e.encoding_key, e.size, e.archive_index.map_or(e.offset, |a| (u64::from(a) << 32) | (e.offset & 0xffff_ffff)))).collect::<Vec<_>>())),
    ("toc", dh(&s.toc)),
    ("footer_format", dh(&(s.footer.version, s.footer.page_size_kb, s.footer.offset_bytes, s.footer.size_bytes, s.footer.ekey_length, s.footer.footer_hash_bytes))),
    // the footer's count is redundant with the records themselves; an accepted input whose (correctly hashed) count
    // disagrees with its records (it counts a padding record, or one record less) may be written back with the
    // actual number: compared as read only when it is consistent with the records
    ("element_count", dh(&if s.footer.element_count as usize == s.entries.len() { s.footer.element_count as usize } else { s.entries.len() })),
]);
debug_fmt!(ESpec, "ESpec", true);
casc_fmt!(KeyringConfig, "KeyringConfig", true, |s, _k| vec![("entries", dh(s.entries()))]);
casc_fmt!(EncodingFile, "EncodingFile", false, |s, _k| vec![
    ("header", dh(&s.header)),
    ("espec_table", dh(&s.espec_table.entries)),
    ("ckey_index_first_keys", dh(&s.ckey_index.iter().map(|i| i.first_key).collect::<Vec<_>>())),
    ("ckey_entries", dh(&s.ckey_pages.iter().map(|p| &p.entries).collect::<Vec<_>>())),
    ("ekey_index_first_keys", dh(&s.ekey_index.iter().map(|i| i.first_key).collect::<Vec<_>>())),
    ("ekey_entries", dh(&s.ekey_pages.iter().map(|p| &p.entries).collect::<Vec<_>>())),
    ("trailing_espec", dh(&s.trailing_espec)),
]);
pub const ROOT_V2_AMBIGUITY: &str = "v2-classic-header-counts-read-as-extended-header(total 16..99, named 1..4)";

fn root_records_hash(s: &RootFile) -> u64 {
    // a manifest is a set of (flags, id, key, name hash) records: block and record order are layout
    let mut recs: Vec<(u32, u64, u32, [u8; 16], Option<u64>)> = s.blocks.iter().flat_map(|b| b.records.iter().map(move |r| (b.locale_flags().value(), b.content_flags().value, r.file_data_id.get(), *r.content_key.as_bytes(), r.name_hash))).collect();
    recs.sort_unstable();
    dh(&recs)
}

impl Fmt for RootFile {
    const NAME: &'static str = "RootFile";
    fn parse_(d: &[u8]) -> Result<Self, String> {
        <RootFile as CascFormat>::parse(d).map_err(es)
    }
    fn build_(&self) -> Result<Vec<u8>, String> {
        CascFormat::build(self).map_err(es)
    }
    fn project(&self, _k: &[String]) -> Projection {
        vec![("version", dh(&self.version)), ("records", root_records_hash(self))]
    }
    fn dbg(&self) -> String {
        format!("{self:#?}")
    }
    fn verify_(x: &[u8]) -> Option<bool> {
        Some(<RootFile as CascFormat>::verify_round_trip(x).is_ok())
    }
    fn cause(x: &[u8], b1: &[u8]) -> Option<String> {
        // A version-2 manifest is rebuilt with the classic 12-byte header 'TSFM total named'; the readers take
        // (16..100, 1..=4) in these two words for (header_size, version) of an extended header. Whatever follows from
        // that misreading is one defect with one class. (Cheap test on the bytes first, then the version of x.)
        if b1.len() < 12 || &b1[..4] != b"TSFM" {
            return None;
        }
        let w = |o: usize| u32::from_le_bytes([b1[o], b1[o + 1], b1[o + 2], b1[o + 3]]);
        if !((16..100).contains(&w(4)) && (1..=4).contains(&w(8))) {
            return None;
        }
        match cascette_formats::root::RootFile::parse(x) {
            Ok(p) if p.version == cascette_formats::root::RootVersion::V2 => Some(ROOT_V2_AMBIGUITY.into()),
            _ => None,
        }
    }
}
impl Fmt for TvfsFile {
    const NAME: &'static str = "TvfsFile";
    fn parse_(d: &[u8]) -> Result<Self, String> {
        <TvfsFile as CascFormat>::parse(d).map_err(es)
    }
    fn build_(&self) -> Result<Vec<u8>, String> {
        CascFormat::build(self).map_err(es)
    }
    fn project(&self, _k: &[String]) -> Projection {
        let s = self;
        vec![
    ("header", dh(&(s.header.format_version, s.header.ekey_size, s.header.pkey_size, s.header.flags, s.header.max_depth))),
    ("files", dh(&s.path_table.files)),
    ("vfs_entries", dh(&s.vfs_table.entries)),
    ("container_entries", dh(&s.container_table.entries)),
    ("est_specs", dh(&s.est_table.as_ref().map(|e| &e.specs))),
]
    }
    fn dbg(&self) -> String {
        format!("{self:#?}")
    }
    fn verify_(x: &[u8]) -> Option<bool> {
        Some(<TvfsFile as CascFormat>::verify_round_trip(x).is_ok())
    }
    fn cause(x: &[u8], b1: &[u8]) -> Option<String> {
        // the rebuild re-derives table sizes in the header while the VFS table (and the entry stride of the
        // CFT) stay as parsed: if the implied offset-field widths differ, the tables no longer match the header
        match (tvfs_widths(x), tvfs_widths(b1)) {
            (Some(a), Some(b)) if a != b => Some("offset-field-width-changes-on-rebuild".into()),
            _ => None,
        }
    }
}
casc_fmt!(BuildConfig, "BuildConfig", true, |s, k| vec![("entries", dh(&k.iter().filter_map(|key| s.get(key).map(|v| (key, v))).collect::<Vec<_>>()))]);
casc_fmt!(CdnConfig, "CdnConfig", true, |s, k| vec![
    // the positional size list of the archives on its own, so that a finding about it has its own signature
    ("archives-index-size", dh(&s.get("archives-index-size"))),
    ("entries", dh(&k.iter().filter_map(|key| s.get(key).map(|v| (key, v))).collect::<Vec<_>>())),
]);
casc_fmt!(PatchConfig, "PatchConfig", true, |s, _k| vec![
    ("entries", dh(s.entries())),
    ("patch", dh(&(s.patch_hash(), s.patch_size()))),
    ("property_count", dh(&s.property_count())),
    ("properties", patch_properties_hash(s)),
]);
casc_fmt!(ProductConfig, "ProductConfig", true, |s, _k| vec![("json", dh(&serde_json::to_value(s).map(|v| v.to_string()).unwrap_or_default()))]);
casc_fmt!(BpsvDocument, "BpsvDocument", true, |s, _k| vec![
    ("schema", dh(s.schema().fields())),
    ("rows", dh(&s.rows().iter().map(|r| r.raw_values()).collect::<Vec<_>>())),
    ("typed_rows", dh(&s.rows().iter().map(|r| r.values()).collect::<Vec<_>>())),
    ("sequence_number", dh(&s.sequence_number())),
]);

/// Order-independent hash of the `properties` map of a PatchConfig (the map has no public iterator; its
/// `Debug` rendering is split into entries: inside a rendered string every quote is escaped, so the
/// separator `", "` only occurs between entries).
fn patch_properties_hash(p: &PatchConfig) -> u64 {
    let s = format!("{p:?}");
    let Some(start) = s.find("properties: {") else { return 0 };
    let rest = &s[start + "properties: {".len()..];
    let end = rest.find("}, entries: [").unwrap_or(rest.len());
    let body = &rest[..end];
    let mut acc = 0u64;
    for part in body.split("\", \"") {
        let part = part.trim_matches('"');
        acc = acc.wrapping_add(vh::mix64(vh::fnv64(part.as_bytes()), 0x51));
    }
    acc
}

/// Archive group: no `CascFormat` impl; parse = ArchiveGroup::parse, build = ArchiveGroupBuilder over the entries.
pub struct Group(pub ArchiveGroup);
impl Fmt for Group {
    const NAME: &'static str = "ArchiveGroup";
    fn parse_(d: &[u8]) -> Result<Self, String> {
        ArchiveGroup::parse(&mut std::io::Cursor::new(d)).map(Group).map_err(|e| format!("{e:?}"))
    }
    fn build_(&self) -> Result<Vec<u8>, String> {
        let mut b = ArchiveGroupBuilder::new();
        for e in &self.0.entries {
            b.add_entry(e.clone());
        }
        let mut out = std::io::Cursor::new(Vec::new());
        b.build(&mut out).map_err(|e| format!("{e:?}"))?;
        Ok(out.into_inner())
    }
    fn dbg(&self) -> String {
        format!("{:#?}", self.0)
    }
    fn project(&self, _k: &[String]) -> Projection {
        vec![("entries", dh(&self.0.entries)), ("element_count", dh(&if self.0.footer.element_count as usize == self.0.entries.len() { self.0.footer.element_count as usize } else { self.0.entries.len() })), ("footer_format", dh(&(self.0.footer.offset_bytes, self.0.footer.ekey_length)))]
    }
}

pub const FORMAT_NAMES: [&str; 19] = [
    "BlteFile", "PatchIndex", "CdnConfig", "ProductConfig", "BuildConfig", "KeyringConfig", "PatchConfig", "RootFile", "BpsvDocument", "InstallManifest", "ESpec", "SizeManifest", "TvfsFile", "EncodingFile",
    "PatchArchive", "ZbsDiff", "DownloadManifest", "ArchiveIndex", "ArchiveGroup",
];

pub fn is_text(name: &str) -> bool {
    matches!(name, "CdnConfig" | "ProductConfig" | "BuildConfig" | "KeyringConfig" | "PatchConfig" | "BpsvDocument" | "ESpec")
}

/// Dispatch a generic function over the format named `name`.
#[macro_export]
macro_rules! with_format {
    ($name:expr, $f:ident, $($arg:expr),*) => {
        match $name {
            "BlteFile" => $f::<cascette_formats::blte::BlteFile>($($arg),*),
            "PatchIndex" => $f::<cascette_formats::patch_index::PatchIndex>($($arg),*),
            "CdnConfig" => $f::<cascette_formats::config::CdnConfig>($($arg),*),
            "ProductConfig" => $f::<cascette_formats::config::ProductConfig>($($arg),*),
            "BuildConfig" => $f::<cascette_formats::config::BuildConfig>($($arg),*),
            "KeyringConfig" => $f::<cascette_formats::config::KeyringConfig>($($arg),*),
            "PatchConfig" => $f::<cascette_formats::config::PatchConfig>($($arg),*),
            "RootFile" => $f::<cascette_formats::root::RootFile>($($arg),*),
            "BpsvDocument" => $f::<cascette_formats::bpsv::BpsvDocument>($($arg),*),
            "InstallManifest" => $f::<cascette_formats::install::InstallManifest>($($arg),*),
            "ESpec" => $f::<cascette_formats::espec::ESpec>($($arg),*),
            "SizeManifest" => $f::<cascette_formats::size::SizeManifest>($($arg),*),
            "TvfsFile" => $f::<cascette_formats::tvfs::TvfsFile>($($arg),*),
            "EncodingFile" => $f::<cascette_formats::encoding::EncodingFile>($($arg),*),
            "PatchArchive" => $f::<cascette_formats::patch_archive::PatchArchive>($($arg),*),
            "ZbsDiff" => $f::<cascette_formats::zbsdiff::ZbsDiff>($($arg),*),
            "DownloadManifest" => $f::<cascette_formats::download::DownloadManifest>($($arg),*),
            "ArchiveIndex" => $f::<cascette_formats::archive::ArchiveIndex>($($arg),*),
            _ => $f::<$crate::fmts::Group>($($arg),*),
        }
    };
}
