//! Seed corpus of C08: every fixture under /repo/crates/cascette-formats/test_fixtures (read at run time),
//! small outputs of the real builders, and a few hand-written texts for formats that have no fixture.

use cascette_crypto::{ContentKey, EncodingKey, FileDataId};
use cascette_formats::archive::{ArchiveGroupBuilder, ArchiveGroupEntry, ArchiveIndexBuilder};
use cascette_formats::blte::{BlteFile, ChunkData, CompressionMode};
use cascette_formats::download::DownloadManifestBuilder;
use cascette_formats::encoding::{CKeyEntryData, EKeyEntryData, EncodingBuilder, EncodingFile};
use cascette_formats::install::{InstallManifestBuilder, TagType};
use cascette_formats::patch_archive::{PatchArchiveBuilder, PatchArchiveEncodingInfo};
use cascette_formats::patch_index::{PatchIndexBuilder, PatchIndexEntry};
use cascette_formats::root::{ContentFlags, LocaleFlags, RootBuilder, RootVersion};
use cascette_formats::size::SizeManifestBuilder;
use cascette_formats::tvfs::{TVFS_FLAG_ENCODING_SPEC, TVFS_FLAG_INCLUDE_CKEY, TVFS_FLAG_PATCH_SUPPORT, TvfsBuilder};
use std::io::Cursor;
use vh::Rng;

pub const FIXTURE_ROOT: &str = "/repo/crates/cascette-formats/test_fixtures";

#[derive(Clone, Debug)]
pub struct Seed {
    pub format: &'static str,
    pub name: String,
    pub bytes: Vec<u8>,
    pub fixture: bool,
}

fn fixture_format(dir: &str, file: &str) -> Option<&'static str> {
    match dir {
        "patch_index" if file.ends_with(".bin") => Some("PatchIndex"),
        "config" if file.contains("keyring") => Some("KeyringConfig"),
        "config" if file.contains("build_config") => Some("BuildConfig"),
        "root" if file.ends_with(".root") => Some("RootFile"),
        "install" if file.ends_with(".install") => Some("InstallManifest"),
        "tvfs" if file.ends_with(".bin") => Some("TvfsFile"),
        "tvfs" if file.ends_with(".blte") => Some("BlteFile"),
        "encoding" if file.ends_with(".bin") => Some("EncodingFile"),
        "patch_archive" if file.ends_with(".bin") => Some("PatchArchive"),
        "zbsdiff" if file.ends_with(".zbsdiff") => Some("ZbsDiff"),
        "download" if file.ends_with(".download") => Some("DownloadManifest"),
        "archive" if file.ends_with(".index") => Some("ArchiveIndex"),
        _ => None,
    }
}

/// (seeds, files found under the fixture root, files not attributed to a format)
pub fn load_fixtures() -> (Vec<Seed>, usize, Vec<String>) {
    let mut seeds = Vec::new();
    let mut unattributed = Vec::new();
    let mut found = 0usize;
    let mut dirs: Vec<_> = std::fs::read_dir(FIXTURE_ROOT).map(|rd| rd.flatten().map(|e| e.path()).collect()).unwrap_or_default();
    dirs.sort();
    for d in dirs {
        if !d.is_dir() {
            continue;
        }
        let dname = d.file_name().and_then(|s| s.to_str()).unwrap_or("").to_string();
        let mut files: Vec<_> = std::fs::read_dir(&d).map(|rd| rd.flatten().map(|e| e.path()).collect()).unwrap_or_default();
        files.sort();
        for f in files {
            let fname = f.file_name().and_then(|s| s.to_str()).unwrap_or("").to_string();
            let Ok(bytes) = std::fs::read(&f) else { continue };
            found += 1;
            if dname == "espec" && fname.ends_with(".json") {
                // JSON documents listing real ESpec strings: every string is one fixture
                if let Ok(v) = serde_json::from_slice::<serde_json::Value>(&bytes) {
                    let mut strings = Vec::new();
                    collect_especs(&v, &mut strings);
                    strings.sort();
                    strings.dedup();
                    for (i, s) in strings.into_iter().enumerate() {
                        seeds.push(Seed { format: "ESpec", name: format!("espec/{fname}#{i}"), bytes: s.into_bytes(), fixture: true });
                    }
                }
                continue;
            }
            match fixture_format(&dname, &fname) {
                Some(fm) => seeds.push(Seed { format: fm, name: format!("{dname}/{fname}"), bytes, fixture: true }),
                None => unattributed.push(format!("{dname}/{fname}")),
            }
        }
    }
    (seeds, found, unattributed)
}

fn collect_especs(v: &serde_json::Value, out: &mut Vec<String>) {
    match v {
        serde_json::Value::Object(m) => {
            for (k, x) in m {
                if k == "especs" || k == "all_representative" || k == "by_category" || k == "examples" {
                    collect_strings(x, out);
                } else {
                    collect_especs(x, out);
                }
            }
        }
        serde_json::Value::Array(a) => a.iter().for_each(|x| collect_especs(x, out)),
        _ => {}
    }
}

fn collect_strings(v: &serde_json::Value, out: &mut Vec<String>) {
    match v {
        serde_json::Value::String(s) => {
            // only strings that look like an ESpec (letter, optionally followed by ':')
            if s.len() == 1 || s.as_bytes().get(1) == Some(&b':') {
                out.push(s.clone());
            }
        }
        serde_json::Value::Array(a) => a.iter().for_each(|x| collect_strings(x, out)),
        serde_json::Value::Object(m) => m.values().for_each(|x| collect_strings(x, out)),
        _ => {}
    }
}

fn hexkey(rng: &mut Rng) -> String {
    hex::encode(rng.array::<16>())
}

pub fn encoding_value(rng: &mut Rng, n: usize, page_kb: u16, trailing: bool) -> Option<EncodingFile> {
    let mut b = EncodingBuilder::new().with_page_sizes(page_kb, page_kb);
    if trailing {
        b = b.with_trailing_espec("b:{22=n,*=z}".into());
    }
    for i in 0..n {
        let mut ek = rng.array::<16>();
        ek[0] |= 1; // never the all-zero key (read as page padding, see C03)
        let k2 = rng.array::<16>();
        let keys = if i % 3 == 0 { vec![EncodingKey::from_bytes(ek), EncodingKey::from_bytes(k2)] } else { vec![EncodingKey::from_bytes(ek)] };
        b.add_ckey_entry(CKeyEntryData { content_key: ContentKey::from_bytes(rng.array::<16>()), file_size: rng.below(1 << 40), encoding_keys: keys.clone() });
        for k in keys {
            b.add_ekey_entry(EKeyEntryData { encoding_key: k, espec: if i % 2 == 0 { "z".into() } else { "b:{256K*=z}".into() }, file_size: rng.below(1 << 40) });
        }
    }
    b.build().ok()
}

pub fn root_bytes(rng: &mut Rng, v: RootVersion, n: usize, named: bool) -> Option<Vec<u8>> {
    let mut b = RootBuilder::new(v);
    for i in 0..n {
        let blk = i % 2;
        let content = if named || v == RootVersion::V1 { ContentFlags::INSTALL * blk as u64 } else { ContentFlags::NO_NAME_HASH | (ContentFlags::INSTALL * blk as u64) };
        let locale = if blk == 0 { LocaleFlags::ENUS } else { LocaleFlags::DEDE | LocaleFlags::FRFR };
        let path = format!("World/Maps/File{i}.adt");
        b.add_file(FileDataId::new(100 + (i as u32) * 3), ContentKey::from_bytes(rng.array::<16>()), if named || v == RootVersion::V1 { Some(&path) } else { None }, LocaleFlags::new(locale), ContentFlags::new(content));
    }
    b.build().ok()
}

pub fn tvfs_bytes(rng: &mut Rng, flags: u32, n: usize) -> Option<Vec<u8>> {
    let mut b = TvfsBuilder::with_flags(flags);
    if flags & TVFS_FLAG_ENCODING_SPEC != 0 {
        b.add_est_spec("z".into());
        b.add_est_spec("b:{256K*=z}".into());
    }
    for i in 0..n {
        let p = format!("{}/{}/file_{i:03}.dat", ["data", "data2", "interface"][i % 3], ["a", "ab", "b"][i % 2]);
        if flags & TVFS_FLAG_ENCODING_SPEC != 0 {
            b.add_file_with_est(p, rng.array::<9>(), rng.next_u32(), rng.next_u32(), Some(rng.array::<16>()), (i % 2) as u32);
        } else {
            b.add_file(p, rng.array::<9>(), rng.next_u32(), rng.next_u32(), Some(rng.array::<16>()));
        }
    }
    b.build().ok()
}

pub fn install_value(rng: &mut Rng, n: usize) -> Option<cascette_formats::install::InstallManifest> {
    let mut b = InstallManifestBuilder::new().add_tag("Windows".into(), TagType::Platform).add_tag("enUS".into(), TagType::Locale).add_tag("x86_64".into(), TagType::Architecture);
    for i in 0..n {
        let tags: &[&str] = match i % 4 {
            0 => &["Windows"],
            1 => &["Windows", "enUS"],
            2 => &["x86_64", "enUS"],
            _ => &[],
        };
        b = b.add_file_with_tags(format!("Data/file_{i}.bin"), ContentKey::from_bytes(rng.array::<16>()), rng.next_u32(), tags).ok()?;
    }
    b.build().ok()
}

pub fn download_value(rng: &mut Rng, version: u8, n: usize) -> Option<cascette_formats::download::DownloadManifest> {
    let mut b = DownloadManifestBuilder::new(version).ok()?;
    if version >= 2 {
        b = b.with_flags(1).ok()?;
    }
    if version >= 3 {
        b = b.with_base_priority(-2).ok()?;
    }
    b = b.with_checksums(version != 2);
    b = b.add_tag("Windows".into(), TagType::Platform).add_tag("enUS".into(), TagType::Locale);
    for i in 0..n {
        b = b.add_file(EncodingKey::from_bytes(rng.array::<16>()), rng.below(1 << 40), (i % 5) as i8 - 1).ok()?;
        if i % 2 == 0 {
            b = b.associate_file_with_tag(i, "Windows").ok()?;
        }
        if i % 3 == 0 {
            b = b.associate_file_with_tag(i, "enUS").ok()?;
        }
        if version != 2 {
            b = b.set_file_checksum(i, rng.next_u32()).ok()?;
        }
        if version >= 2 {
            b = b.set_file_flags(i, vec![(i % 4) as u8]).ok()?;
        }
    }
    b.build().ok()
}

pub fn size_value(rng: &mut Rng, version: u8, n: usize) -> Option<cascette_formats::size::SizeManifest> {
    let mut b = SizeManifestBuilder::new().version(version).ekey_size(9);
    if version == 1 {
        b = b.esize_bytes(4);
    }
    b = b.add_tag("Windows".into(), TagType::Platform).add_tag("enUS".into(), TagType::Locale);
    for i in 0..n {
        b = b.add_entry(rng.bytes(9), u64::from(rng.next_u32() >> 4));
        if i % 2 == 0 {
            b = b.tag_file(0, i);
        }
        if i % 3 == 1 {
            b = b.tag_file(1, i);
        }
    }
    b.build().ok()
}

pub fn patch_archive_builder(rng: &mut Rng, n: usize, with_info: bool) -> PatchArchiveBuilder {
    let mut b = PatchArchiveBuilder::new();
    if with_info {
        b = b.encoding_info(PatchArchiveEncodingInfo { encoding_ckey: rng.array::<16>(), encoding_ekey: rng.array::<16>(), decoded_size: rng.next_u32(), encoded_size: rng.next_u32(), espec: "b:{22=n,*=z}".into() });
    }
    for i in 0..n {
        let patches = (0..1 + i % 3).map(|j| (rng.array::<16>(), rng.below(1 << 40), rng.array::<16>(), rng.next_u32(), (j + 1) as u8)).collect();
        b.add_file_entry(rng.array::<16>(), rng.below(1 << 40), patches);
    }
    b.sort_entries();
    b
}

pub fn patch_index_bytes(rng: &mut Rng, n: usize) -> Option<Vec<u8>> {
    let mut b = PatchIndexBuilder::new();
    for _ in 0..n {
        b.add_entry(PatchIndexEntry { source_ekey: rng.array::<16>(), source_size: rng.next_u32(), target_ekey: rng.array::<16>(), target_size: rng.next_u32(), encoded_size: rng.next_u32(), suffix_offset: rng.next_u32() as u8, patch_ekey: rng.array::<16>() });
    }
    b.build().ok()
}

pub fn archive_index_bytes(rng: &mut Rng, ks: u8, ob: u8, n: usize) -> Option<Vec<u8>> {
    let mut b = ArchiveIndexBuilder::with_config(ks, ob, 4);
    for _ in 0..n {
        let mut k = rng.bytes(ks as usize);
        k[0] |= 1;
        b.add_entry(k, rng.next_u32().max(1), u64::from(rng.next_u32()));
    }
    let mut c = Cursor::new(Vec::new());
    b.build(&mut c).ok()?;
    Some(c.into_inner())
}

pub fn archive_group_bytes(rng: &mut Rng, n: usize) -> Option<Vec<u8>> {
    let mut b = ArchiveGroupBuilder::new();
    for _ in 0..n {
        let mut k = rng.bytes(16);
        k[0] |= 1;
        b.add_entry(ArchiveGroupEntry::new(k, rng.next_u32() as u16, rng.next_u32(), rng.next_u32().max(1)));
    }
    let mut c = Cursor::new(Vec::new());
    b.build(&mut c).ok()?;
    Some(c.into_inner())
}

pub fn blte_values(rng: &mut Rng) -> Vec<(String, BlteFile)> {
    let mut v = Vec::new();
    let text: Vec<u8> = b"the quick brown fox jumps over the lazy dog ".iter().copied().cycle().take(3000).collect();
    if let Ok(f) = BlteFile::single_chunk(text.clone(), CompressionMode::None) {
        v.push(("single-N".into(), f));
    }
    if let Ok(f) = BlteFile::single_chunk(text.clone(), CompressionMode::ZLib) {
        v.push(("single-Z".into(), f));
    }
    let chunks: Vec<ChunkData> = [CompressionMode::None, CompressionMode::ZLib, CompressionMode::LZ4].iter().filter_map(|m| ChunkData::new(text[..500 + rng.urange(0, 500)].to_vec(), *m).ok()).collect();
    if let Ok(f) = BlteFile::multi_chunk(chunks) {
        v.push(("multi-NZ4".into(), f));
    }
    v
}

/// Small builder outputs and hand-written documents (deterministic in `seed`).
pub fn builder_seeds(seed: u64) -> Vec<Seed> {
    let mut rng = Rng::derive(seed, 0xC08_5EED);
    let mut v: Vec<Seed> = Vec::new();
    let mut push = |format: &'static str, name: &str, bytes: Option<Vec<u8>>| {
        if let Some(bytes) = bytes {
            v.push(Seed { format, name: format!("builder/{name}"), bytes, fixture: false });
        }
    };
    for (n, kb, tr) in [(3usize, 1u16, false), (40, 1, true), (120, 4, false)] {
        push("EncodingFile", &format!("encoding-n{n}-p{kb}"), encoding_value(&mut rng, n, kb, tr).and_then(|f| f.build().ok()));
    }
    for (ks, ob, n) in [(16u8, 4u8, 5usize), (16, 4, 171), (9, 4, 10), (16, 5, 10), (16, 6, 10), (4, 4, 300), (9, 4, 200), (9, 4, 241), (9, 5, 500), (16, 6, 341)] {
        push("ArchiveIndex", &format!("index-k{ks}-o{ob}-n{n}"), archive_index_bytes(&mut rng, ks, ob, n));
    }
    for n in [5usize, 158] {
        push("ArchiveGroup", &format!("group-n{n}"), archive_group_bytes(&mut rng, n));
    }
    for (vn, ver) in [("V1", RootVersion::V1), ("V2", RootVersion::V2), ("V3", RootVersion::V3), ("V4", RootVersion::V4)] {
        for (n, named) in [(5usize, true), (120, true), (120, false), (40, false)] {
            push("RootFile", &format!("root-{vn}-n{n}-named{named}"), root_bytes(&mut rng, ver, n, named));
        }
    }
    for flags in [TVFS_FLAG_INCLUDE_CKEY, 0, TVFS_FLAG_INCLUDE_CKEY | TVFS_FLAG_ENCODING_SPEC, TVFS_FLAG_INCLUDE_CKEY | TVFS_FLAG_PATCH_SUPPORT] {
        for n in [1usize, 13] {
            push("TvfsFile", &format!("tvfs-f{flags}-n{n}"), tvfs_bytes(&mut rng, flags, n));
        }
    }
    for n in [1usize, 9, 17] {
        push("InstallManifest", &format!("install-n{n}"), install_value(&mut rng, n).and_then(|m| m.build().ok()));
    }
    for ver in 1..=3u8 {
        for n in [1usize, 9] {
            push("DownloadManifest", &format!("download-v{ver}-n{n}"), download_value(&mut rng, ver, n).and_then(|m| m.build().ok()));
        }
    }
    for ver in 1..=2u8 {
        for n in [1usize, 9] {
            push("SizeManifest", &format!("size-v{ver}-n{n}"), size_value(&mut rng, ver, n).and_then(|m| m.build().ok()));
        }
    }
    for (n, info) in [(1usize, false), (7, true), (30, true)] {
        push("PatchArchive", &format!("pa-n{n}-info{info}"), patch_archive_builder(&mut rng, n, info).build().ok());
    }
    // blocks that are filled exactly / almost / just over (a single-patch entry serialises to 64 bytes:
    // 64 of them fill a 4 KiB block), one, two and three blocks
    for n in [63usize, 64, 65, 128, 129, 192] {
        let mut b = PatchArchiveBuilder::new().block_size_bits(12);
        for _ in 0..n {
            b.add_file_entry(rng.array::<16>(), rng.below(1 << 40), vec![(rng.array::<16>(), rng.below(1 << 40), rng.array::<16>(), rng.next_u32(), 1)]);
        }
        b.sort_entries();
        push("PatchArchive", &format!("pa-bits12-single-patch-n{n}"), b.build().ok());
    }
    for n in [1usize, 12] {
        push("PatchIndex", &format!("pi-n{n}"), patch_index_bytes(&mut rng, n));
    }
    let old = rng.bytes(600);
    let mut new = old.clone();
    for i in (0..new.len()).step_by(37) {
        new[i] ^= 0x5a;
    }
    new.extend_from_slice(b"appended tail");
    push("ZbsDiff", "zbsdiff-600", cascette_formats::zbsdiff::ZbsdiffBuilder::new(old.clone(), new.clone()).build().ok());
    push("ZbsDiff", "zbsdiff-simple", cascette_formats::zbsdiff::ZbsdiffBuilder::new(old[..100].to_vec(), new[..120].to_vec()).build_simple_patch().ok());
    for (name, f) in blte_values(&mut rng) {
        push("BlteFile", &format!("blte-{name}"), cascette_formats::CascFormat::build(&f).ok());
    }
    // hand-written documents for the text formats without a fixture
    let cdn = format!(
        "# CDN Configuration\n\narchives = {} {} {}\narchives-index-size = 1024 2048 4096\narchive-group = {}\npatch-archives = {}\npatch-archives-index-size = 512\nfile-index = {}\nfile-index-size = 77\nbuilds = {}\n",
        hexkey(&mut rng), hexkey(&mut rng), hexkey(&mut rng), hexkey(&mut rng), hexkey(&mut rng), hexkey(&mut rng), hexkey(&mut rng)
    );
    push("CdnConfig", "cdn-config", Some(cdn.into_bytes()));
    let patch = format!(
        "# Patch Configuration\npatch = {}\npatch-size = 12345\npatch-entry = encoding {} 1000 {} 900\npatch-entry = install {} 20 {} 10\nzzz-extra = value with spaces\n",
        hexkey(&mut rng), hexkey(&mut rng), hexkey(&mut rng), hexkey(&mut rng), hexkey(&mut rng)
    );
    push("PatchConfig", "patch-config", Some(patch.into_bytes()));
    let keyring = format!("key-{} = {}\nkey-{} = {}\n", hex::encode(rng.array::<8>()), hexkey(&mut rng), hex::encode(rng.array::<8>()), hexkey(&mut rng));
    push("KeyringConfig", "keyring", Some(keyring.into_bytes()));
    let build = format!(
        "# Build Configuration\n\nroot = {}\ninstall = {} {}\ninstall-size = 100 90\ndownload = {} {}\ndownload-size = 5 4\nencoding = {} {}\nencoding-size = 1000 900\nbuild-name = WOW-1test\nbuild-uid = wow\nvfs-root = {} {}\nvfs-1 = {} {}\n",
        hexkey(&mut rng), hexkey(&mut rng), hexkey(&mut rng), hexkey(&mut rng), hexkey(&mut rng), hexkey(&mut rng), hexkey(&mut rng), hexkey(&mut rng), hexkey(&mut rng), hexkey(&mut rng), hexkey(&mut rng)
    );
    push("BuildConfig", "build-config", Some(build.into_bytes()));
    let bpsv = "Region!STRING:0|BuildConfig!HEX:16|BuildId!DEC:4|VersionsName!String:0\n## seqn = 12345\nus|be2bb98dc28aee05bbee519393696cdb|61491|1.15.7.61491\neu|be2bb98dc28aee05bbee519393696cdb|61491|1.15.7.61491\nkr||0|\n";
    push("BpsvDocument", "bpsv-versions", Some(bpsv.as_bytes().to_vec()));
    let bpsv2 = "Name!STRING:0|Path!STRING:0|Hosts!STRING:0\nus|tpr/wow|level3.blizzard.com us.cdn.blizzard.com\n";
    push("BpsvDocument", "bpsv-cdns", Some(bpsv2.as_bytes().to_vec()));
    // rows whose cells are all empty (accepted by the reader in tables with two or more columns),
    // first / middle / last, and a table that consists of nothing else
    let bpsv3 = "Region!STRING:0|BuildConfig!HEX:16|BuildId!DEC:4\n||\nus|be2bb98dc28aee05bbee519393696cdb|1\n||\neu||2\n||\n";
    push("BpsvDocument", "bpsv-empty-rows", Some(bpsv3.as_bytes().to_vec()));
    let bpsv4 = "A!STRING:0|B!STRING:0\n|\n|\n";
    push("BpsvDocument", "bpsv-only-empty-rows", Some(bpsv4.as_bytes().to_vec()));
    let bpsv5 = "Name!STRING:0|Path!STRING:0\n## seqn = 7\nx|\n|y\n|\n";
    push("BpsvDocument", "bpsv-partly-empty-rows", Some(bpsv5.as_bytes().to_vec()));
    let product = r#"{"all":{"config":{"data_dir":"Data/","display_locales":["enUS","deDE"],"enable_block_copy_patch":true,"product":"wow","supported_locales":["enUS","deDE","frFR"],"supports_multibox":false,"update_method":"ngdp"}},"platform":{"win":{"config":{"binaries":{"game":{"relative_path":"Wow.exe"}}}}}}"#;
    push("ProductConfig", "product-config", Some(product.as_bytes().to_vec()));
    push("ProductConfig", "product-config-min", Some(br#"{"all":{"config":{}}}"#.to_vec()));
    for (i, s) in ["n", "z", "z:9", "z:{6,mpq}", "b:{256K*=z}", "b:{22=n,1K*3=z:{9,15},*=n}", "e:{0123456789abcdef,06fc152e,z}", "b:{16K*=e:{237DA26C65073F42,11223344,z},*=n}", "b:{0*2=z,*=n}", "b:{0*3=n,0*1=z:{6,mpq},*=n}", "b:{1*1=n,0=z,*=n}", "b:{4K*2=z,8K*=n}"].iter().enumerate() {
        push("ESpec", &format!("espec-{i}"), Some(s.as_bytes().to_vec()));
    }
    v
}
