//! Coverage-driven extension of C08: sub-checks that run on an ACCEPTED input `x` (after the main
//! parse-build-parse-build oracle found nothing) and judge
//!   * alternative entry points that do the same job as parse/build (`parse_blte`/`build_blte`, `load_from_blte`,
//!     `ArchiveIndex::write_to`, `ChunkedArchiveIndex::open`, `BpsvWriter`, `ProductConfig::build_compact`,
//!     `espec::parse` / `ESpec::validate`, `InstallManifest::verify_round_trip`, `RootHeader::write`/`read`),
//!   * the builder-as-mutator constructors (`from_encoding_file`, `from_archive_index`, `from_root_file`,
//!     `from_manifest` x2): the identity program must keep the logical content, the value it yields must parse
//!     back to itself, and a small edit program (remove one, add one) must yield exactly the model's content,
//!   * derived views (typed accessors / joins over the tables) which are functions of the logical content and
//!     therefore must agree between parse(x) and parse(build(parse(x))).
//! Every oracle is an identity or a reference set computed here from the public fields of parse(x).

use crate::fmts::dh;
use cascette_crypto::{ContentKey, EncodingKey, FileDataId};
use cascette_formats::CascFormat;
use serde_json::{Value, json};
use std::collections::BTreeMap;
use std::io::Cursor;
use std::panic::{AssertUnwindSafe, catch_unwind};

pub struct XViol {
    pub relation: &'static str,
    pub class: String,
    pub detail: Value,
}

#[derive(Default)]
pub struct Out {
    pub viols: Vec<XViol>,
    pub obs: BTreeMap<String, u64>,
}

impl Out {
    pub fn ob(&mut self, k: &str) {
        *self.obs.entry(format!("x.{k}")).or_insert(0) += 1;
    }
    fn v(&mut self, relation: &'static str, class: impl Into<String>, detail: Value) {
        self.viols.push(XViol { relation, class: class.into(), detail });
    }
}

fn ecls<E: std::fmt::Debug>(e: &E) -> String {
    crate::err_class(&format!("{e:?}"))
}

/// Run `f`; a panic inside it is a violation of `relation` at the panicking site.
fn guard(out: &mut Out, relation: &'static str, what: &str, f: impl FnOnce(&mut Out)) {
    let r = catch_unwind(AssertUnwindSafe(|| {
        let mut o = Out::default();
        f(&mut o);
        o
    }));
    match r {
        Ok(o) => {
            out.viols.extend(o.viols);
            for (k, v) in o.obs {
                *out.obs.entry(k).or_insert(0) += v;
            }
        }
        Err(_) => {
            let site = crate::take_panic();
            out.v(relation, format!("{what}:panic:{site}"), json!({"panic": site}));
        }
    }
}

/// First differing component of two projections.
fn first_diff(a: &[(&'static str, u64)], b: &[(&'static str, u64)]) -> Option<&'static str> {
    a.iter().zip(b).find(|(x, y)| x != y).map(|((n, _), _)| *n)
}

fn sorted<T: Ord>(mut v: Vec<T>) -> Vec<T> {
    v.sort();
    v
}

pub fn run(name: &str, x: &[u8], b1: &[u8], canonical: bool, out: &mut Out) {
    match name {
        "EncodingFile" => encoding(x, b1, canonical, out),
        "ArchiveIndex" => archive_index(x, b1, canonical, out),
        "RootFile" => root(x, b1, canonical, out),
        "InstallManifest" => install(x, b1, canonical, out),
        "DownloadManifest" => download(x, b1, canonical, out),
        "TvfsFile" => tvfs(x, b1, canonical, out),
        "PatchArchive" => patch_archive(x, b1, out),
        "PatchIndex" => patch_index(x, b1, out),
        "ZbsDiff" => zbsdiff(x, b1, canonical, out),
        "BuildConfig" => build_config(x, b1, out),
        "CdnConfig" => cdn_config(x, b1, out),
        "ProductConfig" => product_config(x, out),
        "BpsvDocument" => bpsv(x, b1, out),
        "ESpec" => espec(x, b1, out),
        "BlteFile" => blte(x, b1, canonical, out),
        "SizeManifest" => size(x, b1, out),
        "KeyringConfig" => keyring(x, b1, out),
        "PatchConfig" => patch_config(x, b1, out),
        _ => {}
    }
}

// ------------------------------------------------------------------------------------------------ encoding

type CkSet = Vec<([u8; 16], u64, Vec<[u8; 16]>)>;
type EkSet = Vec<([u8; 16], Option<String>, u64)>;

fn enc_sets(f: &cascette_formats::encoding::EncodingFile) -> (CkSet, EkSet) {
    let ck = f.ckey_pages.iter().flat_map(|p| p.entries.iter().map(|e| (*e.content_key.as_bytes(), e.file_size, e.encoding_keys.iter().map(|k| *k.as_bytes()).collect::<Vec<_>>()))).collect();
    let ek = f.ekey_pages.iter().flat_map(|p| p.entries.iter().map(|e| (*e.encoding_key.as_bytes(), f.espec_table.get(e.espec_index).map(str::to_string), e.file_size))).collect();
    (sorted(ck), sorted(ek))
}

fn encoding(x: &[u8], b1: &[u8], canonical: bool, out: &mut Out) {
    use crate::fmts::Fmt;
    use cascette_formats::encoding::{CKeyEntryData, EKeyEntryData, EncodingBuilder, EncodingFile};
    let Ok(p0) = EncodingFile::parse(x) else { return };
    // counts are functions of the pages
    guard(out, "derived-view-changed", "EncodingFile::counts", |o| {
        o.ob("encoding.counts");
        let (ck, ek) = enc_sets(&p0);
        if p0.ckey_count() != ck.len() || p0.ekey_count() != ek.len() {
            o.v("derived-view-changed", "ckey_count/ekey_count:differs-from-page-entries", json!({"ckey_count": p0.ckey_count(), "ckeys": ck.len(), "ekey_count": p0.ekey_count(), "ekeys": ek.len()}));
        }
    });
    // BLTE-wrapped writer / reader: same content, and the same plain serialisation (zlib over the whole file: every
    // canonical input, half of the sampled mutated ones)
    let heavy = canonical || (vh::fnv64(x) / 3) % 2 == 0;
    guard(out, "alt-entry-differs", "build_blte+parse_blte", |o| {
        if !heavy {
            return;
        }
        o.ob("encoding.build_blte+parse_blte");
        match p0.build_blte() {
            Err(e) => o.v("alt-entry-differs", format!("build_blte:fails:{}", ecls(&e)), json!({"error": format!("{e:?}")})),
            Ok(bl) => match EncodingFile::parse_blte(&bl) {
                Err(e) => o.v("alt-entry-differs", format!("parse_blte(build_blte):fails:{}", ecls(&e)), json!({"error": format!("{e:?}")})),
                Ok(q) => {
                    if let Some(c) = first_diff(&p0.project(&[]), &q.project(&[])) {
                        o.v("alt-entry-differs", format!("parse_blte(build_blte):content:{c}"), json!({"component": c}));
                    } else if q.build().ok().as_deref() != Some(b1) {
                        o.v("alt-entry-differs", "parse_blte(build_blte):rebuilds-to-other-bytes", json!({"b1_len": b1.len()}));
                    }
                }
            },
        }
    });
    // builder-as-mutator: identity program, then remove one + add one
    guard(out, "builder-rebuild-changed", "from_encoding_file", |o| {
        o.ob("encoding.from_encoding_file");
        let (ck0, ek0) = enc_sets(&p0);
        // the builder keys its output on the ESpec STRING: an entry whose ESpec index points outside the table has
        // no string to carry over (the statement does not say what the builder must do then)
        if ek0.iter().any(|e| e.1.is_none()) {
            o.ob("encoding.from_encoding_file.skipped_dangling_espec_index");
            return;
        }
        match EncodingBuilder::from_encoding_file(&p0).build() {
            Err(e) => {
                o.ob(&format!("encoding.from_encoding_file.err.{}", ecls(&e)));
                if canonical {
                    o.v("builder-rebuild-fails", format!("from_encoding_file:{}", ecls(&e)), json!({"error": format!("{e:?}")}));
                }
            }
            Ok(w) => {
                let (ck1, ek1) = enc_sets(&w);
                let comp = if ck1 != ck0 {
                    Some("ckey_entries")
                } else if ek1 != ek0 {
                    Some("ekey_entries")
                } else if w.trailing_espec != p0.trailing_espec {
                    Some("trailing_espec")
                } else if (w.header.ckey_page_size_kb, w.header.ekey_page_size_kb) != (p0.header.ckey_page_size_kb, p0.header.ekey_page_size_kb) {
                    Some("page_sizes")
                } else {
                    None
                };
                if let Some(c) = comp {
                    o.v("builder-rebuild-changed", format!("from_encoding_file:{c}"), json!({"component": c, "ckeys_in": ck0.len(), "ckeys_out": ck1.len(), "ekeys_in": ek0.len(), "ekeys_out": ek1.len()}));
                    return;
                }
                value_round_trip(o, "from_encoding_file", &w);
            }
        }
        // edit program
        let Some(victim) = ck0.first().map(|e| e.0) else { return };
        o.ob("encoding.builder_edit");
        let mut b = EncodingBuilder::from_encoding_file(&p0);
        let had = b.has_ckey_entry(&ContentKey::from_bytes(victim));
        let removed = b.remove_ckey_entry(&ContentKey::from_bytes(victim));
        let still = b.has_ckey_entry(&ContentKey::from_bytes(victim));
        if !had || !removed || still {
            o.v("builder-edit-wrong", "EncodingBuilder:remove_ckey_entry:has/remove-disagree-with-entries", json!({"had": had, "removed": removed, "still": still}));
            return;
        }
        let mut nk = [0xA5u8; 16];
        nk[15] = victim[15];
        let mut ne = [0x5Au8; 16];
        ne[0] = 0x01;
        let fresh_c = !ck0.iter().any(|e| e.0 == nk);
        let fresh_e = !ek0.iter().any(|e| e.0 == ne);
        if !(fresh_c && fresh_e) {
            return;
        }
        b.add_ckey_entry(CKeyEntryData { content_key: ContentKey::from_bytes(nk), file_size: 4242, encoding_keys: vec![EncodingKey::from_bytes(ne)] });
        b.add_ekey_entry(EKeyEntryData { encoding_key: EncodingKey::from_bytes(ne), espec: "n".into(), file_size: 4243 });
        let want_c = sorted(ck0.iter().filter(|e| e.0 != victim).cloned().chain([(nk, 4242, vec![ne])]).collect::<Vec<_>>());
        let want_e = sorted(ek0.iter().cloned().chain([(ne, Some("n".to_string()), 4243)]).collect::<Vec<_>>());
        if b.ckey_count() != want_c.len() || b.ekey_count() != want_e.len() {
            o.v("builder-edit-wrong", "EncodingBuilder:counts-differ-from-model", json!({"ckey_count": b.ckey_count(), "model": want_c.len()}));
            return;
        }
        match b.build() {
            Err(e) => o.ob(&format!("encoding.builder_edit.err.{}", ecls(&e))),
            Ok(w) => {
                let bytes = w.build().ok();
                let parsed = bytes.as_deref().and_then(|d| EncodingFile::parse(d).ok());
                match parsed {
                    None => o.v("builder-edit-wrong", "EncodingBuilder:edited-file-does-not-serialise-and-parse", json!({})),
                    Some(q) => {
                        let (c, e) = enc_sets(&q);
                        if c != want_c {
                            o.v("builder-edit-wrong", "EncodingBuilder:remove+add:ckey_entries-differ-from-model", json!({"got": c.len(), "model": want_c.len()}));
                        } else if e != want_e {
                            o.v("builder-edit-wrong", "EncodingBuilder:remove+add:ekey_entries-differ-from-model", json!({"got": e.len(), "model": want_e.len()}));
                        }
                    }
                }
            }
        }
    });
}

/// A value produced by a builder must parse back to the same logical content (the property's second sentence).
fn value_round_trip<F: crate::fmts::Fmt>(o: &mut Out, how: &str, w: &F) {
    match w.build_() {
        Err(e) => o.v("builder-rebuild-changed", format!("{how}:value-build-fails:{}", crate::err_class(&e)), json!({"error": e})),
        Ok(bytes) => match F::parse_(&bytes) {
            Err(e) => o.v("builder-rebuild-changed", format!("{how}:value-parse-fails:{}", crate::err_class(&e)), json!({"error": e})),
            Ok(q) => {
                let keys = if F::TEXT { crate::fmts::candidate_keys(&[&bytes]) } else { Vec::new() };
                if let Some(c) = first_diff(&w.project(&keys), &q.project(&keys)) {
                    o.v("builder-rebuild-changed", format!("{how}:value-reparse:{c}"), json!({"component": c}));
                }
            }
        },
    }
}

// ------------------------------------------------------------------------------------------------ archive index

fn idx_entries(i: &cascette_formats::archive::ArchiveIndex) -> Vec<(Vec<u8>, u32, u64)> {
    sorted(i.entries.iter().map(|e| (e.encoding_key.clone(), e.size, e.archive_index.map_or(e.offset, |a| (u64::from(a) << 32) | (e.offset & 0xffff_ffff)))).collect())
}

fn archive_index(x: &[u8], b1: &[u8], canonical: bool, out: &mut Out) {
    use cascette_formats::archive::{ArchiveIndex, ArchiveIndexBuilder, ChunkedArchiveIndex};
    let Ok(p0) = ArchiveIndex::parse(Cursor::new(x)) else { return };
    let e0 = idx_entries(&p0);
    let f = &p0.footer;
    guard(out, "derived-view-changed", "ArchiveIndex::counts", |o| {
        o.ob("archive_index.counts");
        if p0.entry_count() != p0.entries.len() || p0.chunk_count() != p0.toc.len() {
            o.v("derived-view-changed", "entry_count/chunk_count:differs-from-fields", json!({}));
        }
    });
    // the second public writer
    guard(out, "alt-entry-differs", "write_to", |o| {
        o.ob("archive_index.write_to");
        let mut c = Cursor::new(Vec::new());
        match p0.write_to(&mut c) {
            Err(e) => o.v("alt-entry-differs", format!("write_to:fails:{}", ecls(&e)), json!({"error": format!("{e:?}")})),
            Ok(()) => {
                let bytes = c.into_inner();
                let layout = format!("key{}-offset{}-page{}K", if f.ekey_length == 16 { "16".to_string() } else { "!=16".to_string() }, f.offset_bytes, if f.page_size_kb == 4 { "4".to_string() } else { "!=4".to_string() });
                match ArchiveIndex::parse(Cursor::new(&bytes)) {
                    Err(e) => o.v("alt-entry-differs", format!("write_to:output-rejected:{}:{layout}", ecls(&e)), json!({"error": format!("{e:?}"), "out_len": bytes.len(), "b1_len": b1.len()})),
                    Ok(q) => {
                        if idx_entries(&q) != e0 {
                            o.v("alt-entry-differs", format!("write_to:content:entries:{layout}"), json!({"in": e0.len(), "out": q.entries.len()}));
                        }
                    }
                }
            }
        }
    });
    // file-based loader of the same format (documented for the standard 16/4/4 layout with 4 KiB pages)
    if canonical && f.ekey_length == 16 && f.offset_bytes == 4 && f.size_bytes == 4 && f.page_size_kb == 4 {
        guard(out, "alt-entry-differs", "ChunkedArchiveIndex::open", |o| {
            let Ok(dir) = tempfile::tempdir() else { return };
            let path = dir.path().join("x.index");
            if std::fs::write(&path, b1).is_err() {
                return;
            }
            o.ob("archive_index.chunked_open");
            match ChunkedArchiveIndex::open(&path) {
                Err(e) => o.v("alt-entry-differs", format!("ChunkedArchiveIndex::open:fails:{}", ecls(&e)), json!({"error": format!("{e:?}")})),
                Ok(mut ch) => {
                    let n = p0.entries.len();
                    for i in [0, n / 2, n.saturating_sub(1)] {
                        let Some(e) = p0.entries.get(i) else { continue };
                        // keys occurring twice: either record may be returned
                        if p0.entries.iter().filter(|o2| o2.encoding_key == e.encoding_key).count() != 1 {
                            continue;
                        }
                        o.ob("archive_index.chunked_find_entry");
                        match ch.find_entry(&e.encoding_key) {
                            Ok(Some(g)) if g.size == e.size && g.offset == e.offset => {}
                            Ok(g) => {
                                o.v("alt-entry-differs", "ChunkedArchiveIndex::find_entry:differs-from-parsed-entry", json!({"index": i, "found": g.is_some()}));
                                break;
                            }
                            Err(er) => {
                                o.v("alt-entry-differs", format!("ChunkedArchiveIndex::find_entry:fails:{}", ecls(&er)), json!({"index": i}));
                                break;
                            }
                        }
                    }
                }
            }
        });
    }
    guard(out, "builder-rebuild-changed", "from_archive_index", |o| {
        o.ob("archive_index.from_archive_index");
        let mut c = Cursor::new(Vec::new());
        match ArchiveIndexBuilder::from_archive_index(&p0).build(&mut c) {
            Err(e) => {
                o.ob(&format!("archive_index.from_archive_index.err.{}", ecls(&e)));
                if canonical {
                    o.v("builder-rebuild-fails", format!("from_archive_index:{}", ecls(&e)), json!({"error": format!("{e:?}")}));
                }
            }
            Ok(w) => {
                let comp = if idx_entries(&w) != e0 {
                    Some("entries")
                } else if (w.footer.ekey_length, w.footer.offset_bytes, w.footer.size_bytes) != (f.ekey_length, f.offset_bytes, f.size_bytes) {
                    Some("footer_format")
                } else {
                    None
                };
                if let Some(cn) = comp {
                    o.v("builder-rebuild-changed", format!("from_archive_index:{cn}"), json!({"component": cn}));
                    return;
                }
                // the bytes the builder wrote are the serialisation of the value it returned
                match ArchiveIndex::parse(Cursor::new(c.get_ref())) {
                    Err(e) => o.v("builder-rebuild-changed", format!("from_archive_index:written-bytes-rejected:{}", ecls(&e)), json!({"error": format!("{e:?}")})),
                    Ok(q) => {
                        if idx_entries(&q) != e0 {
                            o.v("builder-rebuild-changed", "from_archive_index:written-bytes:entries", json!({}));
                        }
                    }
                }
            }
        }
        // edit program (exact-length keys: prefix matching of remove_entry/has_entry is equality then)
        let Some(victim) = p0.entries.first().map(|e| e.encoding_key.clone()) else { return };
        if f.offset_bytes == 6 {
            return; // archive-group entries carry (archive, offset) pairs the plain add_entry cannot express
        }
        o.ob("archive_index.builder_edit");
        let mut b = ArchiveIndexBuilder::from_archive_index(&p0);
        let had = b.has_entry(&victim);
        let found = b.find_entry(&victim).map(|e| e.encoding_key.clone());
        let removed = b.remove_entry(&victim);
        if !had || !removed || b.has_entry(&victim) || found.as_deref() != Some(victim.as_slice()) {
            o.v("builder-edit-wrong", "ArchiveIndexBuilder:remove_entry:has/find/remove-disagree-with-entries", json!({"had": had, "removed": removed}));
            return;
        }
        let mut nk = vec![0xEEu8; victim.len()];
        if let Some(l) = nk.last_mut() {
            *l = 0x01;
        }
        if e0.iter().any(|e| e.0 == nk) {
            return;
        }
        let max_off = if f.offset_bytes >= 5 { 0xff_ffff_ffffu64 } else { 0xffff_ffff };
        b.add_entry(nk.clone(), 77, 0x1234_5678 & max_off);
        let want = sorted(e0.iter().filter(|e| e.0 != victim).cloned().chain([(nk, 77, 0x1234_5678 & max_off)]).collect::<Vec<_>>());
        if b.len() != want.len() || b.is_empty() != want.is_empty() {
            o.v("builder-edit-wrong", "ArchiveIndexBuilder:len-differs-from-model", json!({"len": b.len(), "model": want.len()}));
            return;
        }
        let mut c = Cursor::new(Vec::new());
        match b.build(&mut c) {
            Err(e) => o.ob(&format!("archive_index.builder_edit.err.{}", ecls(&e))),
            Ok(_) => match ArchiveIndex::parse(Cursor::new(c.get_ref())) {
                Err(e) => o.v("builder-edit-wrong", format!("ArchiveIndexBuilder:remove+add:output-rejected:{}", ecls(&e)), json!({"error": format!("{e:?}")})),
                Ok(q) => {
                    if idx_entries(&q) != want {
                        o.v("builder-edit-wrong", "ArchiveIndexBuilder:remove+add:entries-differ-from-model", json!({"got": q.entries.len(), "model": want.len()}));
                    }
                }
            },
        }
    });
}

// ------------------------------------------------------------------------------------------------ root

type Rec = (u32, u64, u32, [u8; 16], Option<u64>);

fn root_records(r: &cascette_formats::root::RootFile) -> Vec<Rec> {
    sorted(r.blocks.iter().flat_map(|b| b.records.iter().map(move |x| (b.locale_flags().value(), b.content_flags().value, x.file_data_id.get(), *x.content_key.as_bytes(), x.name_hash))).collect())
}

fn root(x: &[u8], _b1: &[u8], canonical: bool, out: &mut Out) {
    use cascette_formats::root::{ContentFlags, LocaleFlags, RootBuilder, RootFile, RootHeader};
    let Ok(p0) = RootFile::parse(x) else { return };
    let r0 = root_records(&p0);
    // header reader / writer pair (keeps magic and endianness: the only writer of MFST headers)
    if let Some(h) = &p0.header {
        guard(out, "alt-entry-differs", "RootHeader::write+read", |o| {
            o.ob(if h.magic().is_little_endian() { "root.header_write_read.tsfm" } else { "root.header_write_read.mfst" });
            let mut c = Cursor::new(Vec::new());
            match h.write(&mut c) {
                Err(e) => o.v("alt-entry-differs", format!("RootHeader::write:fails:{}", ecls(&e)), json!({})),
                Ok(()) => {
                    let bytes = c.into_inner();
                    let mut rd = Cursor::new(&bytes);
                    match RootHeader::read(&mut rd, p0.version) {
                        Err(e) => o.v("alt-entry-differs", format!("RootHeader::read(write):fails:{}", ecls(&e)), json!({"header": format!("{h:?}")})),
                        Ok(h2) => {
                            // bytes beyond the first padding word of an over-long header are not kept: compare what is
                            let same = match (h, &h2) {
                                (RootHeader::V3V4 { magic: m1, version: v1, info: i1, .. }, RootHeader::V3V4 { magic: m2, version: v2, info: i2, .. }) => m1 == m2 && v1 == v2 && i1 == i2,
                                (a, b) => a == b,
                            };
                            if !same {
                                o.v("alt-entry-differs", "RootHeader::read(write):header-differs", json!({"before": format!("{h:?}"), "after": format!("{h2:?}")}));
                            } else if rd.position() as usize != bytes.len() {
                                // the blocks follow the header directly: the reader must consume exactly what the writer wrote
                                o.v("alt-entry-differs", "RootHeader::read(write):consumes-other-length-than-written", json!({"header": format!("{h:?}"), "written": bytes.len(), "consumed": rd.position()}));
                            }
                        }
                    }
                }
            }
        });
    }
    guard(out, "builder-rebuild-changed", "from_root_file", |o| {
        o.ob("root.from_root_file");
        match RootBuilder::from_root_file(&p0).build() {
            Err(e) => {
                o.ob(&format!("root.from_root_file.err.{}", ecls(&e)));
                if canonical {
                    o.v("builder-rebuild-fails", format!("from_root_file:{}", ecls(&e)), json!({"error": format!("{e:?}")}));
                }
            }
            Ok(bytes) => match RootFile::parse(&bytes) {
                Err(e) => o.v("builder-rebuild-changed", format!("from_root_file:output-rejected:{}", ecls(&e)), json!({"error": format!("{e:?}")})),
                Ok(q) => {
                    if q.version != p0.version {
                        o.v("builder-rebuild-changed", "from_root_file:version", json!({"in": format!("{:?}", p0.version), "out": format!("{:?}", q.version)}));
                    } else if root_records(&q) != r0 {
                        o.v("builder-rebuild-changed", "from_root_file:records", json!({"in": r0.len(), "out": q.blocks.iter().map(|b| b.records.len()).sum::<usize>()}));
                    }
                }
            },
        }
        // edit program: remove one FileDataID everywhere, add one record to an existing block
        let Some(&(loc, con, victim, _, nh)) = r0.first() else { return };
        o.ob("root.builder_edit");
        let mut b = RootBuilder::from_root_file(&p0);
        let fd = FileDataId::new(victim);
        let had = b.has_file(fd);
        let found = b.find_file(fd).is_some();
        let removed = b.remove_file(fd);
        if !had || !found || !removed || b.has_file(fd) {
            o.v("builder-edit-wrong", "RootBuilder:remove_file:has/find/remove-disagree-with-records", json!({"had": had, "found": found, "removed": removed}));
            return;
        }
        let new_id = r0.iter().map(|r| r.2).max().unwrap_or(0).wrapping_add(7);
        if new_id < 7 {
            return;
        }
        let nck = [0xC3u8; 16];
        // name hash present exactly when the victim's block had one (the block format decides, not the record)
        let new_hash = nh.map(|_| 0x0123_4567_89ab_cdefu64);
        b.add_file_with_hash(FileDataId::new(new_id), ContentKey::from_bytes(nck), new_hash, LocaleFlags::new(loc), ContentFlags::new(con));
        let want = sorted(r0.iter().filter(|r| r.2 != victim).copied().chain([(loc, con, new_id, nck, new_hash)]).collect::<Vec<_>>());
        if crate::values::v2_header_ambiguous(p0.version, want.len(), want.iter().filter(|r| r.4.is_some()).count()) {
            // classic V2 header whose counts read as an extended header: judged (and listed) by the root builder programs
            o.ob("root.builder_edit.skipped_v2_counts_in_extended_header_window");
            return;
        }
        if b.file_count() != want.len() {
            o.v("builder-edit-wrong", "RootBuilder:file_count-differs-from-model", json!({"file_count": b.file_count(), "model": want.len()}));
            return;
        }
        match b.build() {
            Err(e) => o.ob(&format!("root.builder_edit.err.{}", ecls(&e))),
            Ok(bytes) => match RootFile::parse(&bytes) {
                r if std::env::var("C08_DUMP").is_ok_and(|d| std::fs::write(format!("{d}/root-edit.bin"), &bytes).is_err() || std::fs::write(format!("{d}/root-edit.txt"), format!("{r:#?}")).is_err()) => {}
                Err(e) => o.v("builder-edit-wrong", format!("RootBuilder:remove+add:output-rejected:{}", ecls(&e)), json!({"error": format!("{e:?}"), "victim": victim, "new_id": new_id})),
                Ok(q) => {
                    if root_records(&q) != want {
                        o.v("builder-edit-wrong", "RootBuilder:remove+add:records-differ-from-model", json!({"got": root_records(&q).len(), "model": want.len()}));
                    }
                }
            },
        }
    });
}

// ------------------------------------------------------------------------------------------------ install / download

/// (entry rendering, names of the tags that select it) per file, in file order
fn tagged<E: std::fmt::Debug>(entries: &[E], tags: &[cascette_formats::install::InstallTag]) -> Vec<(String, Vec<String>)> {
    entries.iter().enumerate().map(|(i, e)| (format!("{e:?}"), tags.iter().filter(|t| t.has_file(i)).map(|t| t.name.clone()).collect())).collect()
}

fn install(x: &[u8], b1: &[u8], canonical: bool, out: &mut Out) {
    use cascette_formats::install::{InstallManifest, InstallManifestBuilder};
    let Ok(p0) = InstallManifest::parse(x) else { return };
    guard(out, "verify_round_trip-disagrees", "InstallManifest::verify_round_trip", |o| {
        o.ob("install.inherent_verify_round_trip");
        let says = InstallManifest::verify_round_trip(x).is_ok();
        if says != (b1 == x) {
            o.v("verify_round_trip-disagrees", if says { "inherent:ok-but-rebuild-differs" } else { "inherent:err-but-rebuild-identical" }, json!({}));
        }
    });
    let t0 = tagged(&p0.entries, &p0.tags);
    let tags0: Vec<(String, String)> = p0.tags.iter().map(|t| (t.name.clone(), format!("{:?}", t.tag_type))).collect();
    guard(out, "builder-rebuild-changed", "InstallManifestBuilder::from_manifest", |o| {
        o.ob("install.from_manifest");
        let v2 = p0.header.version != 1;
        // one defect, one class: the builder has no notion of the version-2 layout (16-byte header, a file-type byte
        // per entry); whatever goes wrong with a version-2 manifest is reported under this class
        let cls = |generic: String| if v2 { "InstallManifestBuilder::from_manifest:version-2-manifest-rebuilt-with-version-1-header".to_string() } else { generic };
        if v2 {
            o.ob("install.from_manifest.v2_input");
        }
        match InstallManifestBuilder::from_manifest(&p0).build() {
            Err(e) => {
                o.ob(&format!("install.from_manifest.err.{}", ecls(&e)));
                if canonical {
                    o.v("builder-rebuild-fails", cls(format!("InstallManifestBuilder::from_manifest:{}", ecls(&e))), json!({"error": format!("{e:?}")}));
                }
            }
            Ok(w) => {
                let tw: Vec<(String, String)> = w.tags.iter().map(|t| (t.name.clone(), format!("{:?}", t.tag_type))).collect();
                if tagged(&w.entries, &w.tags) != t0 {
                    o.v("builder-rebuild-changed", cls("InstallManifestBuilder::from_manifest:entries-or-tag-membership".into()), json!({}));
                    return;
                } else if tw != tags0 {
                    o.v("builder-rebuild-changed", cls("InstallManifestBuilder::from_manifest:tags".into()), json!({}));
                    return;
                }
                let mut o2 = Out::default();
                value_round_trip(&mut o2, "InstallManifestBuilder::from_manifest", &w);
                for v in o2.viols {
                    o.v(v.relation, cls(v.class), json!({"what": v.detail, "input_version": p0.header.version, "rebuilt_version": w.header.version}));
                }
            }
        }
        if v2 {
            return;
        }
        if p0.entries.is_empty() {
            return;
        }
        o.ob("install.builder_edit");
        let victim = p0.entries.len() / 2;
        let Ok(b) = InstallManifestBuilder::from_manifest(&p0).remove_file(victim) else {
            o.v("builder-edit-wrong", "InstallManifestBuilder:remove_file:refuses-valid-index", json!({"index": victim}));
            return;
        };
        let b = b.add_file("c08\\added.bin".into(), ContentKey::from_bytes([0x77; 16]), 99);
        let mut want = t0.clone();
        want.remove(victim);
        want.push((format!("{:?}", cascette_formats::install::InstallFileEntry::new("c08\\added.bin".into(), ContentKey::from_bytes([0x77; 16]), 99)), Vec::new()));
        match b.build() {
            Err(e) => o.ob(&format!("install.builder_edit.err.{}", ecls(&e))),
            Ok(w) => match w.build().ok().and_then(|d| InstallManifest::parse(&d).ok()) {
                None => o.v("builder-edit-wrong", "InstallManifestBuilder:remove+add:value-does-not-serialise-and-parse", json!({})),
                Some(q) => {
                    // duplicate tag names make "the tags that select a file" ambiguous by name: compare by position then
                    if tagged(&q.entries, &q.tags) != want {
                        o.v("builder-edit-wrong", "InstallManifestBuilder:remove+add:entries-or-tag-membership-differ-from-model", json!({"removed_index": victim, "entries": p0.entries.len()}));
                    }
                }
            },
        }
    });
}

fn download(x: &[u8], _b1: &[u8], canonical: bool, out: &mut Out) {
    use cascette_formats::download::{DownloadManifest, DownloadManifestBuilder};
    let Ok(p0) = DownloadManifest::parse(x) else { return };
    let t0 = tagged(&p0.entries, &p0.tags);
    let hdr0 = (p0.header.version(), p0.header.has_checksum(), p0.header.flag_size(), p0.header.base_priority());
    guard(out, "builder-rebuild-changed", "DownloadManifestBuilder::from_manifest", |o| {
        o.ob("download.from_manifest");
        match DownloadManifestBuilder::from_manifest(&p0).build() {
            Err(e) => {
                o.ob(&format!("download.from_manifest.err.{}", ecls(&e)));
                if canonical {
                    o.v("builder-rebuild-fails", format!("DownloadManifestBuilder::from_manifest:{}", ecls(&e)), json!({"error": format!("{e:?}")}));
                }
            }
            Ok(w) => {
                let hw = (w.header.version(), w.header.has_checksum(), w.header.flag_size(), w.header.base_priority());
                if tagged(&w.entries, &w.tags) != t0 {
                    o.v("builder-rebuild-changed", "DownloadManifestBuilder::from_manifest:entries-or-tag-membership", json!({}));
                    return;
                } else if hw != hdr0 {
                    o.v("builder-rebuild-changed", "DownloadManifestBuilder::from_manifest:header(version,checksum,flag_size,base_priority)", json!({"in": format!("{hdr0:?}"), "out": format!("{hw:?}")}));
                    return;
                }
                value_round_trip(o, "DownloadManifestBuilder::from_manifest", &w);
            }
        }
        if p0.entries.is_empty() {
            return;
        }
        o.ob("download.builder_edit");
        let victim = p0.entries.len() / 2;
        let mut b = DownloadManifestBuilder::from_manifest(&p0);
        let key = p0.entries[victim].encoding_key;
        if !b.has_file(&key) || !b.remove_file(victim) {
            o.v("builder-edit-wrong", "DownloadManifestBuilder:remove_file:refuses-valid-index", json!({"index": victim}));
            return;
        }
        let mut want = t0.clone();
        want.remove(victim);
        if b.entry_count() != want.len() {
            o.v("builder-edit-wrong", "DownloadManifestBuilder:entry_count-differs-from-model", json!({}));
            return;
        }
        match b.build() {
            Err(e) => o.ob(&format!("download.builder_edit.err.{}", ecls(&e))),
            Ok(w) => match w.build().ok().and_then(|d| DownloadManifest::parse(&d).ok()) {
                None => o.v("builder-edit-wrong", "DownloadManifestBuilder:remove_file:value-does-not-serialise-and-parse", json!({})),
                Some(q) => {
                    if tagged(&q.entries, &q.tags) != want {
                        o.v("builder-edit-wrong", "DownloadManifestBuilder:remove_file:entries-or-tag-membership-differ-from-model", json!({"removed_index": victim, "entries": p0.entries.len()}));
                    }
                }
            },
        }
    });
}

fn size(x: &[u8], b1: &[u8], out: &mut Out) {
    use cascette_formats::size::SizeManifest;
    let (Ok(p0), Ok(p1)) = (SizeManifest::parse(x), SizeManifest::parse(b1)) else { return };
    guard(out, "derived-view-changed", "SizeManifest", |o| {
        o.ob("size.views");
        let v = |m: &SizeManifest| dh(&tagged(&m.entries, &m.tags));
        if v(&p0) != v(&p1) {
            o.v("derived-view-changed", "SizeManifest:tag-membership-per-entry", json!({}));
        }
    });
}

// ------------------------------------------------------------------------------------------------ tvfs

fn tvfs_view(t: &cascette_formats::tvfs::TvfsFile) -> u64 {
    let files: Vec<(String, Option<String>)> = t.enumerate_files().map(|(f, v)| (format!("{f:?}"), v.map(|v| format!("{:?}", v.spans)))).collect();
    let resolved: Vec<Option<(Vec<u8>, u32, Option<Vec<u8>>)>> = t.path_table.files.iter().map(|f| t.resolve_path(&f.path).map(|c| (c.ekey.clone(), c.encoded_size, c.content_key.clone()))).collect();
    dh(&(files, resolved))
}

fn tvfs(x: &[u8], b1: &[u8], canonical: bool, out: &mut Out) {
    use crate::fmts::Fmt;
    use cascette_formats::blte::{BlteFile, CompressionMode};
    use cascette_formats::tvfs::TvfsFile;
    let (Ok(p0), Ok(p1)) = (TvfsFile::parse(x), TvfsFile::parse(b1)) else { return };
    guard(out, "derived-view-changed", "TvfsFile", |o| {
        o.ob("tvfs.views");
        if tvfs_view(&p0) != tvfs_view(&p1) {
            o.v("derived-view-changed", "TvfsFile:enumerate_files/resolve_path", json!({"files": p0.path_table.files.len()}));
        }
    });
    let heavy = canonical || (vh::fnv64(x) / 3) % 2 == 0;
    guard(out, "alt-entry-differs", "load_from_blte", |o| {
        if !heavy {
            return;
        }
        // the loader must see through any BLTE framing of the same bytes
        let framed = [("single-zlib", BlteFile::single_chunk(x.to_vec(), CompressionMode::ZLib)), ("multi-none", BlteFile::compress(x, (x.len() / 3).max(1), CompressionMode::None)), ("multi-lz4", BlteFile::compress(x, (x.len() / 2).max(1), CompressionMode::LZ4))];
        for (how, f) in framed {
            let Ok(f) = f else { continue };
            let Ok(bytes) = CascFormat::build(&f) else { continue };
            o.ob(&format!("tvfs.load_from_blte.{how}"));
            match TvfsFile::load_from_blte(&bytes) {
                Err(e) => o.v("alt-entry-differs", format!("load_from_blte:fails:{}", ecls(&e)), json!({"framing": how, "error": format!("{e:?}")})),
                Ok(q) => {
                    if let Some(c) = first_diff(&p0.project(&[]), &q.project(&[])) {
                        o.v("alt-entry-differs", format!("load_from_blte:content:{c}"), json!({"framing": how}));
                    } else if q.build().ok().as_deref() != Some(b1) {
                        o.v("alt-entry-differs", "load_from_blte:rebuilds-to-other-bytes", json!({"framing": how}));
                    }
                }
            }
        }
    });
}

// ------------------------------------------------------------------------------------------------ patch archive / index / zbsdiff / blte

fn patch_archive(x: &[u8], b1: &[u8], out: &mut Out) {
    use cascette_formats::patch_archive::PatchArchive;
    let (Ok(p0), Ok(p1)) = (<PatchArchive as CascFormat>::parse(x), <PatchArchive as CascFormat>::parse(b1)) else { return };
    guard(out, "derived-view-changed", "PatchArchive", |o| {
        o.ob("patch_archive.views");
        let view = |p: &PatchArchive| {
            let flat = sorted(p.flatten_entries().iter().map(|e| format!("{e:?}")).collect::<Vec<_>>());
            let per_target = sorted(p.all_file_entries().map(|e| (e.target_ckey, p.find_patches_for_target(&e.target_ckey).is_some(), e.patches.first().map(|f| p.find_patches_from_source(&f.source_ekey).len()))).collect::<Vec<_>>());
            (p.total_file_entries(), dh(&flat), dh(&per_target))
        };
        let (a, b) = (view(&p0), view(&p1));
        if a.0 != b.0 {
            o.v("derived-view-changed", "PatchArchive:total_file_entries", json!({"in": a.0, "out": b.0}));
        } else if a.1 != b.1 {
            o.v("derived-view-changed", "PatchArchive:flatten_entries", json!({}));
        } else if a.2 != b.2 {
            o.v("derived-view-changed", "PatchArchive:find_patches_for_target/from_source", json!({}));
        }
        if a.0 != p0.blocks.iter().map(|b| b.file_entries.len()).sum::<usize>() {
            o.v("derived-view-changed", "PatchArchive:total_file_entries:differs-from-blocks", json!({}));
        }
        // what the writer produced is a well-formed archive: the header region the value describes is present
        // and hashes consistently, and its block table is ordered
        if p1.header_region_size() > b1.len() {
            o.v("derived-view-changed", "PatchArchive:header_region_size:beyond-own-serialisation", json!({"region": p1.header_region_size(), "len": b1.len()}));
        } else if let Ok(h) = p1.compute_header_hash(b1) {
            if p1.verify_header_hash(b1, &h).is_err() {
                o.v("derived-view-changed", "PatchArchive:verify_header_hash:rejects-compute_header_hash", json!({}));
            }
        }
        if let Err(e) = p1.validate_block_sort_order() {
            o.v("derived-view-changed", format!("PatchArchive:rebuilt-archive-block-table-unsorted:{}", ecls(&e)), json!({}));
        }
    });
}

fn patch_index(x: &[u8], b1: &[u8], out: &mut Out) {
    use cascette_formats::patch_index::PatchIndex;
    let (Ok(p0), Ok(p1)) = (<PatchIndex as CascFormat>::parse(x), <PatchIndex as CascFormat>::parse(b1)) else { return };
    guard(out, "derived-view-changed", "PatchIndex", |o| {
        o.ob("patch_index.views");
        let view = |p: &PatchIndex| {
            let probes: Vec<_> = p.entries.iter().take(16).map(|e| (p.find_by_patch_ekey(&e.patch_ekey).len(), p.find_by_source_ekey(&e.source_ekey).len(), p.find_by_target_ekey(&e.target_ekey).len())).collect();
            (p.unique_patch_ekeys(), probes)
        };
        if view(&p0) != view(&p1) {
            o.v("derived-view-changed", "PatchIndex:unique_patch_ekeys/find_by_*", json!({}));
        }
    });
}

fn zbsdiff(x: &[u8], b1: &[u8], canonical: bool, out: &mut Out) {
    use cascette_formats::zbsdiff::ZbsDiff;
    let (Ok(p0), Ok(p1)) = (<ZbsDiff as CascFormat>::parse(x), <ZbsDiff as CascFormat>::parse(b1)) else { return };
    // decompressed views only for small patches (decompression limits are C16's subject)
    if x.len() > if canonical { 1 << 20 } else { 8192 } {
        return;
    }
    guard(out, "derived-view-changed", "ZbsDiff", |o| {
        o.ob("zbsdiff.views");
        let view = |p: &ZbsDiff| (p.output_size(), p.control_block().ok().map(|c| format!("{c:?}")), p.diff_data().ok(), p.extra_data().ok());
        if view(&p0) != view(&p1) {
            o.v("derived-view-changed", "ZbsDiff:output_size/control_block/diff_data/extra_data", json!({}));
        }
    });
}

fn blte(x: &[u8], b1: &[u8], canonical: bool, out: &mut Out) {
    use cascette_formats::blte::BlteFile;
    // decoding limits are C01's / C02's subject: small inputs only
    if x.len() > if canonical { 1 << 20 } else { 8192 } {
        return;
    }
    let (Ok(p0), Ok(p1)) = (<BlteFile as CascFormat>::parse(x), <BlteFile as CascFormat>::parse(b1)) else { return };
    guard(out, "derived-view-changed", "BlteFile", |o| {
        // payload view: what the container decodes to (Err classes included) is a function of header + chunks
        let a = p0.decompress().map_err(|e| ecls(&e));
        let b = p1.decompress().map_err(|e| ecls(&e));
        o.ob(if a.is_ok() { "blte.decompress_view.ok" } else { "blte.decompress_view.err" });
        if a != b {
            o.v("derived-view-changed", "BlteFile:decompress", json!({"in_ok": a.is_ok(), "out_ok": b.is_ok()}));
        }
    });
}

// ------------------------------------------------------------------------------------------------ text formats

fn build_config_view(c: &cascette_formats::config::BuildConfig) -> Vec<(&'static str, u64)> {
    vec![
        ("root", dh(&c.root())),
        ("encoding", dh(&(c.encoding(), c.encoding_key()))),
        ("install", dh(&c.install())),
        ("download", dh(&c.download())),
        ("patch", dh(&(c.patch(), c.patch_config(), c.patch_index()))),
        ("build-name/uid/product", dh(&(c.build_name(), c.build_uid(), c.build_product()))),
        ("size", dh(&c.size())),
        ("vfs", dh(&(c.vfs_root(), c.vfs_root_espec(), c.vfs_entries(), (0..4).map(|i| c.vfs_espec(i).map(str::to_string)).collect::<Vec<_>>()))),
        ("build-misc", dh(&(c.build_playtime_url(), c.build_product_espec(), c.build_file_db(), c.client_version(), c.build_partial_priority()))),
        ("chunk/key-layout", dh(&(c.chunk_entries(), c.key_layout_index_bits(), c.key_layout_entries()))),
        ("features", dh(&(c.feature_use_hardlinks(), c.feature_placeholder(), c.no_frame_encoding(), c.install_high_ver()))),
        ("validate", dh(&c.validate().map_err(|e| ecls(&e)))),
    ]
}

fn build_config(x: &[u8], b1: &[u8], out: &mut Out) {
    use cascette_formats::config::BuildConfig;
    let (Ok(p0), Ok(p1)) = (BuildConfig::parse(x), BuildConfig::parse(b1)) else { return };
    guard(out, "derived-view-changed", "BuildConfig", |o| {
        o.ob("build_config.typed_views");
        if p0.validate().is_ok() {
            o.ob("build_config.typed_views.valid_config");
        }
        if let Some(c) = first_diff(&build_config_view(&p0), &build_config_view(&p1)) {
            o.v("derived-view-changed", format!("BuildConfig:{c}"), json!({"component": c}));
        }
    });
}

fn cdn_config(x: &[u8], b1: &[u8], out: &mut Out) {
    use cascette_formats::config::CdnConfig;
    let (Ok(p0), Ok(p1)) = (CdnConfig::parse(x), CdnConfig::parse(b1)) else { return };
    guard(out, "derived-view-changed", "CdnConfig", |o| {
        o.ob("cdn_config.typed_views");
        let view = |c: &CdnConfig| {
            vec![
                ("archives", dh(&(c.archives(), c.archive_count(), c.archive_group()))),
                ("patch-archives", dh(&(c.patch_archives(), c.has_patch_archives(), c.patch_archive_group()))),
                ("file-index", dh(&(c.file_index(), c.file_indices(), c.has_file_indices()))),
                ("patch-file-index", dh(&(c.patch_file_index(), c.patch_file_index_size(), c.patch_file_indices()))),
                ("validate", dh(&c.validate().map_err(|e| ecls(&e)))),
            ]
        };
        if let Some(c) = first_diff(&view(&p0), &view(&p1)) {
            o.v("derived-view-changed", format!("CdnConfig:{c}"), json!({"component": c}));
        }
    });
}

fn keyring(x: &[u8], b1: &[u8], out: &mut Out) {
    use cascette_formats::config::KeyringConfig;
    let (Ok(p0), Ok(p1)) = (KeyringConfig::parse(x), KeyringConfig::parse(b1)) else { return };
    guard(out, "derived-view-changed", "KeyringConfig", |o| {
        o.ob("keyring.views");
        let view = |c: &KeyringConfig| {
            let by_id: Vec<_> = c.entries().iter().map(|e| c.get_key(&e.key_id).map(str::to_string)).collect();
            (c.len(), c.is_empty(), by_id, c.validate().map_err(|e| ecls(&e)))
        };
        if view(&p0) != view(&p1) {
            o.v("derived-view-changed", "KeyringConfig:len/get_key/validate", json!({}));
        }
    });
}

fn patch_config(x: &[u8], b1: &[u8], out: &mut Out) {
    use cascette_formats::config::PatchConfig;
    let (Ok(p0), Ok(p1)) = (PatchConfig::parse(x), PatchConfig::parse(b1)) else { return };
    guard(out, "derived-view-changed", "PatchConfig", |o| {
        o.ob("patch_config.views");
        let view = |c: &PatchConfig| {
            let types: Vec<String> = c.entries().iter().map(|e| e.entry_type.clone()).collect();
            let by_type: Vec<usize> = types.iter().map(|t| c.entries_by_type(t).len()).collect();
            (c.entry_count(), c.is_empty(), by_type, c.validate().map_err(|e| ecls(&e)))
        };
        if view(&p0) != view(&p1) {
            o.v("derived-view-changed", "PatchConfig:entry_count/entries_by_type/validate", json!({}));
        }
    });
}

fn product_config(x: &[u8], out: &mut Out) {
    use crate::fmts::Fmt;
    use cascette_formats::config::ProductConfig;
    let Ok(p0) = ProductConfig::parse(x) else { return };
    guard(out, "alt-entry-differs", "ProductConfig::build_compact", |o| {
        o.ob("product_config.build_compact");
        match ProductConfig::parse(p0.build_compact().as_slice()) {
            Err(e) => o.v("alt-entry-differs", format!("build_compact:output-rejected:{}", ecls(&e)), json!({})),
            Ok(q) => {
                if let Some(c) = first_diff(&p0.project(&[]), &q.project(&[])) {
                    o.v("alt-entry-differs", format!("build_compact:content:{c}"), json!({}));
                }
            }
        }
    });
}

fn bpsv(x: &[u8], b1: &[u8], out: &mut Out) {
    use crate::fmts::Fmt;
    use cascette_formats::bpsv::{BpsvDocument, BpsvWriter};
    let (Ok(p0), Ok(p1)) = (BpsvDocument::parse_(x), BpsvDocument::parse_(b1)) else { return };
    guard(out, "alt-entry-differs", "BpsvWriter::write_document", |o| {
        o.ob("bpsv.writer");
        let mut w = BpsvWriter::new(Vec::new());
        if let Err(e) = w.write_document(&p0) {
            o.v("alt-entry-differs", format!("BpsvWriter::write_document:fails:{}", ecls(&e)), json!({}));
            return;
        }
        let Ok(bytes) = w.into_inner() else { return };
        match BpsvDocument::parse_(&bytes) {
            Err(e) => o.v("alt-entry-differs", format!("BpsvWriter::write_document:output-rejected:{}", crate::err_class(&e)), json!({"error": e})),
            Ok(q) => {
                if let Some(c) = first_diff(&p0.project(&[]), &q.project(&[])) {
                    o.v("alt-entry-differs", format!("BpsvWriter::write_document:content:{c}"), json!({}));
                }
            }
        }
    });
    guard(out, "derived-view-changed", "BpsvDocument", |o| {
        o.ob("bpsv.views");
        let view = |d: &BpsvDocument| {
            let names: Vec<String> = d.field_names().iter().map(|s| (*s).to_string()).collect();
            let has: Vec<bool> = names.iter().map(|n| d.has_field(n)).collect();
            let rows: Vec<Option<String>> = (0..=d.row_count()).map(|i| d.get_row(i).map(|r| r.to_line())).collect();
            let by_name: Vec<Vec<Option<String>>> = d.iter().map(|r| names.iter().map(|n| r.get_raw_by_name(n, d.schema()).map(str::to_string)).collect()).collect();
            (d.row_count(), d.is_empty(), names, has, rows, by_name)
        };
        let (a, b) = (view(&p0), view(&p1));
        if a != b {
            o.v("derived-view-changed", "BpsvDocument:row_count/field_names/get_row/iter", json!({"rows_in": a.0, "rows_out": b.0}));
        }
        if a.0 != p0.rows().len() || a.1 != p0.rows().is_empty() {
            o.v("derived-view-changed", "BpsvDocument:row_count/is_empty:differs-from-rows", json!({}));
        }
    });
}

fn espec(x: &[u8], b1: &[u8], out: &mut Out) {
    use cascette_formats::espec::ESpec;
    let (Ok(sx), Ok(sb)) = (std::str::from_utf8(x), std::str::from_utf8(b1)) else { return };
    let (Ok(p0), Ok(p1)) = (ESpec::parse(sx), ESpec::parse(sb)) else { return };
    guard(out, "alt-entry-differs", "espec::parse/validate", |o| {
        o.ob("espec.free_parse+validate");
        match cascette_formats::espec::parse(sx) {
            Ok(q) if q == p0 => {}
            _ => o.v("alt-entry-differs", "espec::parse:differs-from-ESpec::parse", json!({})),
        }
        if !ESpec::validate(sx) || !ESpec::validate(sb) {
            o.v("alt-entry-differs", "ESpec::validate:rejects-what-parse-accepts", json!({}));
        }
    });
    guard(out, "derived-view-changed", "ESpec", |o| {
        o.ob("espec.views");
        let view = |e: &ESpec| (e.is_encrypted(), e.is_compressed(), e.compression_type().to_string());
        if view(&p0) != view(&p1) {
            o.v("derived-view-changed", "ESpec:is_encrypted/is_compressed/compression_type", json!({}));
        }
    });
}
