//! Coverage-driven extension of C08, builder side: values produced through the public constructors / setters /
//! builders that the original corpus never used (text configs, BPSV, ESpec variants, BLTE `compress` and the
//! extended chunk table, install V2, size-manifest field widths, patch-index key sizes, root builder programs
//! incl. MFST headers). Oracle = the property's second sentence: parse(serialise(v)) has the logical content of v;
//! for builders that only return bytes the content is the set of records handed to the builder.

use crate::seeds::Seed;
use cascette_crypto::{ContentKey, FileDataId};
use cascette_formats::CascFormat;
use serde_json::json;
use vh::{Ctx, Rng};

fn hexn(rng: &mut Rng, n: usize) -> String {
    hex::encode(rng.bytes(n))
}

// ------------------------------------------------------------------------------------------------ text configs

pub type KvModel = Vec<(String, Vec<String>)>;

/// (label, value, model: what the last `set` of every key was given)
pub fn build_config_values(rng: &mut Rng) -> Vec<(String, cascette_formats::config::BuildConfig, KvModel)> {
    use cascette_formats::config::BuildConfig;
    let mut out = Vec::new();
    // every key the typed accessors know, single / dual-hash / list forms, plus unknown keys
    let mut c = BuildConfig::new();
    let mut keys: KvModel = Vec::new();
    let mut set = |c: &mut BuildConfig, k: &str, v: Vec<String>| {
        c.set(k, v.clone());
        keys.push((k.to_string(), v));
    };
    set(&mut c, "root", vec![hexn(rng, 16)]);
    set(&mut c, "encoding", vec![hexn(rng, 16), hexn(rng, 16)]);
    set(&mut c, "encoding-size", vec!["1000".into(), "900".into()]);
    set(&mut c, "install", vec![hexn(rng, 16), hexn(rng, 16), hexn(rng, 16)]);
    set(&mut c, "install-size", vec!["10".into(), "9".into()]);
    set(&mut c, "install-high-ver", vec![hexn(rng, 16), hexn(rng, 16)]);
    set(&mut c, "install-high-ver-size", vec!["5".into(), "4".into()]);
    set(&mut c, "download", vec![hexn(rng, 16), hexn(rng, 16)]);
    set(&mut c, "download-size", vec!["7".into(), "6".into()]);
    set(&mut c, "size", vec![hexn(rng, 16), hexn(rng, 16)]);
    set(&mut c, "size-size", vec!["3".into(), "2".into()]);
    set(&mut c, "patch", vec![hexn(rng, 16), hexn(rng, 16)]);
    set(&mut c, "patch-size", vec!["123".into()]);
    set(&mut c, "patch-config", vec![hexn(rng, 16)]);
    set(&mut c, "patch-index", vec![hexn(rng, 16), hexn(rng, 16)]);
    set(&mut c, "patch-index-size", vec!["11".into(), "12".into()]);
    set(&mut c, "build-name", vec!["WOW-12345patch1.2.3_Retail".into()]);
    set(&mut c, "build-uid", vec!["wow".into()]);
    set(&mut c, "build-product", vec!["WoW".into()]);
    set(&mut c, "build-file-db", vec![hexn(rng, 16), hexn(rng, 16)]);
    set(&mut c, "build-file-db-size", vec!["20".into(), "19".into()]);
    set(&mut c, "build-partial-priority", vec![format!("{}:0", hexn(rng, 16)), format!("{}:262144", hexn(rng, 16))]);
    set(&mut c, "build-playtime-url", vec!["https://example.invalid/playtime".into()]);
    set(&mut c, "build-product-espec", vec!["b:{256K*=z}".into()]);
    set(&mut c, "client-version", vec!["1.2.3.12345".into()]);
    set(&mut c, "feature-placeholder", vec!["true".into()]);
    set(&mut c, "feature-use-hardlinks", vec!["1".into()]);
    set(&mut c, "no-frame-encoding", vec!["true".into()]);
    set(&mut c, "key-layout-index-bits", vec!["12".into()]);
    set(&mut c, "key-layout-0", vec!["8".into(), "2".into(), "4".into(), "1048576".into()]);
    set(&mut c, "key-layout-1", vec!["9".into(), "3".into(), "4".into(), "1048576".into()]);
    set(&mut c, "chunk-0", vec![hexn(rng, 16), "100".into()]);
    set(&mut c, "chunk-1", vec![hexn(rng, 16), "200".into()]);
    set(&mut c, "vfs-root", vec![hexn(rng, 16), hexn(rng, 16)]);
    set(&mut c, "vfs-root-size", vec!["50".into(), "40".into()]);
    set(&mut c, "vfs-root-espec", vec!["z".into()]);
    for i in 1..=3 {
        set(&mut c, &format!("vfs-{i}"), vec![hexn(rng, 16), hexn(rng, 16)]);
        set(&mut c, &format!("vfs-{i}-size"), vec![format!("{}", 100 * i), format!("{}", 90 * i)]);
        set(&mut c, &format!("vfs-{i}-espec"), vec!["b:{1M*=z}".into()]);
    }
    set(&mut c, "zz-unknown_key", vec!["a".into(), "b".into(), "c".into()]);
    set(&mut c, "AnotherKey9", vec!["x".into()]);
    out.push(("all-known-keys".to_string(), c, keys.clone()));
    // minimal / default
    let mut m = BuildConfig::default();
    let root = vec![hexn(rng, 16)];
    m.set("root", root.clone());
    out.push(("default+root".to_string(), m, vec![("root".into(), root)]));
    // later set() of the same key replaces
    let mut r = BuildConfig::new();
    let (root2, enc2) = (vec![hexn(rng, 16)], vec![hexn(rng, 16)]);
    r.set("root", vec!["first".into()]);
    r.set("root", root2.clone());
    r.set("encoding", enc2.clone());
    out.push(("set-twice".to_string(), r, vec![("root".into(), root2), ("encoding".into(), enc2)]));
    out
}

/// (label, value, all keys, model of the keys whose stored form the statement of the setters fixes; a key mapped to
/// None must be absent)
#[allow(clippy::type_complexity)]
pub fn cdn_config_values(rng: &mut Rng) -> Vec<(String, cascette_formats::config::CdnConfig, Vec<String>, Vec<(String, Option<Vec<String>>)>)> {
    use cascette_formats::config::{ArchiveInfo, CdnConfig};
    let all_keys: Vec<String> = ["archives", "archives-index-size", "archive-group", "patch-archives", "patch-archives-index-size", "patch-archive-group", "file-index", "file-index-size", "patch-file-index", "patch-file-index-size", "builds", "zz-extra"].iter().map(|s| (*s).to_string()).collect();
    let mut out = Vec::new();
    let mut c = CdnConfig::new();
    let mut model: Vec<(String, Option<Vec<String>>)> = Vec::new();
    let arch: Vec<String> = (0..5).map(|_| hexn(rng, 16)).collect();
    c.set_archives(arch.iter().enumerate().map(|(i, k)| ArchiveInfo { content_key: k.clone(), index_size: Some(1000 + i as u64) }).collect());
    model.push(("archives".into(), Some(arch.clone())));
    model.push(("archives-index-size".into(), Some((0..5).map(|i| (1000 + i).to_string()).collect())));
    let group = hexn(rng, 16);
    c.set_archive_group(group.clone());
    model.push(("archive-group".into(), Some(vec![group])));
    for (k, v) in [
        ("patch-archives", vec![hexn(rng, 16), hexn(rng, 16)]),
        ("patch-archives-index-size", vec!["5".to_string(), "6".to_string()]),
        ("patch-archive-group", vec![hexn(rng, 16)]),
        ("file-index", vec![hexn(rng, 16)]),
        ("file-index-size", vec!["77".to_string()]),
        ("patch-file-index", vec![hexn(rng, 16)]),
        ("patch-file-index-size", vec!["78".to_string()]),
        ("builds", vec![hexn(rng, 16), hexn(rng, 16)]),
        ("zz-extra", vec!["v".to_string()]),
    ] {
        c.set(k, v.clone());
        model.push((k.to_string(), Some(v)));
    }
    out.push(("setters-all-sizes".to_string(), c, all_keys.clone(), model));
    let mut n = CdnConfig::default();
    let arch: Vec<String> = (0..3).map(|_| hexn(rng, 16)).collect();
    n.set_archives(arch.iter().map(|k| ArchiveInfo { content_key: k.clone(), index_size: None }).collect());
    out.push(("set_archives-no-sizes".to_string(), n, all_keys.clone(), vec![("archives".into(), Some(arch)), ("archives-index-size".into(), None)]));
    // sizes known for a prefix of the archives only (trailing None entries are trimmed by the setter)
    let mut p = CdnConfig::new();
    let arch: Vec<String> = (0..3).map(|_| hexn(rng, 16)).collect();
    p.set_archives(vec![ArchiveInfo { content_key: arch[0].clone(), index_size: Some(1) }, ArchiveInfo { content_key: arch[1].clone(), index_size: Some(2) }, ArchiveInfo { content_key: arch[2].clone(), index_size: None }]);
    out.push(("set_archives-sizes-for-a-prefix".to_string(), p, all_keys.clone(), vec![("archives".into(), Some(arch)), ("archives-index-size".into(), Some(vec!["1".into(), "2".into()]))]));
    // a size missing in the middle (no model for the size list: the list cannot express it, see the listed finding)
    let mut g = CdnConfig::new();
    let arch: Vec<String> = (0..3).map(|_| hexn(rng, 16)).collect();
    g.set_archives(vec![ArchiveInfo { content_key: arch[0].clone(), index_size: Some(100) }, ArchiveInfo { content_key: arch[1].clone(), index_size: None }, ArchiveInfo { content_key: arch[2].clone(), index_size: Some(300) }]);
    out.push(("set_archives-size-missing-in-the-middle".to_string(), g, all_keys, vec![("archives".into(), Some(arch))]));
    out
}

pub fn patch_config_values(rng: &mut Rng) -> Vec<(String, cascette_formats::config::PatchConfig)> {
    use cascette_formats::config::{PatchConfig, PatchEntry};
    let mut out = Vec::new();
    let mut c = PatchConfig::new();
    c.set_patch_hash(hexn(rng, 16));
    c.set_patch_size(123_456);
    c.add_entry(PatchEntry::new("encoding", hexn(rng, 16), 1000, hexn(rng, 16), 900));
    c.add_entry(PatchEntry::new("install", hexn(rng, 16), 20, hexn(rng, 16), 10));
    c.add_entry(PatchEntry::new("encoding", hexn(rng, 16), 0, hexn(rng, 16), u64::MAX));
    c.set_property("zzz-extra", "value");
    c.set_property("patch-stream", hexn(rng, 16));
    out.push(("setters".to_string(), c.clone()));
    c.remove_entries_by_type("install");
    out.push(("remove_entries_by_type".to_string(), c.clone()));
    c.clear_entries();
    out.push(("clear_entries".to_string(), c.clone()));
    c.clear_properties();
    c.set_patch_hash(hexn(rng, 16));
    out.push(("clear_properties+hash".to_string(), c));
    out.push(("default".to_string(), PatchConfig::default()));
    out
}

pub fn keyring_values(rng: &mut Rng) -> Vec<(String, cascette_formats::config::KeyringConfig)> {
    use cascette_formats::config::KeyringConfig;
    let mut out = vec![("default".to_string(), KeyringConfig::default())];
    let mut k = KeyringConfig::new();
    for i in 0..4 {
        // upper-case input is normalised by add_entry itself (the value holds the lower-case form)
        let id = hexn(rng, 8);
        k.add_entry(if i % 2 == 0 { id.to_uppercase() } else { id }, hexn(rng, 16));
    }
    out.push(("add_entry x4".to_string(), k));
    out
}

pub fn bpsv_values(rng: &mut Rng) -> Vec<(String, cascette_formats::bpsv::BpsvDocument)> {
    use cascette_formats::bpsv::{BpsvBuilder, BpsvDocument, BpsvField, BpsvRow, BpsvSchema, BpsvType, BpsvValue};
    let mut out = Vec::new();
    let fields = || vec![BpsvField::new("Region", BpsvType::String(0)), BpsvField::new("BuildConfig", BpsvType::Hex(16)), BpsvField::new("BuildId", BpsvType::Dec(4)), BpsvField::new("Note", BpsvType::String(0))];
    let mut b = BpsvBuilder::new();
    b.add_fields(fields());
    b.set_sequence(4242);
    for (i, region) in ["us", "eu", "kr", "cn"].iter().enumerate() {
        let note = if i % 2 == 0 { BpsvValue::String(format!("note {i} with spaces")) } else { BpsvValue::Empty };
        let _ = b.add_row(vec![BpsvValue::String((*region).to_string()), BpsvValue::Hex(rng.bytes(16)), BpsvValue::Dec(if i == 2 { -7 } else { 60_000 + i as i64 }), note]);
    }
    let _ = b.add_row(vec![BpsvValue::Empty, BpsvValue::Empty, BpsvValue::Empty, BpsvValue::Empty]);
    out.push(("BpsvBuilder".to_string(), b.build()));
    let mut b2 = BpsvBuilder::default();
    b2.add_field(BpsvField::new("Only", BpsvType::Dec(0)));
    let _ = b2.add_row(vec![BpsvValue::Dec(i64::MAX)]);
    let _ = b2.add_row(vec![BpsvValue::Dec(i64::MIN)]);
    out.push(("BpsvBuilder-one-column-no-seqn".to_string(), b2.build()));
    // document API
    let schema = BpsvSchema::new(fields());
    let rows: Vec<BpsvRow> = (0..3).map(|i| BpsvRow::from_values(vec![BpsvValue::String(format!("r{i}")), BpsvValue::Hex(rng.bytes(16)), BpsvValue::Dec(i), BpsvValue::String("x".into())])).collect();
    let mut d = BpsvDocument::with_rows(schema.clone(), rows.clone());
    out.push(("with_rows".to_string(), d.clone()));
    d.set_sequence_number(9);
    let _ = d.add_row(BpsvRow::from_values(vec![BpsvValue::String("added".into()), BpsvValue::Hex(rng.bytes(16)), BpsvValue::Dec(77), BpsvValue::Empty]));
    // a row of the wrong width must be refused and leave the document as it was
    let refused = d.add_row(BpsvRow::from_values(vec![BpsvValue::Dec(1)])).is_err();
    out.push((format!("with_rows+seqn+add_row(refused-short-row={refused})"), d.clone()));
    d.clear_sequence_number();
    out.push(("clear_sequence_number".to_string(), d.clone()));
    d.clear();
    out.push(("clear".to_string(), d));
    out.push(("new-empty".to_string(), BpsvDocument::new(schema)));
    out
}

pub fn espec_values() -> Vec<(String, cascette_formats::espec::ESpec)> {
    use cascette_formats::espec::{BlockChunk, BlockSizeSpec, ESpec, ZLibVariant};
    let mut leaf = vec![ESpec::None];
    for level in [None, Some(1u8), Some(6), Some(9)] {
        for variant in [None, Some(ZLibVariant::MPQ), Some(ZLibVariant::ZLib), Some(ZLibVariant::LZ4HC)] {
            for window_bits in [None, Some(8u8), Some(15)] {
                leaf.push(ESpec::ZLib { level, variant: variant.clone(), window_bits });
            }
        }
    }
    for bcn in [None, Some(1u8), Some(4), Some(7)] {
        leaf.push(ESpec::BCPack { bcn });
    }
    for level in [None, Some(1u8), Some(9), Some(12)] {
        leaf.push(ESpec::GDeflate { level });
    }
    let mut out: Vec<(String, ESpec)> = leaf.iter().map(|e| (format!("leaf {e}"), e.clone())).collect();
    // every leaf nested in an encrypted spec and in block tables (single unsized chunk, sized + counted + final chunk)
    for e in &leaf {
        out.push((format!("encrypted({e})"), ESpec::Encrypted { key: "0123456789abcdef".into(), iv: vec![0x06, 0xfc, 0x15, 0x2e], spec: Box::new(e.clone()) }));
        out.push((format!("block-single({e})"), ESpec::BlockTable { chunks: vec![BlockChunk { size_spec: None, spec: e.clone() }] }));
        out.push((
            format!("block-mixed({e})"),
            ESpec::BlockTable {
                chunks: vec![
                    BlockChunk { size_spec: Some(BlockSizeSpec { size: 22, count: None }), spec: ESpec::None },
                    BlockChunk { size_spec: Some(BlockSizeSpec { size: 256 * 1024, count: Some(3) }), spec: e.clone() },
                    BlockChunk { size_spec: Some(BlockSizeSpec { size: 2 * 1024 * 1024, count: Some(1) }), spec: e.clone() },
                    BlockChunk { size_spec: None, spec: ESpec::None },
                ],
            },
        ));
    }
    out
}

// ------------------------------------------------------------------------------------------------ binary values

pub fn blte_values(rng: &mut Rng) -> Vec<(String, cascette_formats::blte::BlteFile)> {
    use cascette_formats::blte::{BlteFile, BlteHeader, ChunkData, CompressionMode};
    let mut out = Vec::new();
    let data: Vec<u8> = b"compress me, compress me again; ".iter().copied().cycle().take(5000).collect();
    for (mname, mode) in [("N", CompressionMode::None), ("Z", CompressionMode::ZLib), ("4", CompressionMode::LZ4)] {
        // chunk boundary cases of `compress`: one chunk exactly, one byte over, many chunks with a short tail
        for (len, chunk) in [(1usize, 1024usize), (1024, 1024), (1025, 1024), (5000, 1024), (5000, 5000), (5000, 4999)] {
            if let Ok(f) = BlteFile::compress(&data[..len], chunk, mode) {
                out.push((format!("compress mode={mname} len={len} chunk={chunk}"), f));
            }
        }
    }
    // extended chunk table (40-byte infos carrying the checksum of the decoded chunk)
    let chunks: Vec<ChunkData> = [CompressionMode::None, CompressionMode::ZLib, CompressionMode::LZ4, CompressionMode::ZLib].iter().filter_map(|m| ChunkData::new(data[..700 + rng.urange(0, 300)].to_vec(), *m).ok()).collect();
    if let Ok(header) = BlteHeader::multi_chunk_extended(&chunks) {
        out.push(("extended-chunk-table x4".to_string(), BlteFile { header, chunks: chunks.clone() }));
    }
    if let Ok(header) = BlteHeader::multi_chunk_extended(&chunks[..1]) {
        out.push(("extended-chunk-table x1".to_string(), BlteFile { header, chunks: chunks[..1].to_vec() }));
    }
    out
}

pub fn install_v2_value(rng: &mut Rng, n: usize) -> cascette_formats::install::InstallManifest {
    use cascette_formats::install::{InstallFileEntry, InstallHeader, InstallManifest, InstallTag, TagType};
    let mut tags = vec![InstallTag::new("Windows".into(), TagType::Platform, n), InstallTag::new("enUS".into(), TagType::Locale, n)];
    let entries: Vec<InstallFileEntry> = (0..n).map(|i| InstallFileEntry::new_v2(format!("Data\\v2_{i}.bin"), ContentKey::from_bytes(rng.array::<16>()), rng.next_u32(), (i % 3) as u8)).collect();
    for i in 0..n {
        if i % 2 == 0 {
            tags[0].add_file(i);
        }
        if i % 3 == 0 {
            tags[1].add_file(i);
        }
    }
    InstallManifest { header: InstallHeader::new_v2(2, n as u32, 16, n as u32), tags, entries }
}

pub fn size_values(rng: &mut Rng) -> Vec<(String, cascette_formats::size::SizeManifest)> {
    use cascette_formats::install::TagType;
    use cascette_formats::size::SizeManifestBuilder;
    let mut out = Vec::new();
    for (ver, ekey, width) in [(1u8, 9u8, 1u8), (1, 9, 2), (1, 9, 3), (1, 9, 5), (1, 9, 8), (1, 16, 4), (1, 1, 4), (2, 16, 4), (2, 1, 4), (2, 12, 4)] {
        let mut b = SizeManifestBuilder::new().version(ver).ekey_size(ekey);
        if ver == 1 {
            b = b.esize_bytes(width);
        }
        b = b.add_tag("Windows".into(), TagType::Platform).add_tag("OSX".into(), TagType::Platform);
        let max = if ver == 2 || width >= 8 { u64::from(u32::MAX) } else { (1u64 << (8 * u32::from(width))) - 1 };
        for i in 0..11usize {
            let sz = match i {
                0 => 0,
                1 => max.min(u64::from(u32::MAX)),
                _ => rng.below(max.min(1 << 31) + 1),
            };
            b = b.add_entry(rng.bytes(ekey as usize), sz).tag_file(i % 2, i);
        }
        if let Ok(m) = b.build() {
            out.push((format!("size v{ver} ekey={ekey} esize_bytes={width}"), m));
        }
    }
    // no tags at all / no entries
    if let Ok(m) = SizeManifestBuilder::new().add_entry(rng.bytes(9), 5).build() {
        out.push(("size no-tags".to_string(), m));
    }
    if let Ok(m) = SizeManifestBuilder::new().version(1).build() {
        out.push(("size v1 empty".to_string(), m));
    }
    out
}

pub fn patch_archive_values(rng: &mut Rng) -> Vec<(String, cascette_formats::patch_archive::PatchArchive)> {
    use cascette_formats::patch_archive::PatchArchiveBuilder;
    let mut out = Vec::new();
    for (ver, bits) in [(1u8, 16u8), (2, 12), (2, 20)] {
        let mut b = PatchArchiveBuilder::new().version(ver).block_size_bits(bits);
        for _ in 0..40 {
            b.add_file_entry(rng.array::<16>(), rng.below(1 << 40), vec![(rng.array::<16>(), rng.below(1 << 40), rng.array::<16>(), rng.next_u32(), 1)]);
        }
        b.sort_entries();
        if let Ok(a) = b.build_archive() {
            out.push((format!("patch_archive version={ver} block_size_bits={bits}"), a));
        }
    }
    out
}

/// Patch index builder programs: (label, bytes, the entries handed over, key size)
pub fn patch_index_programs(rng: &mut Rng) -> Vec<(String, Vec<u8>, Vec<cascette_formats::patch_index::PatchIndexEntry>, u8)> {
    use cascette_formats::patch_index::{PatchIndexBuilder, PatchIndexEntry};
    let mut out = Vec::new();
    for (ks, n) in [(16u8, 7usize), (9, 7), (1, 3), (16, 0)] {
        let key = |rng: &mut Rng| {
            // a key of `ks` bytes: the bytes beyond the key size do not exist in this layout
            let mut k = [0u8; 16];
            k[..ks as usize].copy_from_slice(&rng.bytes(ks as usize));
            k
        };
        let entries: Vec<PatchIndexEntry> = (0..n).map(|_| PatchIndexEntry { source_ekey: key(rng), source_size: rng.next_u32(), target_ekey: key(rng), target_size: rng.next_u32(), encoded_size: rng.next_u32(), suffix_offset: rng.next_u32() as u8, patch_ekey: key(rng) }).collect();
        let mut b = PatchIndexBuilder::new().key_size(ks);
        for e in &entries {
            b.add_entry(e.clone());
        }
        if let Ok(bytes) = b.build() {
            out.push((format!("patch_index key_size={ks} n={n}"), bytes, entries, ks));
        }
    }
    out
}

/// ArchiveIndexBuilder through its default-layout API (`new` / `default`, `add_entry_full`, `add_entry_old`,
/// `remove_entry_full`, `clear`): (label, written bytes, model entries)
pub fn archive_index_programs(rng: &mut Rng) -> Vec<(String, Vec<u8>, Vec<(Vec<u8>, u32, u64)>)> {
    use cascette_formats::archive::ArchiveIndexBuilder;
    let mut out = Vec::new();
    for (n, use_default) in [(1usize, false), (170, true), (171, false), (400, true)] {
        let mut b = if use_default { ArchiveIndexBuilder::default() } else { ArchiveIndexBuilder::new() };
        // something to be forgotten by clear()
        b.add_entry_full(rng.array::<16>(), 1, 1);
        b.clear();
        let mut model: Vec<(Vec<u8>, u32, u64)> = Vec::new();
        for i in 0..n + 2 {
            let mut k = rng.array::<16>();
            k[0] |= 1;
            let (size, off) = (rng.next_u32().max(1), rng.next_u32());
            if i % 2 == 0 {
                b.add_entry_full(k, size, u64::from(off));
            } else {
                b.add_entry_old(k, size, off);
            }
            model.push((k.to_vec(), size, u64::from(off)));
        }
        // remove two of them again (first and last added)
        for victim in [0usize, model.len() - 1] {
            let mut key = [0u8; 16];
            key.copy_from_slice(&model[victim].0);
            if !b.remove_entry_full(&key) {
                model.clear(); // a refused removal shows up as a content difference below
            }
        }
        if !model.is_empty() {
            model.remove(model.len() - 1);
            model.remove(0);
        }
        model.sort();
        let consistent = b.len() == model.len() && b.is_empty() == model.is_empty();
        let mut c = std::io::Cursor::new(Vec::new());
        if b.build(&mut c).is_ok() && consistent {
            out.push((format!("ArchiveIndexBuilder default-layout n={n}"), c.into_inner(), model));
        } else {
            out.push((format!("ArchiveIndexBuilder default-layout n={n} (build failed or len() wrong)"), Vec::new(), model));
        }
    }
    out
}

// ------------------------------------------------------------------------------------------------ root builder programs

pub type RootRec = (u32, u64, u32, [u8; 16], Option<u64>);

pub struct RootProgram {
    pub label: String,
    pub version: cascette_formats::root::RootVersion,
    pub records: Vec<RootRec>,
    pub bytes: Result<Vec<u8>, String>,
}

/// `named`: how many of the `n` records carry a name hash (V1: always all of them).
pub fn root_program(rng: &mut Rng, vname: &str, version: cascette_formats::root::RootVersion, n: usize, named: usize) -> RootProgram {
    use cascette_formats::root::{ContentFlags, LocaleFlags, RootBuilder, RootVersion};
    let mut b = RootBuilder::new(version);
    let mut records = Vec::new();
    for i in 0..n {
        let has_name = version == RootVersion::V1 || i < named;
        let locale = if i % 2 == 0 { LocaleFlags::ENUS } else { LocaleFlags::DEDE | LocaleFlags::FRFR };
        let mut content = if i % 3 == 0 { ContentFlags::INSTALL } else { ContentFlags::NONE };
        if !has_name {
            content |= ContentFlags::NO_NAME_HASH;
        }
        let fdid = 1000 + (i as u32) * 5 + (rng.below(3) as u32);
        let ck = rng.array::<16>();
        let nh = has_name.then(|| rng.next_u64() | 1);
        b.add_file_with_hash(FileDataId::new(fdid), ContentKey::from_bytes(ck), nh, LocaleFlags::new(locale), ContentFlags::new(content));
        records.push((locale, content, fdid, ck, nh));
    }
    records.sort_unstable();
    RootProgram { label: format!("root {vname} n={n} named={named}"), version, records, bytes: b.build().map_err(|e| format!("{e:?}")) }
}

pub fn root_programs(rng: &mut Rng) -> Vec<RootProgram> {
    use cascette_formats::root::RootVersion;
    let mut out = Vec::new();
    for (vname, v) in [("V1", RootVersion::V1), ("V2", RootVersion::V2), ("V3", RootVersion::V3), ("V4", RootVersion::V4)] {
        // (n, named): all named, none named, a few named; sizes on both sides of the 16..100 window in which a
        // classic V2 header (total, named) can look like an extended one (header_size, version)
        for (n, named) in [(1usize, 1usize), (7, 0), (15, 3), (20, 0), (20, 2), (20, 20), (64, 4), (99, 1), (100, 4), (130, 3)] {
            out.push(root_program(rng, vname, v, n, named));
        }
    }
    out
}

/// Is this the documented ambiguity: a classic V2 header whose counts read as (header_size 16..99, version 1..4)?
pub fn v2_header_ambiguous(version: cascette_formats::root::RootVersion, total: usize, named: usize) -> bool {
    version == cascette_formats::root::RootVersion::V2 && (16..100).contains(&total) && (1..=4).contains(&named)
}

/// MFST (big-endian header) variants of root builder outputs, and over-long extended headers: the header is
/// rewritten by hand (no builder writes them), the blocks stay as built.
pub fn root_header_variant_seeds(rng: &mut Rng) -> Vec<Seed> {
    use cascette_formats::root::RootVersion;
    let mut out = Vec::new();
    let le = |b: &[u8]| u32::from_le_bytes([b[0], b[1], b[2], b[3]]);
    // (the small V2 manifests with a few named files are unambiguous behind an extended header; their rebuild writes
    // the classic header whose counts fall into the extended-header window)
    for (vname, v, n, named) in [("V2", RootVersion::V2, 120usize, 120usize), ("V2", RootVersion::V2, 120, 0), ("V2", RootVersion::V2, 20, 2), ("V2", RootVersion::V2, 64, 4), ("V3", RootVersion::V3, 40, 40), ("V4", RootVersion::V4, 40, 0), ("V4", RootVersion::V4, 120, 120)] {
        let p = root_program(rng, vname, v, n, named);
        let Ok(bytes) = p.bytes else { continue };
        if bytes.len() < 20 || &bytes[..4] != b"TSFM" {
            continue;
        }
        if v == RootVersion::V2 {
            // classic 12-byte header: magic, total, named
            let mut m = b"MFST".to_vec();
            m.extend_from_slice(&le(&bytes[4..8]).to_be_bytes());
            m.extend_from_slice(&le(&bytes[8..12]).to_be_bytes());
            m.extend_from_slice(&bytes[12..]);
            if !v2_header_ambiguous(v, n, named) {
                out.push(Seed { format: "RootFile", name: format!("builder/root-MFST-classic-{vname}-n{n}-named{named}"), bytes: m, fixture: false });
            }
            // the same manifest behind extended headers that declare block format 1 / 2
            for (hs, ver) in [(20u32, 2u32), (24, 1), (24, 2)] {
                for big in [false, true] {
                    let w = |x: u32| if big { x.to_be_bytes() } else { x.to_le_bytes() };
                    let mut e = if big { b"MFST".to_vec() } else { b"TSFM".to_vec() };
                    e.extend_from_slice(&w(hs));
                    e.extend_from_slice(&w(ver));
                    e.extend_from_slice(&w(le(&bytes[4..8])));
                    e.extend_from_slice(&w(le(&bytes[8..12])));
                    e.extend(std::iter::repeat_n(0u8, (hs - 20) as usize));
                    e.extend_from_slice(&bytes[12..]);
                    out.push(Seed { format: "RootFile", name: format!("builder/root-{}-ext{hs}v{ver}-{vname}-n{n}-named{named}", if big { "MFST" } else { "TSFM" }), bytes: e, fixture: false });
                }
            }
        } else {
            // extended 20-byte header: magic, header_size, version, total, named
            for (hs, big) in [(20u32, true), (24, true), (24, false), (28, false), (33, true)] {
                let w = |x: u32| if big { x.to_be_bytes() } else { x.to_le_bytes() };
                let mut e = if big { b"MFST".to_vec() } else { b"TSFM".to_vec() };
                e.extend_from_slice(&w(hs));
                e.extend_from_slice(&w(le(&bytes[8..12])));
                e.extend_from_slice(&w(le(&bytes[12..16])));
                e.extend_from_slice(&w(le(&bytes[16..20])));
                e.extend(std::iter::repeat_n(0u8, (hs - 20) as usize));
                e.extend_from_slice(&bytes[20..]);
                out.push(Seed { format: "RootFile", name: format!("builder/root-{}-ext{hs}-{vname}-n{n}-named{named}", if big { "MFST" } else { "TSFM" }), bytes: e, fixture: false });
            }
        }
    }
    out
}

// ------------------------------------------------------------------------------------------------ encoding builder programs

pub type CkRec = ([u8; 16], u64, Vec<[u8; 16]>);
pub type EkRec = ([u8; 16], Option<String>, u64);

/// Which entries the CKey table of a program holds (a CKey entry serialises to 22 + 16 x keys bytes).
#[derive(Clone, Copy, Debug)]
pub enum CkShape {
    /// one encoding key per content key (38 bytes)
    Singles,
    /// two encoding keys per content key (54 bytes)
    Doubles,
    /// both kinds, in the proportion that fills a page best (to the last byte whenever 38a + 54b = page size has a solution)
    Mixed,
}

/// An `EncodingBuilder` program: page sizes, the literal entries handed over, the value the builder returned.
pub struct EncodingProgram {
    pub label: String,
    pub page_kb: (u16, u16),
    pub trailing: Option<String>,
    pub ckeys: Vec<CkRec>,
    pub ekeys: Vec<EkRec>,
    pub value: Result<cascette_formats::encoding::EncodingFile, String>,
}

/// Key counts (1 / 2) of the CKey entries that fill `pages` pages of `page` bytes as far as they go, `delta` entries
/// more (+1: one entry on a further page) or fewer (-1: the last page lacks its last entry).
fn ckey_fill(rng: &mut Rng, shape: CkShape, page: usize, pages: usize, delta: i32) -> Vec<usize> {
    let (a, b) = match shape {
        CkShape::Singles => (page / 38, 0),
        CkShape::Doubles => (0, page / 54),
        CkShape::Mixed => {
            // least unused tail, at least one entry of each kind when the page has room for both
            let mut best = (page / 38, 0usize, page % 38 + 1000);
            for b in 1..=page / 54 {
                let a = (page - 54 * b) / 38;
                let rest = page - 54 * b - 38 * a + if a == 0 { 1000 } else { 0 };
                if rest < best.2 {
                    best = (a, b, rest);
                }
            }
            (best.0, best.1)
        }
    };
    let mut out = Vec::new();
    for _ in 0..pages {
        let mut p: Vec<usize> = std::iter::repeat_n(1, a).chain(std::iter::repeat_n(2, b)).collect();
        rng.shuffle(&mut p);
        out.extend(p);
    }
    if delta < 0 {
        out.pop();
    } else if delta > 0 {
        out.push(1);
    }
    if out.is_empty() {
        out.push(1);
    }
    out
}

/// The i-th key of a table: ascending in i (the builder sorts by key, so the order of emission is the order in the
/// pages), never all-zero.
fn ordered_key(rng: &mut Rng, i: usize) -> [u8; 16] {
    let mut k = rng.array::<16>();
    k[..4].copy_from_slice(&(i as u32 + 1).to_be_bytes());
    k
}

#[allow(clippy::too_many_arguments)]
pub fn encoding_program(rng: &mut Rng, ckey_kb: u16, shape: CkShape, ck_pages: usize, ck_delta: i32, ekey_kb: u16, ek_pages: usize, ek_delta: i32, trailing: bool) -> EncodingProgram {
    use cascette_crypto::EncodingKey;
    use cascette_formats::encoding::{CKeyEntryData, EKeyEntryData, EncodingBuilder};
    const SPECS: [&str; 3] = ["z", "n", "b:{256K*=z}"];
    let trailing = trailing.then(|| "b:{22=n,*=z}".to_string());
    let mut b = EncodingBuilder::new().with_page_sizes(ckey_kb, ekey_kb);
    if let Some(t) = &trailing {
        b = b.with_trailing_espec(t.clone());
    }
    let mut ckeys: Vec<CkRec> = Vec::new();
    for (i, keys) in ckey_fill(rng, shape, ckey_kb as usize * 1024, ck_pages, ck_delta).into_iter().enumerate() {
        let rec: CkRec = (ordered_key(rng, i), rng.below(1 << 40), (0..keys).map(|_| rng.array::<16>()).collect());
        b.add_ckey_entry(CKeyEntryData { content_key: ContentKey::from_bytes(rec.0), file_size: rec.1, encoding_keys: rec.2.iter().map(|k| EncodingKey::from_bytes(*k)).collect() });
        ckeys.push(rec);
    }
    // an EKey entry is 16 + 4 + 5 bytes
    let n_ekeys = ((ekey_kb as usize * 1024 / 25 * ek_pages) as i64 + i64::from(ek_delta)).max(1) as usize;
    let mut ekeys: Vec<EkRec> = Vec::new();
    for i in 0..n_ekeys {
        let rec: EkRec = (ordered_key(rng, i), Some(SPECS[i % SPECS.len()].to_string()), rng.below(1 << 40));
        b.add_ekey_entry(EKeyEntryData { encoding_key: EncodingKey::from_bytes(rec.0), espec: SPECS[i % SPECS.len()].to_string(), file_size: rec.2 });
        ekeys.push(rec);
    }
    ckeys.sort();
    ekeys.sort();
    let label = format!("encoding ckey-pages={ckey_kb}K {shape:?} x{ck_pages}{ck_delta:+} (n={}) ekey-pages={ekey_kb}K x{ek_pages}{ek_delta:+} (n={}) trailing={}", ckeys.len(), ekeys.len(), trailing.is_some());
    EncodingProgram { label, page_kb: (ckey_kb, ekey_kb), trailing, ckeys, ekeys, value: b.build().map_err(|e| format!("{e:?}")) }
}

/// Page sizes other than the default on both tables — among them sizes that are multiples of an entry size (19 KiB =
/// 512 x 38, 27 KiB = 512 x 54, 25 / 50 KiB = 1024 / 2048 x 25), where a page can be full to the last byte, and 1 KiB —
/// each with entry counts that fill one and two pages exactly, one entry less and one more; plus `random` programs.
pub fn encoding_programs(rng: &mut Rng, random: usize) -> Vec<EncodingProgram> {
    let mut ck = Vec::new();
    for (kb, shape) in [(1u16, CkShape::Mixed), (2, CkShape::Mixed), (4, CkShape::Mixed), (4, CkShape::Singles), (19, CkShape::Singles), (27, CkShape::Doubles)] {
        for pages in [1usize, 2] {
            for delta in [-1i32, 0, 1] {
                ck.push((kb, shape, pages, delta));
            }
        }
    }
    let mut ek = Vec::new();
    for kb in [1u16, 2, 3, 4, 25, 50] {
        for pages in [1usize, 2] {
            for delta in [-1i32, 0, 1] {
                ek.push((kb, pages, delta));
            }
        }
    }
    let mut out = Vec::new();
    for (i, c) in ck.iter().enumerate() {
        // (the two lists have the same inner structure: pair them through a permutation)
        let e = ek[(i * 5 + 3) % ek.len()];
        out.push(encoding_program(rng, c.0, c.1, c.2, c.3, e.0, e.1, e.2, i % 2 == 0));
    }
    for _ in 0..random {
        let shape = *rng.pick(&[CkShape::Singles, CkShape::Doubles, CkShape::Mixed]);
        let (ckb, ekb) = (rng.urange(1, 32) as u16, rng.urange(1, 32) as u16);
        let (cp, cd, ep, ed, tr) = (rng.urange(1, 3), rng.urange(0, 2) as i32 - 1, rng.urange(1, 3), rng.urange(0, 2) as i32 - 1, rng.bool());
        out.push(encoding_program(rng, ckb, shape, cp, cd, ekb, ep, ed, tr));
    }
    out
}

/// Entries of an encoding table through its public fields (ESpec index resolved through the table), sorted.
pub fn encoding_content(f: &cascette_formats::encoding::EncodingFile) -> (Vec<CkRec>, Vec<EkRec>) {
    let mut ck: Vec<CkRec> = f.ckey_pages.iter().flat_map(|p| p.entries.iter().map(|e| (*e.content_key.as_bytes(), e.file_size, e.encoding_keys.iter().map(|k| *k.as_bytes()).collect::<Vec<_>>()))).collect();
    let mut ek: Vec<EkRec> = f.ekey_pages.iter().flat_map(|p| p.entries.iter().map(|e| (*e.encoding_key.as_bytes(), f.espec_table.entries.get(e.espec_index as usize).cloned(), e.file_size))).collect();
    ck.sort();
    ek.sort();
    (ck, ek)
}

// ------------------------------------------------------------------------------------------------ TVFS builder programs

/// (path, ekey, encoded size, content size, content key, EST index)
pub type TvfsRec = (String, [u8; 9], u32, u32, [u8; 16], Option<u32>);
/// (path, spans: (file offset, length, container entry: (ekey, encoded size, content key, EST index)))
pub type TvfsFileContent = (String, Vec<(u32, u32, Option<(Vec<u8>, u32, Option<Vec<u8>>, Option<u32>)>)>);

pub struct TvfsProgram {
    pub label: String,
    pub flags: u32,
    pub specs: Vec<String>,
    pub files: Vec<TvfsRec>,
    pub bytes: Result<Vec<u8>, String>,
}

/// A path table stores one path component as length-prefixed name fragments; the length byte 0xFF is the node marker.
pub const TVFS_MAX_FRAGMENT: usize = 254;

const CHARS_BY_WIDTH: [[char; 3]; 4] = [['a', 'Q', '7'], ['é', 'ß', 'д'], ['데', '日', '€'], ['😀', '𝔘', '𐍈']];

/// One path component of exactly `len` bytes: `lead` ASCII bytes, then characters of `width` UTF-8 bytes for as long
/// as they fit, then ASCII filler.
pub fn tvfs_component(width: usize, lead: usize, len: usize) -> String {
    let chars = CHARS_BY_WIDTH[width - 1];
    let mut s = "x".repeat(lead.min(len));
    let mut i = 0;
    while s.len() + width <= len {
        s.push(chars[i % 3]);
        i += 1;
    }
    while s.len() < len {
        s.push('y');
    }
    s
}

pub fn tvfs_program(rng: &mut Rng, label: String, flags: u32, paths: Vec<String>) -> TvfsProgram {
    use cascette_formats::tvfs::{TVFS_FLAG_ENCODING_SPEC, TvfsBuilder};
    let with_est = flags & TVFS_FLAG_ENCODING_SPEC != 0;
    let specs: Vec<String> = if with_est { vec!["z".into(), "b:{256K*=z}".into(), "n".into()] } else { Vec::new() };
    let mut b = TvfsBuilder::with_flags(flags);
    for s in &specs {
        b.add_est_spec(s.clone());
    }
    let mut files: Vec<TvfsRec> = Vec::new();
    for (i, p) in paths.into_iter().enumerate() {
        let rec: TvfsRec = (p, rng.array::<9>(), rng.next_u32(), rng.next_u32(), rng.array::<16>(), with_est.then_some((i % specs.len().max(1)) as u32));
        match rec.5 {
            Some(est) => b.add_file_with_est(rec.0.clone(), rec.1, rec.2, rec.3, Some(rec.4), est),
            None => b.add_file(rec.0.clone(), rec.1, rec.2, rec.3, Some(rec.4)),
        }
        files.push(rec);
    }
    files.sort();
    TvfsProgram { label, flags, specs, files, bytes: b.build().map_err(|e| format!("{e:?}")) }
}

/// Paths of `n` files in a random tree: components of 1..12 bytes, one in five long (up to three fragments), made of
/// characters of every UTF-8 width; no path is a directory of another one.
pub fn tvfs_random_paths(rng: &mut Rng, n: usize) -> Vec<String> {
    let mut files: std::collections::BTreeSet<String> = std::collections::BTreeSet::new();
    let mut dirs: std::collections::BTreeSet<String> = std::collections::BTreeSet::new();
    let component = |rng: &mut Rng| -> String {
        let len = if rng.chance(1, 5) { rng.urange(TVFS_MAX_FRAGMENT - 6, 3 * TVFS_MAX_FRAGMENT + 6) } else { rng.urange(1, 12) };
        let mut s = String::new();
        while s.len() < len {
            let w = rng.urange(1, 4);
            if s.len() + w <= len {
                s.push(CHARS_BY_WIDTH[w - 1][rng.usize_below(3)]);
            }
        }
        s
    };
    let mut attempts = 0;
    while files.len() < n && attempts < 20 * n + 20 {
        attempts += 1;
        // a new file below an existing directory (shared prefixes) or below a new chain of directories
        let mut parent = if !dirs.is_empty() && rng.chance(2, 3) { dirs.iter().nth(rng.usize_below(dirs.len())).cloned().unwrap_or_default() } else { String::new() };
        for _ in 0..rng.urange(0, 2) {
            let c = component(rng);
            parent = if parent.is_empty() { c } else { format!("{parent}/{c}") };
        }
        let c = component(rng);
        let path = if parent.is_empty() { c } else { format!("{parent}/{c}") };
        // every proper prefix becomes a directory: none of them may be a file, and the new file may not be a directory
        let prefixes: Vec<String> = path.match_indices('/').map(|(i, _)| path[..i].to_string()).collect();
        if files.contains(&path) || dirs.contains(&path) || prefixes.iter().any(|p| files.contains(p)) {
            continue;
        }
        dirs.extend(prefixes);
        files.insert(path);
    }
    files.into_iter().collect()
}

/// Builder programs for TVFS: short paths (ASCII and not), path components around every multiple of the fragment
/// limit made of characters of each UTF-8 width at every alignment (as file names and as directory names), random trees.
pub fn tvfs_programs(rng: &mut Rng, random: usize) -> Vec<TvfsProgram> {
    use cascette_formats::tvfs::{TVFS_FLAG_ENCODING_SPEC, TVFS_FLAG_INCLUDE_CKEY, TVFS_FLAG_PATCH_SUPPORT};
    let flag_sets = [TVFS_FLAG_INCLUDE_CKEY, 0, TVFS_FLAG_INCLUDE_CKEY | TVFS_FLAG_ENCODING_SPEC, TVFS_FLAG_INCLUDE_CKEY | TVFS_FLAG_PATCH_SUPPORT];
    let mut out = Vec::new();
    let short: Vec<String> = ["Interface/Icons/inv_misc_questionmark.blp", "Interface/Icons/inv_misc_bag.blp", "Interface/Glues/Ünïcödé/데이터.txt", "Interface/Glues/Ünïcödé/日本語.txt", "world/maps/azeroth/azeroth.wdt", "world/maps/😀/𝔘.adt", "a", "b/c", "ß"].iter().map(|s| (*s).to_string()).collect();
    for (i, flags) in flag_sets.iter().enumerate() {
        out.push(tvfs_program(rng, format!("tvfs short-paths flags={flags}"), *flags, short[..short.len() - i].to_vec()));
    }
    let m = TVFS_MAX_FRAGMENT;
    for width in 1..=4usize {
        let mut paths = Vec::new();
        for len in [m - 1, m, m + 1, m + 2, m + 4, m + 46, 2 * m - 1, 2 * m, 2 * m + 1, 2 * m + 4, 3 * m + 1, 3 * m + 38] {
            for lead in 0..width {
                paths.push(format!("w{width}/{}", tvfs_component(width, lead, len)));
            }
        }
        // the same as directory names, two files below each
        for len in [m + 1, m + 46, 2 * m + 1] {
            for lead in 0..width {
                let d = tvfs_component(width, lead, len);
                paths.push(format!("w{width}d/{d}/leaf.bin"));
                paths.push(format!("w{width}d/{d}/{}", tvfs_component(width, lead, m + 3)));
            }
        }
        out.push(tvfs_program(rng, format!("tvfs component-lengths-around-the-fragment-limit char-width={width}"), flag_sets[width - 1], paths));
    }
    for r in 0..random {
        let n = rng.urange(1, 40);
        let paths = tvfs_random_paths(rng, n);
        out.push(tvfs_program(rng, format!("tvfs random-tree #{r} files={}", paths.len()), flag_sets[r % 4], paths));
    }
    out
}

/// Logical content of a parsed TVFS manifest through its public fields: per file of the path table its spans and the
/// container entries they address; the paths found by walking the tree; the EST strings.
pub fn tvfs_content(t: &cascette_formats::tvfs::TvfsFile) -> (Vec<TvfsFileContent>, Vec<String>, Option<Vec<String>>) {
    use cascette_formats::tvfs::PathTreeNode;
    let mut files: Vec<TvfsFileContent> = t
        .path_table
        .files
        .iter()
        .map(|f| {
            let spans = t.vfs_table.entries.iter().find(|e| e.offset == f.vfs_offset).map(|e| e.spans.as_slice()).unwrap_or(&[]);
            (f.path.clone(), spans.iter().map(|s| (s.file_offset, s.span_length, t.container_table.entries.iter().find(|c| c.offset == s.cft_offset).map(|c| (c.ekey.clone(), c.encoded_size, c.content_key.clone(), c.est_index)))).collect())
        })
        .collect();
    files.sort();
    fn walk(node: &PathTreeNode, prefix: &str, out: &mut Vec<String>) {
        for c in &node.children {
            let p = if prefix.is_empty() {
                c.name.clone()
            } else if c.name.is_empty() {
                prefix.to_string()
            } else {
                format!("{prefix}/{}", c.name)
            };
            if c.vfs_offset.is_some() {
                out.push(p.clone());
            }
            walk(c, &p, out);
        }
    }
    let mut tree = Vec::new();
    walk(&t.path_table.root, "", &mut tree);
    tree.sort();
    (files, tree, t.est_table.as_ref().map(|e| e.specs.clone()))
}

/// First component in which the parsed serialisation of a TVFS builder program differs from what the builder was given.
pub fn tvfs_program_diff(p: &TvfsProgram, t: &cascette_formats::tvfs::TvfsFile) -> Option<&'static str> {
    use cascette_formats::tvfs::TVFS_FLAG_INCLUDE_CKEY;
    let (files, tree, specs) = tvfs_content(t);
    let paths: Vec<&String> = p.files.iter().map(|f| &f.0).collect();
    if files.iter().map(|f| &f.0).collect::<Vec<_>>() != paths {
        return Some("paths");
    }
    // a content key is stored with the manifest's key size
    let ck = |k: &[u8; 16]| (p.flags & TVFS_FLAG_INCLUDE_CKEY != 0).then(|| k[..(t.header.pkey_size as usize).min(16)].to_vec());
    let model: Vec<TvfsFileContent> = p.files.iter().map(|f| (f.0.clone(), vec![(0, f.3, Some((f.1.to_vec(), f.2, ck(&f.4), f.5)))])).collect();
    if files != model {
        return Some("file-records");
    }
    if tree.iter().collect::<Vec<_>>() != paths {
        return Some("tree-paths");
    }
    if specs.unwrap_or_default() != p.specs {
        return Some("est_specs");
    }
    if p.files.iter().any(|f| t.resolve_path(&f.0).is_none_or(|c| c.ekey != f.1)) {
        return Some("resolve_path");
    }
    None
}

/// Seeds (for the mutators) made from the new values: format variants the original corpus did not contain.
pub fn extension_seeds(seed: u64) -> Vec<Seed> {
    let mut rng = Rng::derive(seed, 0xC08_E57);
    let mut v = Vec::new();
    let mut push = |format: &'static str, name: String, bytes: Option<Vec<u8>>| {
        if let Some(bytes) = bytes {
            v.push(Seed { format, name: format!("builder/{name}"), bytes, fixture: false });
        }
    };
    for (name, f) in blte_values(&mut rng).into_iter().filter(|(n, _)| n.starts_with("extended") || n.contains("len=5000 chunk=1024")) {
        push("BlteFile", format!("blte-{}", name.replace(' ', "-")), CascFormat::build(&f).ok());
    }
    // chunk mode 'F' (a nested BLTE frame; deprecated in the API, still accepted by the parser), single-chunk and
    // inside a chunk table
    #[allow(deprecated)]
    {
        use cascette_formats::blte::{BlteFile, ChunkData, CompressionMode};
        let inner = BlteFile::single_chunk(b"nested frame payload, nested frame payload".to_vec(), CompressionMode::ZLib).ok().and_then(|f| CascFormat::build(&f).ok());
        if let Some(inner) = inner {
            let mut single = b"BLTE\0\0\0\0F".to_vec();
            single.extend_from_slice(&inner);
            push("BlteFile", "blte-frame-mode-single".to_string(), Some(single));
            let chunks = vec![ChunkData::from_compressed(CompressionMode::Frame, inner.clone(), Some(42)), ChunkData::from_compressed(CompressionMode::None, b"plain tail".to_vec(), Some(10))];
            push("BlteFile", "blte-frame-mode-in-chunk-table".to_string(), BlteFile::multi_chunk(chunks).ok().and_then(|f| CascFormat::build(&f).ok()));
        }
    }
    for n in [1usize, 9] {
        push("InstallManifest", format!("install-v2-n{n}"), install_v2_value(&mut rng, n).build().ok());
    }
    for (name, m) in size_values(&mut rng).into_iter().filter(|(n, _)| n.contains("esize_bytes=1") || n.contains("esize_bytes=8") || n.contains("ekey=16 esize_bytes=4") || n.contains("no-tags")) {
        push("SizeManifest", name.replace(' ', "-"), m.build().ok());
    }
    for (name, bytes, _, _) in patch_index_programs(&mut rng).into_iter().filter(|p| p.3 != 16) {
        push("PatchIndex", name.replace(' ', "-"), Some(bytes));
    }
    for (name, a) in patch_archive_values(&mut rng) {
        push("PatchArchive", name.replace(' ', "-"), CascFormat::build(&a).ok());
    }
    for s in ["c", "c:{1}", "c:{7}", "g", "g:{1}", "g:{12}", "z:{9,mpq}", "z:{6,zlib,15}", "z:{6,lz4hc,8}", "z:{,mpq,12}", "z:{,15}", "z:{9,15}", "b:z", "b:n", "b:c:{3}", "b:{1M*2=g:{5},*=c}", "e:{0123456789ABCDEF,06FC152E,b:{64K*=z:{,zlib}}}", "b:{22=n,*=e:{0123456789abcdef,06fc152e,g}}"] {
        push("ESpec", format!("espec-variant-{s}"), Some(s.as_bytes().to_vec()));
    }
    for (name, c, _) in build_config_values(&mut rng).into_iter().take(1) {
        push("BuildConfig", format!("build-config-{name}"), CascFormat::build(&c).ok());
    }
    for (name, c, _, _) in cdn_config_values(&mut rng).into_iter().take(1) {
        push("CdnConfig", format!("cdn-config-{name}"), CascFormat::build(&c).ok());
    }
    for (name, c) in patch_config_values(&mut rng).into_iter().take(1) {
        push("PatchConfig", format!("patch-config-{name}"), CascFormat::build(&c).ok());
    }
    for (name, d) in bpsv_values(&mut rng).into_iter().take(1) {
        push("BpsvDocument", format!("bpsv-{name}"), CascFormat::build(&d).ok());
    }
    v.extend(root_header_variant_seeds(&mut rng));
    // (own stream: the seeds above keep the bytes they had before these were added)
    let mut rng2 = Rng::derive(seed, 0xC08_E58);
    let mut push2 = |format: &'static str, name: String, bytes: Option<Vec<u8>>| {
        if let Some(bytes) = bytes {
            v.push(Seed { format, name: format!("builder/{name}"), bytes, fixture: false });
        }
    };
    // path components that need two and three name fragments (file and directory names, 3-byte characters)
    let m = TVFS_MAX_FRAGMENT;
    let long_paths = vec![format!("loc/{}", tvfs_component(3, 1, m + 7)), format!("loc/{}/leaf.bin", tvfs_component(3, 0, 2 * m + 9)), format!("loc/{}/{}", tvfs_component(3, 0, 2 * m + 9), tvfs_component(1, 0, m)), "loc/short.txt".to_string()];
    push2("TvfsFile", "tvfs-multi-fragment-names".to_string(), tvfs_program(&mut rng2, String::new(), cascette_formats::tvfs::TVFS_FLAG_INCLUDE_CKEY, long_paths).bytes.ok());
    // 1 KiB pages on both tables, the CKey pages full to the last byte (two of them)
    push2("EncodingFile", "encoding-1K-pages-ckey-pages-exactly-full".to_string(), encoding_program(&mut rng2, 1, CkShape::Mixed, 2, 0, 1, 2, 0, true).value.ok().and_then(|f| f.build().ok()));
    v
}

// ------------------------------------------------------------------------------------------------ driver

pub fn run(ctx: &Ctx) {
    let mut rng = ctx.rng(0xB01D_2);
    for (label, c, model) in build_config_values(&mut rng) {
        let keys: Vec<String> = model.iter().map(|m| m.0.clone()).collect();
        crate::check_value_keys(ctx, &format!("BuildConfig::new+set {label}"), &c, &keys);
        model_check(ctx, "BuildConfig", &label, || {
            use cascette_formats::config::BuildConfig;
            let parsed = BuildConfig::parse(CascFormat::build(&c).ok()?.as_slice()).ok()?;
            for (k, v) in &model {
                if c.get(k) != Some(v) {
                    return Some("get-after-set-differs-from-what-was-set".to_string());
                }
                if parsed.get(k) != Some(v) {
                    return Some("parsed-entry-differs-from-what-was-set".to_string());
                }
            }
            None
        });
    }
    for (label, c, keys, model) in cdn_config_values(&mut rng) {
        crate::check_value_keys(ctx, &format!("CdnConfig {label}"), &c, &keys);
        model_check(ctx, "CdnConfig", &label, || {
            use cascette_formats::config::CdnConfig;
            let parsed = CdnConfig::parse(CascFormat::build(&c).ok()?.as_slice()).ok()?;
            for (k, v) in &model {
                if c.get(k) != v.as_ref() {
                    return Some("get-after-setter-differs-from-what-was-set".to_string());
                }
                if parsed.get(k) != v.as_ref() {
                    return Some("parsed-entry-differs-from-what-was-set".to_string());
                }
            }
            None
        });
    }
    for (label, c) in patch_config_values(&mut rng) {
        crate::check_value_keys(ctx, &format!("PatchConfig {label}"), &c, &[]);
    }
    // setters against what they were given (a fixed program, literal model)
    model_check(ctx, "PatchConfig", "setters-vs-literal-model", || {
        use cascette_formats::config::{PatchConfig, PatchEntry};
        let (h, ck, ek) = ("00112233445566778899aabbccddeeff".to_string(), "0123456789abcdef0123456789abcdef".to_string(), "fedcba9876543210fedcba9876543210".to_string());
        let mut c = PatchConfig::new();
        c.set_patch_hash(h.clone());
        c.set_patch_size(987_654_321_000);
        c.add_entry(PatchEntry::new("encoding", ck.clone(), 1000, ek.clone(), 900));
        c.set_property("zzz-extra", "value");
        let check = |p: &PatchConfig| -> bool {
            p.patch_hash() == Some(h.as_str())
                && p.patch_size() == Some(987_654_321_000)
                && p.get_property("zzz-extra") == Some("value")
                && p.entry_count() == 1
                && p.entries().first().is_some_and(|e| e.is_type("encoding") && e.content_key == ck && e.content_size == 1000 && e.encoding_key == ek && e.encoded_size == 900)
        };
        if !check(&c) {
            return Some("getters-after-setters-differ-from-what-was-set".to_string());
        }
        let parsed = PatchConfig::parse(CascFormat::build(&c).ok()?.as_slice()).ok()?;
        (!check(&parsed)).then(|| "parsed-config-differs-from-what-was-set".to_string())
    });
    for (label, c) in keyring_values(&mut rng) {
        crate::check_value_keys(ctx, &format!("KeyringConfig {label}"), &c, &[]);
    }
    model_check(ctx, "KeyringConfig", "add_entry-vs-literal-model", || {
        use cascette_formats::config::KeyringConfig;
        let mut k = KeyringConfig::new();
        k.add_entry("FA505078126ACB3E", "BDC51862ABED79B2DE48C8E7E66C6200");
        k.add_entry("0123456789abcdef", "00112233445566778899aabbccddeeff");
        let check = |p: &KeyringConfig| p.len() == 2 && p.get_key("fa505078126acb3e") == Some("bdc51862abed79b2de48c8e7e66c6200") && p.get_key_by_id(0x0123_4567_89ab_cdef) == Some("00112233445566778899aabbccddeeff");
        if !check(&k) {
            return Some("getters-after-add_entry-differ-from-what-was-added".to_string());
        }
        let parsed = KeyringConfig::parse(CascFormat::build(&k).ok()?.as_slice()).ok()?;
        (!check(&parsed)).then(|| "parsed-keyring-differs-from-what-was-added".to_string())
    });
    model_check(ctx, "BpsvDocument", "builder-vs-literal-model", || {
        use cascette_formats::bpsv::{BpsvBuilder, BpsvDocument, BpsvField, BpsvType, BpsvValue};
        let mut b = BpsvBuilder::new();
        b.add_field(BpsvField::new("Region", BpsvType::String(0))).add_field(BpsvField::new("Key", BpsvType::Hex(4))).add_field(BpsvField::new("Id", BpsvType::Dec(4)));
        b.set_sequence(31337);
        b.add_row(vec![BpsvValue::String("us".into()), BpsvValue::Hex(vec![0xde, 0xad, 0xbe, 0xef]), BpsvValue::Dec(-12)]).ok()?;
        b.add_row(vec![BpsvValue::Empty, BpsvValue::Empty, BpsvValue::Dec(0)]).ok()?;
        let d = b.build();
        let check = |d: &BpsvDocument| {
            d.sequence_number() == Some(31337)
                && d.field_names() == ["Region", "Key", "Id"]
                && d.row_count() == 2
                && d.get_row(0).is_some_and(|r| r.raw_values() == ["us", "deadbeef", "-12"])
                && d.get_row(1).is_some_and(|r| r.raw_values() == ["", "", "0"])
        };
        if !check(&d) {
            return Some("document-differs-from-what-the-builder-was-given".to_string());
        }
        let parsed = <BpsvDocument as CascFormat>::parse(&CascFormat::build(&d).ok()?).ok()?;
        (!check(&parsed)).then(|| "parsed-document-differs-from-what-the-builder-was-given".to_string())
    });
    for (label, d) in bpsv_values(&mut rng) {
        crate::check_value_keys(ctx, &format!("Bpsv {label}"), &d, &[]);
    }
    for (label, e) in espec_values() {
        crate::check_value_keys(ctx, &format!("ESpec {label}"), &e, &[]);
    }
    for (label, f) in blte_values(&mut rng) {
        crate::check_value_keys(ctx, &format!("BlteFile {label}"), &f, &[]);
    }
    for n in [0usize, 1, 8, 9, 17] {
        crate::check_value_keys(ctx, &format!("InstallManifest v2 literal n={n}"), &install_v2_value(&mut rng, n), &[]);
    }
    for (label, m) in size_values(&mut rng) {
        crate::check_value_keys(ctx, &label, &m, &[]);
    }
    for (label, a) in patch_archive_values(&mut rng) {
        crate::check_value_keys(ctx, &label, &a, &[]);
    }
    // builders that return bytes only: the content is what was handed to the builder
    for (label, bytes, entries, ks) in patch_index_programs(&mut rng) {
        ctx.eval_nontrivial(vh::mix64(vh::fnv64(b"builder-program"), vh::fnv64(label.as_bytes())));
        ctx.obs("builder_programs.PatchIndex", 1);
        let r = std::panic::catch_unwind(|| <cascette_formats::patch_index::PatchIndex as CascFormat>::parse(&bytes).map(|p| (p.key_size, p.entries)).map_err(|e| crate::err_class(&format!("{e:?}"))));
        let class = match r {
            Err(_) => Some(format!("panic:{}", crate::take_panic())),
            Ok(Err(e)) => Some(format!("parse-fails:{e}")),
            Ok(Ok((k, _))) if k != ks => Some("key_size".to_string()),
            Ok(Ok((_, e))) if e != entries => Some("entries".to_string()),
            Ok(Ok(_)) => None,
        };
        if let Some(class) = class {
            crate::report(ctx, &format!("C08|PatchIndex|builder-value-changed|{class}"), "builder-value-changed", json!({"format": "PatchIndex", "builder_value": label, "key_size": ks, "entries": entries.len()}));
        }
    }
    for (label, bytes, model) in archive_index_programs(&mut rng) {
        ctx.eval_nontrivial(vh::mix64(vh::fnv64(b"builder-program"), vh::fnv64(label.as_bytes())));
        ctx.obs("builder_programs.ArchiveIndex", 1);
        let r = std::panic::catch_unwind(|| cascette_formats::archive::ArchiveIndex::parse(std::io::Cursor::new(&bytes)).map(|i| i.entries.iter().map(|e| (e.encoding_key.clone(), e.size, e.offset)).collect::<Vec<_>>()).map_err(|e| crate::err_class(&format!("{e:?}"))));
        let class = match r {
            Err(_) => Some(format!("panic:{}", crate::take_panic())),
            Ok(Err(e)) => Some(format!("parse-fails:{e}")),
            Ok(Ok(e)) if e != model => Some("entries".to_string()),
            Ok(Ok(_)) => None,
        };
        if let Some(class) = class {
            crate::report(ctx, &format!("C08|ArchiveIndex|builder-value-changed|default-layout-api:{class}"), "builder-value-changed", json!({"format": "ArchiveIndex", "builder_value": label, "entries": model.len()}));
        }
    }
    // (own streams: the programs above keep the values they had before these were added)
    let mut rng_e = ctx.rng(0xB01D_3);
    for p in encoding_programs(&mut rng_e, ctx.pick(4usize, 60)) {
        ctx.eval_nontrivial(vh::mix64(vh::fnv64(b"builder-program"), vh::fnv64(p.label.as_bytes())));
        ctx.obs("builder_programs.EncodingFile", 1);
        let value = match &p.value {
            Ok(v) => v,
            Err(e) => {
                crate::report(ctx, &format!("C08|EncodingFile|builder-value-changed|model:build-fails:{}", crate::err_class(e)), "builder-value-changed", json!({"format": "EncodingFile", "builder_value": p.label, "error": e}));
                continue;
            }
        };
        // how full the pages of this value are (what the run reached, for the evidence)
        for (table, used, size) in [("ckey", value.ckey_pages.iter().map(|pg| pg.entries.iter().map(|e| 22 + 16 * e.encoding_keys.len()).sum::<usize>()).collect::<Vec<_>>(), value.header.ckey_page_size()), ("ekey", value.ekey_pages.iter().map(|pg| pg.entries.len() * 25).collect::<Vec<_>>(), value.header.ekey_page_size())] {
            for u in used {
                ctx.obs(&format!("builder_programs.EncodingFile.{table}_page.{}", if u == size { "full-to-the-last-byte" } else if u + 54 > size { "no-room-for-another-entry" } else { "partly-filled" }), 1);
            }
        }
        // the value as the builder returned it against its own serialisation …
        crate::check_value_keys(ctx, &p.label, value, &[]);
        // … and the parsed serialisation against the literals handed to the builder
        let r = std::panic::catch_unwind(std::panic::AssertUnwindSafe(|| -> Option<String> {
            let bytes = match value.build() {
                Ok(b) => b,
                Err(e) => return Some(format!("serialise-fails:{}", crate::err_class(&format!("{e:?}")))),
            };
            let parsed = match cascette_formats::encoding::EncodingFile::parse(&bytes) {
                Ok(f) => f,
                Err(e) => return Some(format!("parse-fails:{}", crate::err_class(&format!("{e:?}")))),
            };
            let (ck, ek) = encoding_content(&parsed);
            if (parsed.header.ckey_page_size_kb, parsed.header.ekey_page_size_kb) != p.page_kb {
                Some("page_sizes".to_string())
            } else if ck != p.ckeys {
                Some("ckey_entries".to_string())
            } else if ek != p.ekeys {
                Some("ekey_entries".to_string())
            } else if parsed.trailing_espec != p.trailing {
                Some("trailing_espec".to_string())
            } else {
                None
            }
        }));
        let class = match r {
            Ok(c) => c,
            Err(_) => Some(format!("panic:{}", crate::take_panic())),
        };
        if let Some(class) = class {
            crate::report(ctx, &format!("C08|EncodingFile|builder-value-changed|model:{class}"), "builder-value-changed", json!({"format": "EncodingFile", "builder_value": p.label, "ckey_entries": p.ckeys.len(), "ekey_entries": p.ekeys.len()}));
        }
    }
    let mut rng_t = ctx.rng(0xB01D_4);
    for p in tvfs_programs(&mut rng_t, ctx.pick(8usize, 150)) {
        ctx.eval_nontrivial(vh::mix64(vh::fnv64(b"builder-program"), vh::fnv64(p.label.as_bytes())));
        ctx.obs("builder_programs.TvfsFile", 1);
        for f in &p.files {
            for c in f.0.split('/') {
                let frags = c.len().div_ceil(TVFS_MAX_FRAGMENT);
                ctx.obs(&format!("builder_programs.TvfsFile.component.{}-fragment{}", frags.min(4), if frags >= 4 { "s-or-more" } else { "" }), 1);
                if (1..frags).any(|k| !c.is_char_boundary(k * TVFS_MAX_FRAGMENT)) {
                    ctx.obs("builder_programs.TvfsFile.component.character-across-a-fragment-boundary", 1);
                }
            }
        }
        let class = match &p.bytes {
            Err(e) => Some(format!("build-fails:{}", crate::err_class(e))),
            Ok(bytes) => match std::panic::catch_unwind(std::panic::AssertUnwindSafe(|| cascette_formats::tvfs::TvfsFile::parse(bytes).map(|t| tvfs_program_diff(&p, &t).map(str::to_string)).map_err(|e| crate::err_class(&format!("{e:?}"))))) {
                Err(_) => Some(format!("panic:{}", crate::take_panic())),
                Ok(Err(e)) => Some(format!("parse-fails:{e}")),
                Ok(Ok(diff)) => diff,
            },
        };
        if let Some(class) = class {
            crate::report(ctx, &format!("C08|TvfsFile|builder-value-changed|{class}"), "builder-value-changed", json!({"format": "TvfsFile", "builder_value": p.label, "files": p.files.len(), "flags": p.flags, "longest_component_bytes": p.files.iter().flat_map(|f| f.0.split('/')).map(str::len).max()}));
        }
    }
    for p in root_programs(&mut rng) {
        ctx.eval_nontrivial(vh::mix64(vh::fnv64(b"builder-program"), vh::fnv64(p.label.as_bytes())));
        ctx.obs("builder_programs.RootFile", 1);
        let named = p.records.iter().filter(|r| r.4.is_some()).count();
        let ambiguous = v2_header_ambiguous(p.version, p.records.len(), named);
        if ambiguous {
            ctx.obs("builder_programs.RootFile.v2_counts_in_extended_header_window", 1);
        }
        let class = match &p.bytes {
            Err(e) => Some(format!("build-fails:{}", crate::err_class(e))),
            Ok(bytes) => match std::panic::catch_unwind(|| cascette_formats::root::RootFile::parse(bytes).map(|f| (f.version, root_records(&f))).map_err(|e| crate::err_class(&format!("{e:?}")))) {
                Err(_) => Some(format!("panic:{}", crate::take_panic())),
                Ok(Err(e)) => Some(format!("parse-fails:{e}")),
                Ok(Ok((v, _))) if v != p.version => Some("version".to_string()),
                Ok(Ok((_, r))) if r != p.records => Some("records".to_string()),
                Ok(Ok(_)) => None,
            },
        };
        if let Some(class) = class {
            // one defect, one signature: whatever the misread header leads to
            let class = if ambiguous { crate::fmts::ROOT_V2_AMBIGUITY.to_string() } else { class };
            crate::report(ctx, &format!("C08|RootFile|builder-value-changed|{class}"), "builder-value-changed", json!({"format": "RootFile", "builder_value": p.label, "records": p.records.len(), "named": named, "first_bytes": p.bytes.as_ref().ok().map(|b| vh::hex_short(b, 24))}));
        }
    }
}

/// A builder program judged against the literal values it was given. `f` returns the failing relation, None when
/// everything agrees (also when serialisation / parsing fails: that is `check_value`'s finding, not this one's).
fn model_check(ctx: &Ctx, format: &str, label: &str, f: impl FnOnce() -> Option<String>) {
    ctx.eval_nontrivial(vh::mix64(vh::fnv64(b"builder-model"), vh::mix64(vh::fnv64(format.as_bytes()), vh::fnv64(label.as_bytes()))));
    ctx.obs(&format!("builder_models.{format}"), 1);
    let class = match std::panic::catch_unwind(std::panic::AssertUnwindSafe(f)) {
        Ok(c) => c,
        Err(_) => Some(format!("panic:{}", crate::take_panic())),
    };
    if let Some(class) = class {
        crate::report(ctx, &format!("C08|{format}|builder-value-changed|model:{class}"), "builder-value-changed", json!({"format": format, "builder_value": label}));
    }
}

fn root_records(r: &cascette_formats::root::RootFile) -> Vec<RootRec> {
    let mut v: Vec<RootRec> = r.blocks.iter().flat_map(|b| b.records.iter().map(move |x| (b.locale_flags().value(), b.content_flags().value, x.file_data_id.get(), *x.content_key.as_bytes(), x.name_hash))).collect();
    v.sort_unstable();
    v
}
