//! C18 — compaction never loses or overwrites live data.
//!
//! Parts
//!   A. `extract_compact_segment` on real files (0..=600 KiB of position-dependent
//!      bytes) with generated span sets and buffer budgets; exact comparison of
//!      the resulting file with the concatenation of the live spans' ORIGINAL
//!      bytes in offset order; `saved == old length - new length`; overlapping
//!      sets must be refused with the file byte-identical.
//!   B. `validate_spans` / `DataSpan::overlaps` on span sets without files.
//!   C. `CompactionFileMover::{move_data, compact_in_place}` directly against a
//!      memmove / splice model on byte vectors.
//!   D. `plan_archive_merge` on generated segment populations against an
//!      interval model per destination seeded with `[0, write_position)`.
//!   E. `ArchiveManager::compact` after real appends: every appended record's
//!      bytes must be unchanged on disk and every object must decode to the
//!      same payload afterwards (same manager, after a later append, and through
//!      a manager that opened the directory); archives with an unused tail make
//!      the truncation branch run.
//!   E2. The same judgement in histories with several `ArchiveManager` handles on one
//!      directory (appends by different handles, handles that look at the
//!      directory again with `open_all` / `open_archive`, tails from outside):
//!      live data = every record any handle appended.
//!   F. Merge end-to-end: populations from the real `SegmentAllocator` on real
//!      segment files, plan judged and then executed with `move_data`; every live
//!      object compared at its original and planned location; one segment file
//!      per case defragmented with `extract_compact_segment`.
//!   G. The extract-compact journal (`ExtractorCompactorBackup`): a recovery reads
//!      exactly the recorded segment indices.
//!   B'. `validate_spans` with offsets beyond 32 bits.
//!
//! Not judged: plans that move less than an optimal packer would; spans
//! reaching beyond EOF, an empty span list, zero-length spans lying inside (or
//! at the start of) another span, and `compact_in_place` used upwards
//! (dest > src) over an overlapping multi-chunk range — all recorded as
//! observations only.

use cascette_client_storage::storage::ArchiveManager;
use cascette_client_storage::storage::compaction::{CompactionFileMover, CompactionPlan, DataSpan, ExtractorCompactorBackup, extract_compact_segment, plan_archive_merge, validate_spans};
use cascette_client_storage::storage::segment::{SEGMENT_HEADER_SIZE, SegmentAllocator, SegmentHeader, SegmentInfo, SegmentState, segment_data_path};
use cascette_formats::blte::CompressionMode;
use serde_json::{Value, json};
use std::collections::HashMap;
use std::fs::OpenOptions;
use std::path::Path;
use std::sync::atomic::{AtomicUsize, Ordering};
use vh::{Ctx, Rng, fnv64, mix64};

const KIB: usize = 1024;
const BUDGETS: [usize; 6] = [0, 128 * KIB, 1024 * KIB, 4096 * KIB, 200_000, 256 * KIB];

#[derive(Default)]
struct Cnt {
    m: HashMap<String, u64>,
}
impl Cnt {
    fn add(&mut self, k: &str, n: u64) {
        *self.m.entry(k.to_string()).or_insert(0) += n;
    }
    fn flush(&mut self, ctx: &Ctx) {
        for (k, v) in self.m.drain() {
            ctx.obs(&k, v);
        }
    }
}

/// Position-dependent content: byte i is a function of (i, salt) only.
fn content(len: usize, salt: u64) -> Vec<u8> {
    let mut v = vec![0u8; len];
    for (j, chunk) in v.chunks_mut(8).enumerate() {
        let mut x = (j as u64 ^ salt.rotate_left(17)).wrapping_mul(0x9e37_79b9_7f4a_7c15);
        x ^= x >> 29;
        x = x.wrapping_mul(0xbf58_476d_1ce4_e5b9);
        x ^= x >> 32;
        let b = x.to_le_bytes();
        chunk.copy_from_slice(&b[..chunk.len()]);
    }
    v
}

fn spans_json(spans: &[(u64, u64)]) -> Value {
    Value::Array(spans.iter().map(|(o, l)| json!([o, l])).collect())
}

// ---------------------------------------------------------------------------
// independent span classification
// ---------------------------------------------------------------------------

#[derive(Debug, Clone, Copy, PartialEq, Eq)]
enum SetClass {
    /// no two spans share a byte, no zero-length span inside / at the start of another span
    Valid,
    /// two positive-length spans share at least one byte
    Overlapping(&'static str),
    /// only zero-length spans lie inside or at the start of a positive span: either verdict is accepted
    Ambiguous,
}

fn classify(spans: &[(u64, u64)]) -> SetClass {
    let mut ambiguous = false;
    for (i, &(ao, al)) in spans.iter().enumerate() {
        for (j, &(bo, bl)) in spans.iter().enumerate() {
            if i == j {
                continue;
            }
            if al > 0 && bl > 0 {
                if i < j && ao < bo + bl && bo < ao + al {
                    let kind = if ao == bo && al == bl {
                        "identical-spans"
                    } else if (ao <= bo && bo + bl <= ao + al) || (bo <= ao && ao + al <= bo + bl) {
                        "one-span-contains-the-other"
                    } else if (ao + al).min(bo + bl) - ao.max(bo) == 1 {
                        "one-shared-byte"
                    } else {
                        "partial-overlap"
                    };
                    return SetClass::Overlapping(kind);
                }
            } else if al == 0 && bl > 0 && bo <= ao && ao < bo + bl {
                ambiguous = true;
            }
        }
    }
    if ambiguous { SetClass::Ambiguous } else { SetClass::Valid }
}

fn expected_concat(orig: &[u8], spans: &[(u64, u64)]) -> Vec<u8> {
    let mut s: Vec<(u64, u64)> = spans.to_vec();
    s.sort_by_key(|x| x.0);
    let mut out = Vec::new();
    for (o, l) in s {
        out.extend_from_slice(&orig[o as usize..(o + l) as usize]);
    }
    out
}

// ---------------------------------------------------------------------------
// span set generator
// ---------------------------------------------------------------------------

#[derive(Debug, Clone)]
struct SpanCase {
    file_len: usize,
    salt: u64,
    budget: usize,
    spans: Vec<(u64, u64)>,
    /// generator's label (for the evidence), not used by the oracle
    shape: &'static str,
}

fn gen_file_len(rng: &mut Rng, big_ok: bool) -> usize {
    match rng.below(20) {
        0 => 0,
        1 => 1,
        2..=5 => rng.urange(2, 4 * KIB),
        6..=9 => rng.urange(4 * KIB, 128 * KIB),
        10..=14 => {
            let base = *rng.pick(&[128 * KIB, 200_000, 256 * KIB, 384 * KIB, 512 * KIB]);
            (base + rng.urange(0, 64)).saturating_sub(rng.urange(0, 32))
        }
        _ => {
            if big_ok {
                rng.urange(300 * KIB, 600 * KIB)
            } else {
                rng.urange(4 * KIB, 128 * KIB)
            }
        }
    }
}

/// non-overlapping spans from sorted cut points
fn gen_valid_spans(rng: &mut Rng, len: usize, k: usize) -> Vec<(u64, u64)> {
    let mut cuts: Vec<u64> = (0..2 * k).map(|_| rng.range(0, len as u64)).collect();
    cuts.sort_unstable();
    let mut v: Vec<(u64, u64)> = cuts.chunks(2).map(|c| (c[0], c[1] - c[0])).collect();
    // drop zero-length spans that would sit at the start of the next span
    // (kept only in the dedicated zero-length shapes)
    v.retain(|s| s.1 > 0);
    v
}

fn gen_span_case(rng: &mut Rng, buf_hint: usize) -> SpanCase {
    let budget = *rng.pick(&BUDGETS);
    let salt = rng.next_u64();
    let shape_sel = rng.below(16);
    let mut file_len = gen_file_len(rng, true);
    let k = match rng.below(8) {
        0 => 1,
        1 => 2,
        2..=5 => rng.urange(1, 12),
        6 => rng.urange(12, 60),
        _ => rng.urange(60, 300),
    };
    let (mut spans, shape): (Vec<(u64, u64)>, &'static str) = match shape_sel {
        0 => {
            // adjacent: a partition of a prefix of the file
            let mut cuts: Vec<u64> = (0..k).map(|_| rng.range(0, file_len as u64)).collect();
            cuts.push(0);
            cuts.sort_unstable();
            cuts.dedup();
            let v = cuts.windows(2).map(|w| (w[0], w[1] - w[0])).collect();
            (v, "adjacent-from-0")
        }
        1 => {
            // adjacent run that starts after a gap
            let mut cuts: Vec<u64> = (0..k + 1).map(|_| rng.range(0, file_len as u64)).collect();
            cuts.sort_unstable();
            cuts.dedup();
            let v = cuts.windows(2).map(|w| (w[0], w[1] - w[0])).collect();
            (v, "adjacent-after-gap")
        }
        2 | 3 => (gen_valid_spans(rng, file_len, k), "gapped"),
        4 => {
            // first span strictly after offset 0
            let mut v = gen_valid_spans(rng, file_len, k);
            v.retain(|s| s.0 > 0);
            (v, "first-span-after-0")
        }
        5 | 6 | 7 => {
            // one span larger than the I/O buffer, preceded by a gap smaller than the span
            let buf = buf_hint.max(CompactionFileMover::new(budget).buffer_size());
            file_len = file_len.max(buf + rng.urange(2, 300 * KIB).min(600 * KIB - buf));
            let big_len = rng.urange(buf + 1, (file_len - 1).min(buf * 2 + 70_000).max(buf + 1));
            let max_start = file_len - big_len;
            let near = rng.bool();
            let start = if max_start == 0 { 0 } else { rng.urange(1, max_start.min(if near { 4096 } else { max_start })) };
            let mut v: Vec<(u64, u64)> = Vec::new();
            // small spans before the big one (keeps a gap)
            if start > 2 && rng.bool() {
                let a = rng.urange(0, start - 2);
                let l = rng.urange(1, start - 1 - a);
                v.push((a as u64, l as u64));
            }
            v.push((start as u64, big_len as u64));
            let end = start + big_len;
            if end < file_len && rng.bool() {
                let a = rng.urange(end, file_len - 1);
                let l = rng.urange(1, file_len - a);
                v.push((a as u64, l as u64));
            }
            (v, "span-larger-than-io-buffer")
        }
        8 => {
            // zero-length spans at harmless places: in gaps, at EOF, at the end of a span
            let mut v = gen_valid_spans(rng, file_len, k);
            let mut extra = Vec::new();
            for _ in 0..rng.urange(1, 4) {
                let pos = match rng.below(3) {
                    0 => file_len as u64,
                    1 => v.first().map_or(0, |s| s.0 + s.1),
                    _ => rng.range(0, file_len as u64),
                };
                extra.push((pos, 0u64));
            }
            v.extend(extra);
            (v, "with-zero-length-spans")
        }
        9 => {
            // only zero-length spans
            let v = (0..rng.urange(1, 4)).map(|_| (rng.range(0, file_len as u64), 0u64)).collect();
            (v, "only-zero-length-spans")
        }
        10 => (vec![(0, file_len as u64)], "single-span-whole-file"),
        11 => {
            let a = rng.range(0, file_len as u64);
            (vec![(a, file_len as u64 - a)], "single-span-to-eof")
        }
        12 => (Vec::new(), "empty-span-list"),
        _ => (gen_valid_spans(rng, file_len, k), "gapped"),
    };
    // overlapping variants are derived from a valid set
    let mut shape = shape;
    if rng.chance(1, 5) && !spans.is_empty() && spans.iter().any(|s| s.1 > 0) {
        let pos: Vec<usize> = spans.iter().enumerate().filter(|(_, s)| s.1 > 0).map(|(i, _)| i).collect();
        let (o, l) = spans[*rng.pick(&pos)];
        let extra = match rng.below(5) {
            0 => (o, l),                                                  // identical
            1 => (o + rng.range(0, l - 1), 1),                            // contained single byte
            2 => (o + l - 1, rng.range(1, 50)),                           // shares the last byte (may pass EOF -> clipped below)
            3 => (o.saturating_sub(rng.range(0, 50)), rng.range(1, 50) + o.min(50)), // reaches into the start
            _ => {
                let a = o + rng.range(0, l - 1);
                (a, rng.range(1, l))
            }
        };
        let mut e = extra;
        if e.0 + e.1 > file_len as u64 {
            e.1 = (file_len as u64).saturating_sub(e.0);
        }
        if e.1 > 0 {
            spans.push(e);
            shape = "overlapping-added";
        }
    }
    // beyond EOF (observation only), derived from a valid, non-overlapping set
    if shape != "overlapping-added" && rng.chance(1, 40) {
        let a = rng.range(file_len as u64 / 2, file_len as u64 + 10);
        let end_max = spans.iter().map(|s| s.0 + s.1).max().unwrap_or(0);
        let a = a.max(end_max);
        spans.push((a, (file_len as u64 + rng.range(1, 5000)).saturating_sub(a).max(1)));
        shape = "beyond-eof";
    }
    // unsorted input order
    if rng.bool() {
        rng.shuffle(&mut spans);
    }
    SpanCase { file_len, salt, budget, spans, shape }
}

// ---------------------------------------------------------------------------
// part A: extract_compact_segment on files
// ---------------------------------------------------------------------------

fn is_sorted(spans: &[(u64, u64)]) -> bool {
    spans.windows(2).all(|w| w[0].0 <= w[1].0)
}

fn case_detail(c: &SpanCase) -> Value {
    json!({"kind":"extract","file_len":c.file_len,"salt":c.salt.to_string(),"budget":c.budget,"spans":spans_json(&c.spans),"shape":c.shape})
}

fn run_extract_case(ctx: &Ctx, c: &SpanCase, path: &Path, cnt: &mut Cnt) {
    let orig = content(c.file_len, c.salt);
    if let Err(e) = std::fs::write(path, &orig) {
        ctx.inconclusive(&format!("cannot write scratch file: {e}"));
        return;
    }
    let mut mover = CompactionFileMover::new(c.budget);
    let buf = mover.buffer_size();
    let mut dspans: Vec<DataSpan> = c.spans.iter().map(|&(offset, length)| DataSpan { offset, length }).collect();
    let beyond = c.spans.iter().any(|s| s.0 + s.1 > c.file_len as u64);
    let class = classify(&c.spans);

    let res = {
        let mut f = match OpenOptions::new().read(true).write(true).open(path) {
            Ok(f) => f,
            Err(e) => {
                ctx.inconclusive(&format!("cannot open scratch file: {e}"));
                return;
            }
        };
        std::panic::catch_unwind(std::panic::AssertUnwindSafe(|| extract_compact_segment(&mut f, &mut dspans, &mut mover)))
    };
    let after = match std::fs::read(path) {
        Ok(a) => a,
        Err(e) => {
            ctx.inconclusive(&format!("cannot read scratch file back: {e}"));
            return;
        }
    };

    cnt.add(&format!("extract.shape.{}", c.shape), 1);
    cnt.add(&format!("extract.budget.{}", c.budget), 1);
    cnt.add("extract.bytes_in_files", c.file_len as u64);
    if !is_sorted(&c.spans) {
        cnt.add("extract.unsorted_input_order", 1);
    }

    let h = mix64(fnv64(b"extract"), mix64(c.file_len as u64, mix64(c.budget as u64, fnv64(format!("{:?}", c.spans).as_bytes()))));
    // non-trivial: at least one live byte has to move, or an overlap has to be refused
    let moves_data = {
        let mut s = c.spans.clone();
        s.sort_by_key(|x| x.0);
        let mut wp = 0u64;
        let mut m = false;
        for (o, l) in &s {
            if *o > wp && *l > 0 {
                m = true;
            }
            wp += l;
        }
        m
    };
    if moves_data || matches!(class, SetClass::Overlapping(_)) {
        ctx.eval_nontrivial(h);
    } else {
        ctx.eval();
    }

    let res = match res {
        Ok(r) => r,
        Err(p) => {
            let msg = vh::monitor::watchdog::panic_message(&p);
            if beyond {
                cnt.add("extract.beyond_eof.panicked(observation)", 1);
            } else {
                ctx.violation("C18|extract_compact_segment|panic", "extract_compact_segment panicked on an in-range span set", json!({"case": case_detail(c), "panic": msg}));
            }
            return;
        }
    };

    if beyond {
        // unspecified: record only
        match &res {
            Ok(_) => cnt.add("extract.beyond_eof.accepted(observation)", 1),
            Err(_) if after == orig => cnt.add("extract.beyond_eof.refused_file_untouched(observation)", 1),
            Err(_) => cnt.add("extract.beyond_eof.refused_file_modified(observation)", 1),
        }
        return;
    }
    if c.spans.is_empty() {
        match &res {
            Ok(s) if after == orig => cnt.add(&format!("extract.empty_span_list.noop_returns_{}(observation)", if *s == 0 { "0" } else { "nonzero" }), 1),
            Ok(_) => cnt.add("extract.empty_span_list.file_changed(observation)", 1),
            Err(_) => cnt.add("extract.empty_span_list.refused(observation)", 1),
        }
        return;
    }

    // geometry of the hardest move (for evidence and signatures)
    let mut big_overlapping_move = false;
    {
        let mut s = c.spans.clone();
        s.sort_by_key(|x| x.0);
        let mut wp = 0u64;
        for (o, l) in &s {
            if *o > wp && *l as usize > buf && (*o - wp) < *l {
                big_overlapping_move = true;
            }
            wp += l;
        }
    }
    let geom = if big_overlapping_move { "span>io-buffer-moved-over-itself" } else { "other-geometry" };

    let check_ok = |saved: u64, cnt: &mut Cnt| {
        let want = expected_concat(&orig, &c.spans);
        if after.len() != want.len() {
            ctx.violation(
                &format!("C18|extract_compact_segment|file-length-differs-from-sum-of-live-spans|{geom}"),
                "after Ok(saved) the file length is not the sum of the live span lengths",
                json!({"case": case_detail(c), "file_len_after": after.len(), "want_len": want.len(), "saved": saved}),
            );
        } else if after != want {
            let first = after.iter().zip(&want).position(|(a, b)| a != b);
            ctx.violation(
                &format!("C18|extract_compact_segment|file-content-differs-from-concatenation-of-live-spans|{geom}"),
                "after Ok(saved) the file is not the concatenation of the live spans' original bytes in offset order",
                json!({"case": case_detail(c), "first_diff": first, "io_buffer": buf}),
            );
        }
        if saved != (orig.len() as u64).wrapping_sub(after.len() as u64) {
            ctx.violation(
                "C18|extract_compact_segment|bytes-saved-differs-from-old-length-minus-new-length",
                "returned bytes_saved is not old length - new length",
                json!({"case": case_detail(c), "saved": saved, "old_len": orig.len(), "new_len": after.len()}),
            );
        }
        if big_overlapping_move {
            cnt.add("extract.boundary.span_larger_than_io_buffer_moved_over_itself", 1);
        }
        if moves_data {
            cnt.add("extract.outcome.compacted_with_moves", 1);
        } else {
            cnt.add("extract.outcome.ok_nothing_to_move", 1);
        }
    };

    match (class, res) {
        (SetClass::Valid, Ok(saved)) => check_ok(saved, cnt),
        (SetClass::Valid, Err(e)) => {
            let adjacent = c.spans.iter().any(|a| a.1 > 0 && c.spans.iter().any(|b| b.1 > 0 && a.0 + a.1 == b.0));
            let zero = c.spans.iter().any(|s| s.1 == 0);
            let kind = if adjacent { "adjacent-spans" } else if zero { "set-with-zero-length-span" } else { "gapped-spans" };
            ctx.violation(
                &format!("C18|extract_compact_segment|non-overlapping-set-refused|{kind}"),
                "a span set in which no two spans share a byte was refused",
                json!({"case": case_detail(c), "error": e.to_string(), "file_untouched": after == orig}),
            );
        }
        (SetClass::Overlapping(kind), Ok(saved)) => {
            ctx.violation(
                &format!("C18|extract_compact_segment|overlapping-set-accepted|{kind}"),
                "an overlapping span set was compacted instead of refused",
                json!({"case": case_detail(c), "saved": saved, "file_changed": after != orig}),
            );
        }
        (SetClass::Overlapping(kind), Err(_)) => {
            cnt.add(&format!("extract.outcome.overlap_refused.{kind}"), 1);
            if after != orig {
                ctx.violation(
                    "C18|extract_compact_segment|overlapping-set-refused-but-file-modified",
                    "an overlapping span set was refused but the file was changed",
                    json!({"case": case_detail(c), "len_before": orig.len(), "len_after": after.len()}),
                );
            }
        }
        (SetClass::Ambiguous, Ok(saved)) => {
            cnt.add("extract.zero_length_span_inside_span.accepted(observation)", 1);
            check_ok(saved, cnt);
        }
        (SetClass::Ambiguous, Err(_)) => {
            cnt.add("extract.zero_length_span_inside_span.refused(observation)", 1);
            if after != orig {
                ctx.violation(
                    "C18|extract_compact_segment|set-refused-but-file-modified|zero-length-span-inside-span",
                    "a span set was refused but the file was changed",
                    json!({"case": case_detail(c)}),
                );
            }
        }
    }
    if ctx.want_sample() && moves_data && c.spans.len() <= 6 {
        ctx.sample(json!({"part":"extract","file_len":c.file_len,"budget":c.budget,"io_buffer":buf,"spans":spans_json(&c.spans),"shape":c.shape,"file_len_after":after.len()}));
    }
}

// ---------------------------------------------------------------------------
// part B: validate_spans / overlaps without files
// ---------------------------------------------------------------------------

fn run_validate_case(ctx: &Ctx, rng: &mut Rng, cnt: &mut Cnt) {
    let c = gen_span_case(rng, 0);
    let spans: Vec<(u64, u64)> = c.spans.iter().copied().take(40).collect();
    let mut d: Vec<DataSpan> = spans.iter().map(|&(offset, length)| DataSpan { offset, length }).collect();
    let r = validate_spans(&mut d);
    let class = classify(&spans);
    let h = mix64(fnv64(b"validate"), fnv64(format!("{spans:?}").as_bytes()));
    if spans.len() >= 2 {
        ctx.eval_nontrivial(h);
    } else {
        ctx.eval();
    }
    cnt.add("validate_spans.sets", 1);
    let detail = || json!({"kind":"validate","spans":spans_json(&spans)});
    match (class, &r) {
        (SetClass::Valid, Err(e)) => {
            let adjacent = spans.iter().any(|a| a.1 > 0 && spans.iter().any(|b| b.1 > 0 && a.0 + a.1 == b.0));
            ctx.violation(&format!("C18|validate_spans|non-overlapping-set-refused|{}", if adjacent { "adjacent-spans" } else { "no-adjacent-spans" }), "validate_spans refused a set in which no two spans share a byte", json!({"case": detail(), "error": e.to_string()}));
        }
        (SetClass::Overlapping(kind), Ok(())) => {
            ctx.violation(&format!("C18|validate_spans|overlapping-set-accepted|{kind}"), "validate_spans accepted an overlapping set", json!({"case": detail()}));
        }
        (SetClass::Overlapping(_), Err(_)) => cnt.add("validate_spans.overlap_refused", 1),
        (SetClass::Valid, Ok(())) => cnt.add("validate_spans.valid_accepted", 1),
        (SetClass::Ambiguous, Ok(())) => cnt.add("validate_spans.zero_length_inside_span.accepted(observation)", 1),
        (SetClass::Ambiguous, Err(_)) => cnt.add("validate_spans.zero_length_inside_span.refused(observation)", 1),
    }
    if r.is_ok() {
        // the slice must still be the same multiset, sorted by offset
        let mut got: Vec<(u64, u64)> = d.iter().map(|s| (s.offset, s.length)).collect();
        if !is_sorted(&got) {
            ctx.violation("C18|validate_spans|accepted-set-not-sorted-by-offset", "after Ok the slice is not sorted by offset", json!({"case": detail()}));
        }
        let mut want = spans.clone();
        got.sort_unstable();
        want.sort_unstable();
        if got != want {
            ctx.violation("C18|validate_spans|spans-changed", "validate_spans changed the span values", json!({"case": detail()}));
        }
    }
    // pairwise DataSpan::overlaps on positive-length spans
    for (i, a) in spans.iter().enumerate().take(12) {
        for b in spans.iter().skip(i + 1).take(12) {
            if a.1 == 0 || b.1 == 0 {
                continue;
            }
            let want = a.0 < b.0 + b.1 && b.0 < a.0 + a.1;
            let da = DataSpan { offset: a.0, length: a.1 };
            let db = DataSpan { offset: b.0, length: b.1 };
            if da.overlaps(&db) != want || db.overlaps(&da) != want {
                ctx.violation("C18|DataSpan::overlaps|differs-from-interval-intersection", "overlaps() disagrees with interval intersection", json!({"a":[a.0,a.1],"b":[b.0,b.1],"want":want}));
            }
            cnt.add("overlaps.pairs", 1);
        }
    }
}

// ---------------------------------------------------------------------------
// part C: CompactionFileMover directly
// ---------------------------------------------------------------------------

/// One mover, several calls, several files: a mover is a buffer plus a byte counter; whatever else it keeps must not
/// leak from one call into the next. Sequences of 2..=6 `move_data` calls over two source and two destination files whose
/// handles stay open for the whole sequence; half of the calls CONTINUE the offsets of the previous call (on the same files,
/// as a merge plan does, or on the other files), and between calls the harness sometimes uses the handles itself (the
/// cursors are then somewhere else). Every destination must equal the splice model, the sources must be unchanged.
fn run_mover_sequence(ctx: &Ctx, rng: &mut Rng, dir: &Path, cnt: &mut Cnt) {
    use std::io::{Seek, SeekFrom};
    let budget = *rng.pick(&BUDGETS);
    let salt = rng.next_u64();
    let lens: [usize; 4] = [gen_file_len(rng, true).max(64), gen_file_len(rng, true).max(64), gen_file_len(rng, false).max(1), gen_file_len(rng, false).max(1)];
    let srcs = [content(lens[0], salt), content(lens[1], salt ^ 0x1111)];
    let mut want = [content(lens[2], salt ^ 0x2222), content(lens[3], salt ^ 0x3333)];
    let paths = [dir.join("seq-a0"), dir.join("seq-a1"), dir.join("seq-b0"), dir.join("seq-b1")];
    if std::fs::write(&paths[0], &srcs[0]).is_err() || std::fs::write(&paths[1], &srcs[1]).is_err() || std::fs::write(&paths[2], &want[0]).is_err() || std::fs::write(&paths[3], &want[1]).is_err() {
        ctx.inconclusive("cannot write scratch files");
        return;
    }
    let open = || -> std::io::Result<(Vec<std::fs::File>, Vec<std::fs::File>)> {
        Ok((vec![OpenOptions::new().read(true).open(&paths[0])?, OpenOptions::new().read(true).open(&paths[1])?], vec![OpenOptions::new().read(true).write(true).open(&paths[2])?, OpenOptions::new().read(true).write(true).open(&paths[3])?]))
    };
    let Ok((mut fa, mut fb)) = open() else {
        ctx.inconclusive("cannot open scratch files");
        return;
    };
    let mut mover = CompactionFileMover::new(budget);
    let n = rng.urange(2, 6);
    let mut prev: Option<(usize, usize, u64, u64)> = None;
    let mut steps: Vec<Value> = Vec::new();
    let mut total = 0u64;
    let mut continued_other_files = false;
    for _ in 0..n {
        let (mut sa, mut sb) = (rng.usize_below(2), rng.usize_below(2));
        let mut src;
        let mut dst;
        let mut len;
        let mut how = "fresh";
        match prev {
            Some((psa, psb, send, dend)) if rng.bool() => {
                // continue the previous call's offsets, on the same pair or on other files
                if rng.bool() {
                    sa = psa;
                    sb = psb;
                    how = "continues-previous-call-on-the-same-files";
                } else {
                    sa = 1 - psa;
                    sb = if rng.bool() { 1 - psb } else { psb };
                    how = "continues-previous-offsets-on-other-files";
                }
                src = send;
                dst = dend;
                if src as usize >= srcs[sa].len() {
                    src = 0;
                    how = "fresh";
                }
                len = rng.range(0, (srcs[sa].len() as u64 - src).min(300_000));
            }
            _ => {
                len = rng.range(0, (srcs[sa].len() as u64).min(300_000));
                src = rng.range(0, srcs[sa].len() as u64 - len);
                dst = rng.range(0, want[sb].len() as u64);
            }
        }
        if how == "continues-previous-offsets-on-other-files" && len > 0 {
            continued_other_files = true;
        }
        // the caller may have used the handles in between
        if rng.chance(1, 3) {
            let _ = fa[sa].seek(SeekFrom::Start(rng.range(0, srcs[sa].len() as u64)));
            let _ = fb[sb].seek(SeekFrom::Start(rng.range(0, want[sb].len() as u64)));
            cnt.add("mover.sequence.handles_used_by_the_caller_between_calls", 1);
        }
        let r = {
            let (a, b) = (&mut fa[sa], &mut fb[sb]);
            mover.move_data(a, src, b, dst, len)
        };
        steps.push(json!({"source": sa, "dest": sb, "src": src, "dst": dst, "len": len, "how": how, "ok": r.is_ok()}));
        cnt.add("mover.sequence.calls", 1);
        cnt.add(&format!("mover.sequence.call.{how}"), 1);
        if let Err(e) = r {
            ctx.violation("C18|move_data|in-range-move-refused|sequence-of-calls-on-one-mover", "move_data failed for a source range inside the source file", json!({"case": {"kind": "mover-sequence", "budget": budget, "lens": lens, "salt": salt.to_string(), "steps": steps}, "error": e.to_string()}));
            return;
        }
        if len > 0 {
            let end = (dst + len) as usize;
            if want[sb].len() < end {
                want[sb].resize(end, 0);
            }
            let piece = srcs[sa][src as usize..(src + len) as usize].to_vec();
            want[sb][dst as usize..end].copy_from_slice(&piece);
        }
        total += len;
        prev = Some((sa, sb, src + len, dst + len));
        let _ = (&mut src, &mut dst, &mut len);
    }
    drop(fa);
    drop(fb);
    let detail = json!({"kind": "mover-sequence", "budget": budget, "lens": lens, "salt": salt.to_string(), "steps": steps, "replay": "re-run the tier with the same seed"});
    let h = mix64(fnv64(b"mover-seq"), fnv64(detail.to_string().as_bytes()));
    if total > 0 {
        ctx.eval_nontrivial(h);
    } else {
        ctx.eval();
    }
    if continued_other_files {
        cnt.add("mover.sequence.with_offsets_continued_on_other_files", 1);
    }
    for (i, p) in paths.iter().enumerate() {
        let got = std::fs::read(p).unwrap_or_default();
        if i < 2 {
            if got != srcs[i] {
                ctx.violation("C18|move_data|source-file-modified|sequence-of-calls-on-one-mover", "move_data changed a source file", json!({"case": detail, "file": i}));
            }
        } else if got != want[i - 2] {
            let first = got.iter().zip(&want[i - 2]).position(|(x, y)| x != y);
            ctx.violation(
                "C18|move_data|destination-differs-from-splice-model|sequence-of-calls-on-one-mover",
                "after a sequence of move_data calls on one mover a destination file is not 'old bytes with every [dst, dst+len) replaced by its source range'",
                json!({"case": detail, "dest_file": i - 2, "first_diff": first, "len_after": got.len(), "want_len": want[i - 2].len()}),
            );
        }
    }
    if mover.bytes_moved() != total {
        ctx.violation("C18|move_data|bytes_moved-differs-from-length|sequence-of-calls-on-one-mover", "bytes_moved() does not equal the sum of the lengths moved", json!({"case": detail, "bytes_moved": mover.bytes_moved(), "sum": total}));
    }
}

fn run_mover_case(ctx: &Ctx, rng: &mut Rng, dir: &Path, cnt: &mut Cnt, detail_override: Option<&Value>) {
    let (which, budget, la, lb, src, dst, len, salt) = if let Some(d) = detail_override {
        let g = |k: &str| d.get(k).and_then(Value::as_u64).unwrap_or(0);
        (g("which"), g("budget") as usize, g("len_a") as usize, g("len_b") as usize, g("src"), g("dst"), g("len"), d.get("salt").and_then(Value::as_str).and_then(|s| s.parse().ok()).unwrap_or(0u64))
    } else {
        let which = rng.below(2);
        let budget = *rng.pick(&BUDGETS);
        let la = gen_file_len(rng, true).max(1);
        let lb = gen_file_len(rng, false);
        let len = match rng.below(4) {
            0 => 0,
            1 => rng.range(0, la.min(64) as u64),
            _ => rng.range(0, la as u64),
        };
        let src = rng.range(0, la as u64 - len);
        let dst = if which == 0 {
            // other file: anywhere up to a little past EOF
            {
                let past = if rng.chance(1, 4) { 100 } else { 0 };
                rng.range(0, lb as u64 + past)
            }
        } else {
            match rng.below(4) {
                0 => src,
                1 | 2 => rng.range(0, src), // compaction direction (dest <= src)
                _ => rng.range(0, la as u64),
            }
        };
        (which, budget, la, lb, src, dst, len, rng.next_u64())
    };
    let a0 = content(la, salt);
    let pa = dir.join("mover-a");
    let pb = dir.join("mover-b");
    let mut mover = CompactionFileMover::new(budget);
    let buf = mover.buffer_size() as u64;
    let detail = json!({"kind":"mover","which":which,"budget":budget,"len_a":la,"len_b":lb,"src":src,"dst":dst,"len":len,"salt":salt.to_string()});
    let h = mix64(fnv64(b"mover"), fnv64(detail.to_string().as_bytes()));
    if len > 0 {
        ctx.eval_nontrivial(h);
    } else {
        ctx.eval();
    }
    if which == 0 {
        let b0 = content(lb, salt ^ 0x5555);
        if std::fs::write(&pa, &a0).is_err() || std::fs::write(&pb, &b0).is_err() {
            ctx.inconclusive("cannot write scratch files");
            return;
        }
        let r = (|| -> std::io::Result<_> {
            let mut fa = OpenOptions::new().read(true).open(&pa)?;
            let mut fb = OpenOptions::new().read(true).write(true).open(&pb)?;
            Ok(mover.move_data(&mut fa, src, &mut fb, dst, len))
        })();
        let Ok(r) = r else {
            ctx.inconclusive("cannot open scratch files");
            return;
        };
        let (a1, b1) = (std::fs::read(&pa).unwrap_or_default(), std::fs::read(&pb).unwrap_or_default());
        cnt.add("mover.move_data.calls", 1);
        if len > buf {
            cnt.add("mover.move_data.length>io_buffer", 1);
        }
        match r {
            Ok(()) => {
                let mut want = b0.clone();
                if len > 0 {
                    let end = (dst + len) as usize;
                    if want.len() < end {
                        want.resize(end, 0);
                    }
                    want[dst as usize..end].copy_from_slice(&a0[src as usize..(src + len) as usize]);
                }
                if a1 != a0 {
                    ctx.violation("C18|move_data|source-file-modified", "move_data changed the source file", json!({"case": detail}));
                }
                if b1 != want {
                    let first = b1.iter().zip(&want).position(|(x, y)| x != y);
                    ctx.violation(
                        &format!("C18|move_data|destination-differs-from-splice-model|{}", if len > buf { "length>io-buffer" } else { "length<=io-buffer" }),
                        "destination file is not 'old bytes with [dst, dst+len) replaced by the source range'",
                        json!({"case": detail, "first_diff": first, "len_after": b1.len(), "want_len": want.len()}),
                    );
                }
                if mover.bytes_moved() != len {
                    ctx.violation("C18|move_data|bytes_moved-differs-from-length", "bytes_moved() does not equal the bytes moved", json!({"case": detail, "bytes_moved": mover.bytes_moved()}));
                }
            }
            Err(e) => {
                ctx.violation("C18|move_data|in-range-move-refused", "move_data failed for a source range inside the source file", json!({"case": detail, "error": e.to_string()}));
            }
        }
    } else {
        if std::fs::write(&pa, &a0).is_err() {
            ctx.inconclusive("cannot write scratch files");
            return;
        }
        let r = (|| -> std::io::Result<_> {
            let mut fa = OpenOptions::new().read(true).write(true).open(&pa)?;
            Ok(mover.compact_in_place(&mut fa, src, dst, len))
        })();
        let Ok(r) = r else {
            ctx.inconclusive("cannot open scratch files");
            return;
        };
        let a1 = std::fs::read(&pa).unwrap_or_default();
        cnt.add("mover.compact_in_place.calls", 1);
        let overlapping = len > 0 && src < dst + len && dst < src + len && src != dst;
        let upwards_smear = dst > src && overlapping && len > buf;
        if len > buf && dst < src && overlapping {
            cnt.add("mover.compact_in_place.boundary.downward_overlapping_multi_chunk", 1);
        }
        match r {
            Ok(()) => {
                let mut want = a0.clone();
                if len > 0 {
                    let end = (dst + len) as usize;
                    if want.len() < end {
                        want.resize(end, 0);
                    }
                    want.copy_within(src as usize..(src + len) as usize, dst as usize);
                }
                if a1 != want {
                    if upwards_smear {
                        // outside the statement (compaction only moves data downwards)
                        cnt.add("mover.compact_in_place.upward_overlapping_multi_chunk_differs_from_memmove(observation)", 1);
                    } else {
                        let dir_ = if dst < src { "downward" } else { "upward-non-overlapping-or-single-chunk" };
                        let first = a1.iter().zip(&want).position(|(x, y)| x != y);
                        ctx.violation(
                            &format!("C18|compact_in_place|file-differs-from-memmove-model|{dir_}|{}", if len > buf { "length>io-buffer" } else { "length<=io-buffer" }),
                            "file is not 'old bytes with [dst, dst+len) replaced by the ORIGINAL bytes of [src, src+len)'",
                            json!({"case": detail, "first_diff": first, "io_buffer": buf}),
                        );
                    }
                } else if upwards_smear {
                    cnt.add("mover.compact_in_place.upward_overlapping_multi_chunk_equals_memmove(observation)", 1);
                }
            }
            Err(e) => {
                ctx.violation("C18|compact_in_place|in-range-move-refused", "compact_in_place failed for a source range inside the file", json!({"case": detail, "error": e.to_string()}));
            }
        }
    }
}

// ---------------------------------------------------------------------------
// part D: plan_archive_merge
// ---------------------------------------------------------------------------

#[derive(Debug, Clone)]
struct PlanCase {
    segment_size: u64,
    threshold: f64,
    /// (frozen, write_position)
    segs: Vec<(bool, u64)>,
}

fn gen_plan_case(rng: &mut Rng) -> PlanCase {
    let segment_size = match rng.below(8) {
        0 => 1000,
        1 => 4096,
        2 => 65_536,
        3 => 1 << 20,
        4 => 0x4000_0000,
        5 => rng.range(2, 100),
        _ => rng.range(100, 1 << 22),
    };
    let threshold = match rng.below(10) {
        0 => 0.0,
        1 => 0.1,
        2 | 3 => 0.3,
        4 | 5 => 0.5,
        6 => 0.75,
        7 => 1.0,
        8 => 1.5,
        _ => (rng.below(1000) as f64) / 1000.0,
    };
    let n = match rng.below(10) {
        0 => 0,
        1 => 1,
        2 => 2,
        3 => 40,
        _ => rng.urange(2, 40),
    };
    let frozen_mode = rng.below(4); // 0 all frozen, 1 all thawed, 2/3 mixed
    #[allow(clippy::cast_possible_truncation, clippy::cast_sign_loss)]
    let edge = (threshold * segment_size as f64) as u64;
    // utilisation profile: "many small" forces several destinations
    let profile = rng.below(4);
    let segs = (0..n)
        .map(|_| {
            let frozen = match frozen_mode {
                0 => true,
                1 => false,
                _ => rng.chance(3, 4),
            };
            let wp = match (profile, rng.below(10)) {
                (_, 0) => 0,
                (_, 1) => segment_size,
                (_, 2) => edge.min(segment_size),
                (_, 3) => edge.saturating_sub(1).min(segment_size),
                (_, 4) => (edge + 1).min(segment_size),
                (0, _) => rng.range(1, (segment_size / 8).max(1)),
                (1, _) => rng.range(segment_size / 4, (segment_size / 2).max(segment_size / 4)),
                (2, _) => rng.range(1, edge.clamp(1, segment_size)),
                _ => rng.range(0, segment_size),
            };
            (frozen, wp)
        })
        .collect();
    PlanCase { segment_size, threshold, segs }
}

fn plan_detail(c: &PlanCase) -> Value {
    json!({"kind":"plan","segment_size":c.segment_size,"threshold":c.threshold,"segments":c.segs.iter().map(|(f,w)| json!([f,w])).collect::<Vec<_>>()})
}

fn run_plan_case(ctx: &Ctx, c: &PlanCase, cnt: &mut Cnt) {
    let infos: Vec<SegmentInfo> = c
        .segs
        .iter()
        .enumerate()
        .map(|(i, (frozen, wp))| {
            let mut s = SegmentInfo::new(i as u16, SegmentHeader::default());
            s.state = if *frozen { SegmentState::Frozen } else { SegmentState::Thawed };
            s.write_position = *wp;
            s
        })
        .collect();
    let plan = match std::panic::catch_unwind(std::panic::AssertUnwindSafe(|| plan_archive_merge(&infos, c.threshold, c.segment_size))) {
        Ok(p) => p,
        Err(p) => {
            ctx.violation("C18|plan_archive_merge|panic", "plan_archive_merge panicked", json!({"case": plan_detail(c), "panic": vh::monitor::watchdog::panic_message(&p)}));
            return;
        }
    };
    let h = mix64(fnv64(b"plan"), fnv64(plan_detail(c).to_string().as_bytes()));
    if plan.moves.is_empty() {
        ctx.eval();
        cnt.add("plan.empty_plans", 1);
    } else {
        ctx.eval_nontrivial(h);
        cnt.add("plan.nonempty_plans", 1);
    }
    cnt.add("plan.segments_total", c.segs.len() as u64);
    cnt.add("plan.moves_total", plan.moves.len() as u64);
    judge_plan(ctx, c, &plan, cnt);
}

/// Interval model per destination, seeded with [0, write_position). Returns
/// false when the plan refutes the statement (already reported).
fn judge_plan(ctx: &Ctx, c: &PlanCase, plan: &CompactionPlan, cnt: &mut Cnt) -> bool {
    let mut used: HashMap<u16, Vec<(u64, u64)>> = HashMap::new();
    let mut moved_out: Vec<u16> = Vec::new();
    let first_dest = plan.moves.first().map(|m| m.dest_segment);
    let mut dests: Vec<u16> = Vec::new();
    for (mi, m) in plan.moves.iter().enumerate() {
        let n = c.segs.len();
        if m.source_segment as usize >= n || m.dest_segment as usize >= n {
            ctx.violation("C18|plan_archive_merge|move-references-unknown-segment", "a move names a segment index outside the population", json!({"case": plan_detail(c), "move_index": mi, "move": [m.source_segment, m.source_offset, m.dest_segment, m.dest_offset, m.length]}));
            return false;
        }
        if m.source_segment == m.dest_segment {
            ctx.violation("C18|plan_archive_merge|source-equals-destination", "a move copies a segment onto itself", json!({"case": plan_detail(c), "move_index": mi}));
            return false;
        }
        let (dfrozen, dwp) = c.segs[m.dest_segment as usize];
        let (sfrozen, swp) = c.segs[m.source_segment as usize];
        if !dests.contains(&m.dest_segment) {
            dests.push(m.dest_segment);
        }
        let which = if Some(m.dest_segment) == first_dest { "first-destination" } else { "later-destination" };
        let (a, b) = (m.dest_offset, m.dest_offset + m.length);
        if m.length > 0 && a < dwp {
            ctx.violation(
                &format!("C18|plan_archive_merge|move-lands-on-bytes-the-destination-already-uses|{which}"),
                "a move's destination range intersects [0, write_position) of the destination segment",
                json!({"case": plan_detail(c), "move_index": mi, "move": {"src": m.source_segment, "src_off": m.source_offset, "dst": m.dest_segment, "dst_off": m.dest_offset, "len": m.length}, "dest_write_position": dwp}),
            );
            return false;
        }
        let list = used.entry(m.dest_segment).or_default();
        if m.length > 0 && list.iter().any(|&(x, y)| a < y && x < b) {
            ctx.violation(
                &format!("C18|plan_archive_merge|two-moves-overlap-in-destination|{which}"),
                "two moves write intersecting ranges of the same destination segment",
                json!({"case": plan_detail(c), "move_index": mi, "range": [a, b], "earlier_ranges": list.clone()}),
            );
            return false;
        }
        if b > c.segment_size {
            ctx.violation(
                &format!("C18|plan_archive_merge|destination-filled-beyond-segment-size|{which}"),
                "a move ends beyond segment_size",
                json!({"case": plan_detail(c), "move_index": mi, "range": [a, b], "segment_size": c.segment_size}),
            );
            return false;
        }
        list.push((a, b));
        // observations outside the statement
        if m.source_offset + m.length > swp {
            cnt.add("plan.move_reads_beyond_source_write_position(observation)", 1);
        }
        if m.source_offset != 0 || m.length != swp {
            cnt.add("plan.move_does_not_cover_whole_source(observation)", 1);
        }
        if !sfrozen || !dfrozen {
            cnt.add("plan.move_involves_thawed_segment(observation)", 1);
        }
        if moved_out.contains(&m.dest_segment) {
            cnt.add("plan.destination_was_itself_moved_out_earlier(observation)", 1);
        }
        if moved_out.contains(&m.source_segment) {
            cnt.add("plan.source_moved_twice(observation)", 1);
        }
        moved_out.push(m.source_segment);
        if a == dwp || list.iter().any(|&(_, y)| y == a) {
            cnt.add("plan.move_appended_exactly_at_used_end", 1);
        }
        if b == c.segment_size {
            cnt.add("plan.boundary.destination_filled_exactly", 1);
        }
    }
    if dests.len() >= 2 {
        cnt.add("plan.boundary.plans_with_several_destinations", 1);
    }
    if let Some(fd) = first_dest {
        if c.segs[fd as usize].1 > 0 {
            cnt.add("plan.boundary.first_destination_has_used_bytes", 1);
        }
    }
    let sum: u64 = plan.moves.iter().map(|m| m.length).sum();
    if sum != plan.total_bytes {
        cnt.add("plan.total_bytes_differs_from_sum_of_moves(observation)", 1);
    }
    let has_frozen = c.segs.iter().any(|s| s.0);
    let has_thawed = c.segs.iter().any(|s| !s.0);
    if has_frozen && has_thawed {
        cnt.add("plan.populations_mixed_frozen_thawed", 1);
    }
    #[allow(clippy::cast_precision_loss)]
    let (below, above) = c.segs.iter().fold((0, 0), |(b, a), s| if (s.1 as f64 / c.segment_size as f64) < c.threshold { (b + 1, a) } else { (b, a + 1) });
    if below > 0 && above > 0 {
        cnt.add("plan.populations_on_both_sides_of_threshold", 1);
    }
    if ctx.want_sample() && plan.moves.len() >= 2 && c.segs.len() <= 8 {
        ctx.sample(json!({"part":"plan","case":plan_detail(c),"moves":plan.moves.iter().map(|m| json!([m.source_segment, m.dest_segment, m.dest_offset, m.length])).collect::<Vec<_>>() }));
    }
    true
}


// ---------------------------------------------------------------------------
// part F: merge end-to-end — populations built by the real SegmentAllocator on
// real segment files, the plan executed with CompactionFileMover::move_data
// ---------------------------------------------------------------------------

#[derive(Debug, Clone)]
enum MStep {
    Alloc(u64),
    Freeze(u16),
    Thaw(u16),
    FreezeAll,
}

impl MStep {
    fn encode(&self) -> String {
        match self {
            MStep::Alloc(n) => format!("a{n}"),
            MStep::Freeze(i) => format!("f{i}"),
            MStep::Thaw(i) => format!("t{i}"),
            MStep::FreezeAll => "F".into(),
        }
    }
    fn decode(s: &str) -> Option<MStep> {
        let (h, r) = s.split_at(1.min(s.len()));
        Some(match h {
            "a" => MStep::Alloc(r.parse().ok()?),
            "f" => MStep::Freeze(r.parse().ok()?),
            "t" => MStep::Thaw(r.parse().ok()?),
            "F" => MStep::FreezeAll,
            _ => return None,
        })
    }
}

#[derive(Debug, Clone)]
struct MergeCase {
    salt: u64,
    max_segments: u16,
    steps: Vec<MStep>,
    /// drop the allocator and rebuild the population with load_existing (all frozen, write position = file length)
    reload: bool,
    threshold: f64,
    size_sel: u8,
    budget: usize,
    /// afterwards defragment one segment with extract_compact_segment, keeping this share (n/8) of its objects
    defrag_keep: u8,
}

fn gen_merge_case(rng: &mut Rng) -> MergeCase {
    let max_segments = *rng.pick(&[2u16, 3, 4, 6, 8, 12]);
    let n_steps = rng.urange(4, 60);
    let big_ok = rng.chance(1, 3);
    let mut steps = Vec::with_capacity(n_steps + 1);
    for _ in 0..n_steps {
        steps.push(match rng.below(20) {
            0..=11 => MStep::Alloc(match rng.below(10) {
                0 => 0,
                1 => 1,
                2..=6 => rng.range(2, 4000),
                7 | 8 => rng.range(4000, 40_000),
                _ => {
                    if big_ok {
                        rng.range(131_000, 300_000) // longer than the 128 KiB I/O buffer
                    } else {
                        rng.range(2, 4000)
                    }
                }
            }),
            12..=15 => MStep::FreezeAll,
            16 | 17 => MStep::Freeze(rng.below(12) as u16),
            _ => MStep::Thaw(rng.below(12) as u16),
        });
    }
    steps.push(MStep::FreezeAll);
    if rng.chance(1, 6) {
        // leave the last segment(s) thawed
        steps.pop();
    }
    MergeCase {
        salt: rng.next_u64(),
        max_segments,
        steps,
        reload: rng.chance(1, 3),
        threshold: *rng.pick(&[0.3, 0.5, 0.75, 1.0, 1.5, 2.0]),
        size_sel: rng.below(6) as u8,
        budget: *rng.pick(&BUDGETS),
        defrag_keep: rng.below(9) as u8,
    }
}

fn merge_detail(c: &MergeCase) -> Value {
    json!({"kind":"merge","salt":c.salt.to_string(),"max_segments":c.max_segments,"steps":c.steps.iter().map(MStep::encode).collect::<Vec<_>>(),"reload":c.reload,"threshold":c.threshold,"size_sel":c.size_sel,"budget":c.budget,"defrag_keep":c.defrag_keep})
}

struct LiveObj {
    seg: u16,
    off: u64,
    len: u64,
    salt: u64,
}

fn write_at(path: &Path, off: u64, data: &[u8]) -> std::io::Result<()> {
    use std::io::{Seek, SeekFrom, Write};
    let mut f = OpenOptions::new().write(true).open(path)?;
    f.seek(SeekFrom::Start(off))?;
    f.write_all(data)
}

fn run_merge_case(ctx: &Ctx, c: &MergeCase, cnt: &mut Cnt) {
    let Ok(tmp) = tempfile::tempdir() else {
        ctx.inconclusive("tempdir failed");
        return;
    };
    let dir = tmp.path().to_path_buf();
    let path_hash: [u8; 16] = Rng::derive(c.salt, 1).array::<16>();
    let mut alloc = SegmentAllocator::new(dir.clone(), path_hash, c.max_segments);
    let mut objs: Vec<LiveObj> = Vec::new();
    cnt.add("merge.cases", 1);
    for (si, st) in c.steps.iter().enumerate() {
        match st {
            MStep::Alloc(size) => match alloc.allocate(*size) {
                Ok(a) => {
                    let (off, len) = (u64::from(a.file_offset), *size);
                    // the harness relies on allocations being disjoint and after the header; if they
                    // are not, that is the allocator's business (C04) and this case cannot be judged
                    if off < SEGMENT_HEADER_SIZE as u64 || objs.iter().any(|o| o.seg == a.segment_index && o.len > 0 && len > 0 && off < o.off + o.len && o.off < off + len) {
                        cnt.add("merge.allocator_handed_out_overlapping_space(observation, case not judged)", 1);
                        return;
                    }
                    let salt = mix64(c.salt, si as u64 + 10);
                    if let Err(e) = write_at(&segment_data_path(&dir, a.segment_index), off, &content(len as usize, salt)) {
                        ctx.inconclusive(&format!("cannot write into a segment file: {e}"));
                        return;
                    }
                    objs.push(LiveObj { seg: a.segment_index, off, len, salt });
                    cnt.add("merge.allocations", 1);
                }
                Err(_) => cnt.add("merge.allocate_refused_at_max_segments", 1),
            },
            MStep::Freeze(i) => {
                let n = alloc.segment_count().max(1) as u16;
                alloc.freeze(*i % n);
            }
            MStep::Thaw(i) => {
                let n = alloc.segment_count().max(1) as u16;
                alloc.thaw(*i % n);
            }
            MStep::FreezeAll => {
                for i in 0..alloc.segment_count() as u16 {
                    alloc.freeze(i);
                }
            }
        }
    }
    if c.reload {
        alloc = SegmentAllocator::new(dir.clone(), path_hash, c.max_segments);
        if let Err(e) = alloc.load_existing() {
            ctx.inconclusive(&format!("load_existing failed on files the allocator created: {e}"));
            return;
        }
        cnt.add("merge.populations_from_load_existing", 1);
    } else {
        cnt.add("merge.populations_from_live_allocator", 1);
    }
    let infos: Vec<SegmentInfo> = alloc.segments().to_vec();
    let segs: Vec<(bool, u64)> = infos.iter().map(|s| (s.state == SegmentState::Frozen, s.write_position)).collect();
    let max_wp = segs.iter().map(|s| s.1).max().unwrap_or(0).max(1);
    let min_wp = segs.iter().map(|s| s.1).min().unwrap_or(0);
    let sum_wp: u64 = segs.iter().map(|s| s.1).sum();
    let segment_size = match c.size_sel {
        0 => max_wp,
        1 => max_wp * 2,
        2 => (sum_wp / 2).max(max_wp),
        3 => sum_wp.max(1),
        4 => max_wp + min_wp,
        _ => 0x4000_0000,
    };
    // files before
    let mut before: HashMap<u16, Vec<u8>> = HashMap::new();
    for s in &infos {
        match std::fs::read(segment_data_path(&dir, s.index)) {
            Ok(b) => {
                before.insert(s.index, b);
            }
            Err(_) => {
                // a gap in the numbering after load_existing: no file, write position of the placeholder
                before.insert(s.index, Vec::new());
            }
        }
    }
    let pc = PlanCase { segment_size, threshold: c.threshold, segs: segs.clone() };
    let plan = match std::panic::catch_unwind(std::panic::AssertUnwindSafe(|| plan_archive_merge(&infos, c.threshold, segment_size))) {
        Ok(p) => p,
        Err(p) => {
            ctx.violation("C18|plan_archive_merge|panic", "plan_archive_merge panicked", json!({"case": plan_detail(&pc), "panic": vh::monitor::watchdog::panic_message(&p)}));
            return;
        }
    };
    let h = mix64(fnv64(b"merge"), fnv64(merge_detail(c).to_string().as_bytes()));
    if plan.moves.is_empty() {
        ctx.eval();
        cnt.add("merge.empty_plans", 1);
    } else {
        ctx.eval_nontrivial(h);
        cnt.add("merge.nonempty_plans", 1);
        cnt.add("merge.moves_total", plan.moves.len() as u64);
    }
    if !judge_plan(ctx, &pc, &plan, cnt) {
        return;
    }
    // execute the plan on the real files, in order
    let mut mover = CompactionFileMover::new(c.budget);
    let buf = mover.buffer_size() as u64;
    let mut bytes_planned = 0u64;
    for (mi, m) in plan.moves.iter().enumerate() {
        let src_len = before.get(&m.source_segment).map_or(0, Vec::len) as u64;
        if m.source_offset + m.length > src_len {
            // (write position beyond the bytes on disk: cannot be executed; outside the statement)
            cnt.add("merge.move_reads_beyond_source_file(observation, case not executed)", 1);
            return;
        }
        let r = (|| -> std::io::Result<_> {
            let mut fs_ = OpenOptions::new().read(true).open(segment_data_path(&dir, m.source_segment))?;
            let mut fd = OpenOptions::new().read(true).write(true).open(segment_data_path(&dir, m.dest_segment))?;
            Ok(mover.move_data(&mut fs_, m.source_offset, &mut fd, m.dest_offset, m.length))
        })();
        match r {
            Ok(Ok(())) => {}
            Ok(Err(e)) => {
                ctx.violation("C18|merge-execution|move_data-failed-for-a-planned-move", "move_data failed for a move whose source range lies inside the source segment file", json!({"case": merge_detail(c), "move_index": mi, "error": e.to_string()}));
                return;
            }
            Err(e) => {
                ctx.inconclusive(&format!("cannot open segment files: {e}"));
                return;
            }
        }
        bytes_planned += m.length;
        if m.length > buf {
            cnt.add("merge.boundary.moves_longer_than_io_buffer", 1);
        }
    }
    if mover.bytes_moved() != bytes_planned {
        ctx.violation("C18|merge-execution|bytes_moved-differs-from-planned-bytes", "bytes_moved() after executing the plan is not the sum of the planned lengths", json!({"case": merge_detail(c), "bytes_moved": mover.bytes_moved(), "planned": bytes_planned}));
    }
    let mut after: HashMap<u16, Vec<u8>> = HashMap::new();
    for s in &infos {
        after.insert(s.index, std::fs::read(segment_data_path(&dir, s.index)).unwrap_or_default());
    }
    let is_dest = |i: u16| plan.moves.iter().any(|m| m.dest_segment == i);
    let is_src = |i: u16| plan.moves.iter().any(|m| m.source_segment == i);
    // (1) nothing a segment already used was overwritten
    for s in &infos {
        let (b, a) = (&before[&s.index], &after[&s.index]);
        let used = (s.write_position as usize).min(b.len());
        if a.len() < used || a[..used] != b[..used] {
            let role = if is_dest(s.index) { "destination" } else if is_src(s.index) { "source" } else { "uninvolved-segment" };
            ctx.violation(
                &format!("C18|merge-execution|bytes-a-segment-already-used-changed|{role}"),
                "after executing the merge plan the bytes below a segment's write position differ from before",
                json!({"case": merge_detail(c), "segment": s.index, "write_position": s.write_position, "first_diff": a.iter().zip(b.iter()).take(used).position(|(x, y)| x != y)}),
            );
            return;
        }
        if is_dest(s.index) && a.len() as u64 > segment_size {
            ctx.violation("C18|merge-execution|destination-file-larger-than-segment-size", "after executing the merge plan a destination file is larger than segment_size", json!({"case": merge_detail(c), "segment": s.index, "len": a.len(), "segment_size": segment_size}));
            return;
        }
    }
    // (2) every move's bytes arrived and were not overwritten by a later move
    for (mi, m) in plan.moves.iter().enumerate() {
        let src = &before[&m.source_segment][m.source_offset as usize..(m.source_offset + m.length) as usize];
        let d = &after[&m.dest_segment];
        let (x, y) = (m.dest_offset as usize, (m.dest_offset + m.length) as usize);
        if d.len() < y || &d[x..y] != src {
            ctx.violation(
                &format!("C18|merge-execution|moved-bytes-differ-from-source|{}", if m.length > buf { "length>io-buffer" } else { "length<=io-buffer" }),
                "after executing the merge plan a move's destination range does not hold the source's original bytes",
                json!({"case": merge_detail(c), "move_index": mi, "move": {"src": m.source_segment, "src_off": m.source_offset, "dst": m.dest_segment, "dst_off": m.dest_offset, "len": m.length}}),
            );
            return;
        }
    }
    // (3) every live object: unchanged where it was, and readable where the plan put it
    let mut relocated = 0u64;
    for o in &objs {
        let want = content(o.len as usize, o.salt);
        let a = &after[&o.seg];
        let (x, y) = (o.off as usize, (o.off + o.len) as usize);
        if a.len() < y || a[x..y] != want[..] {
            ctx.violation("C18|merge-execution|live-object-bytes-differ-after-merge|at-original-location", "a live object's bytes at its original location changed while the merge plan was executed", json!({"case": merge_detail(c), "object": {"segment": o.seg, "offset": o.off, "len": o.len}}));
            return;
        }
        for m in plan.moves.iter().filter(|m| m.source_segment == o.seg && m.source_offset <= o.off && o.off + o.len <= m.source_offset + m.length) {
            let d = &after[&m.dest_segment];
            let nx = (m.dest_offset + (o.off - m.source_offset)) as usize;
            if d.len() < nx + o.len as usize || d[nx..nx + o.len as usize] != want[..] {
                ctx.violation("C18|merge-execution|live-object-bytes-differ-after-merge|at-planned-location", "a live object cannot be read back intact at the location the merge plan moved it to", json!({"case": merge_detail(c), "object": {"segment": o.seg, "offset": o.off, "len": o.len}, "moved_to": {"segment": m.dest_segment, "offset": nx}}));
                return;
            }
            relocated += 1;
        }
    }
    cnt.add("merge.live_objects_compared_at_original_location", objs.len() as u64);
    cnt.add("merge.live_objects_compared_at_planned_location", relocated);
    if !plan.moves.is_empty() {
        cnt.add("merge.plans_executed_on_real_segment_files", 1);
    }

    // defragment one segment file (extract-compact mode): spans = header + a subset of its objects
    let Some(seg) = infos.iter().filter(|s| objs.iter().any(|o| o.seg == s.index)).map(|s| s.index).nth((c.salt % 7) as usize % infos.len().max(1)).or_else(|| objs.first().map(|o| o.seg)) else { return };
    // (zero-length objects are left out: an empty span at the start of another span is the class the
    // statement leaves open, see part A "Ambiguous")
    let mut keep: Vec<&LiveObj> = objs.iter().filter(|o| o.seg == seg && o.len > 0 && (mix64(o.salt, 3) % 8) < u64::from(c.defrag_keep)).collect();
    keep.sort_by_key(|o| (o.off, o.len));
    let path = segment_data_path(&dir, seg);
    let file_before = std::fs::read(&path).unwrap_or_default();
    let mut spans: Vec<DataSpan> = vec![DataSpan { offset: 0, length: SEGMENT_HEADER_SIZE as u64 }];
    spans.extend(keep.iter().map(|o| DataSpan { offset: o.off, length: o.len }));
    if c.salt & 1 == 1 {
        spans.reverse();
    }
    let mut mover = CompactionFileMover::new(c.budget);
    let r = (|| -> std::io::Result<_> {
        let mut f = OpenOptions::new().read(true).write(true).open(&path)?;
        Ok(extract_compact_segment(&mut f, &mut spans, &mut mover))
    })();
    let Ok(r) = r else {
        ctx.inconclusive("cannot open a segment file");
        return;
    };
    let file_after = std::fs::read(&path).unwrap_or_default();
    cnt.add("defrag.segment_files_compacted", 1);
    match r {
        Ok(saved) => {
            let mut pos = SEGMENT_HEADER_SIZE;
            if file_after.len() < pos || file_after[..pos] != file_before[..pos] {
                ctx.violation("C18|defragment-segment|segment-header-changed", "after extract-compact of a segment file (header listed as first live span) the 480-byte header differs", json!({"case": merge_detail(c), "segment": seg}));
                return;
            }
            for o in &keep {
                let want = content(o.len as usize, o.salt);
                if file_after.len() < pos + o.len as usize || file_after[pos..pos + o.len as usize] != want[..] {
                    ctx.violation("C18|defragment-segment|live-object-bytes-differ-at-new-offset", "after extract-compact of a segment file a kept object is not found intact at the offset its predecessors' lengths add up to", json!({"case": merge_detail(c), "segment": seg, "object": {"old_offset": o.off, "len": o.len, "new_offset": pos}}));
                    return;
                }
                pos += o.len as usize;
            }
            if file_after.len() != pos || saved != (file_before.len() - file_after.len()) as u64 {
                ctx.violation("C18|defragment-segment|length-or-bytes-saved-wrong", "after extract-compact of a segment file its length is not header + kept objects, or bytes saved is not old - new length", json!({"case": merge_detail(c), "segment": seg, "len_after": file_after.len(), "want_len": pos, "saved": saved, "len_before": file_before.len()}));
                return;
            }
            cnt.add("defrag.live_objects_compared_at_new_offset", keep.len() as u64);
            if keep.iter().any(|o| o.len as usize > mover.buffer_size()) {
                cnt.add("defrag.boundary.object_longer_than_io_buffer", 1);
            }
            if saved > 0 {
                cnt.add("defrag.segments_that_shrank", 1);
            }
        }
        Err(e) => {
            // header + disjoint allocations never overlap
            ctx.violation("C18|defragment-segment|non-overlapping-set-refused", "extract-compact refused the header span plus disjoint allocations of a segment file", json!({"case": merge_detail(c), "segment": seg, "error": e.to_string(), "file_untouched": file_after == file_before}));
        }
    }
}

// ---------------------------------------------------------------------------
// part G: the extract-compact journal (ExtractorCompactorBackup)
// ---------------------------------------------------------------------------

#[derive(Debug, Clone)]
enum JOp {
    Record(u16),
    Save,
    /// replace the handle by ExtractorCompactorBackup::load (what recovery does)
    Recover,
    /// replace the handle by ExtractorCompactorBackup::new (file stays)
    Fresh,
    Remove,
}

impl JOp {
    fn encode(&self) -> String {
        match self {
            JOp::Record(i) => format!("r{i}"),
            JOp::Save => "s".into(),
            JOp::Recover => "l".into(),
            JOp::Fresh => "n".into(),
            JOp::Remove => "x".into(),
        }
    }
    fn decode(s: &str) -> Option<JOp> {
        let (h, r) = s.split_at(1.min(s.len()));
        Some(match h {
            "r" => JOp::Record(r.parse().ok()?),
            "s" => JOp::Save,
            "l" => JOp::Recover,
            "n" => JOp::Fresh,
            "x" => JOp::Remove,
            _ => return None,
        })
    }
}

fn gen_journal_case(rng: &mut Rng) -> Vec<JOp> {
    let n = rng.urange(1, 40);
    (0..n)
        .map(|_| match rng.below(20) {
            0..=11 => JOp::Record(match rng.below(6) {
                0 => 0,
                1 => 1022,
                2 => 255,
                3 => 256,
                _ => rng.below(1023) as u16,
            }),
            12 | 13 => JOp::Save,
            14..=16 => JOp::Recover,
            17 | 18 => JOp::Fresh,
            _ => JOp::Remove,
        })
        .collect()
}

/// The journal must hand back exactly the segment indices that were recorded,
/// in order: a lost index means recovery skips a half-compacted segment, an
/// invented one means it compacts a segment nobody asked for.
fn run_journal_case(ctx: &Ctx, ops: &[JOp], cnt: &mut Cnt) {
    let Ok(tmp) = tempfile::tempdir() else {
        ctx.inconclusive("tempdir failed");
        return;
    };
    let dir = tmp.path();
    let detail = |upto: usize| json!({"kind":"journal","ops":ops[..=upto].iter().map(JOp::encode).collect::<Vec<_>>()});
    let mut handle = ExtractorCompactorBackup::new(dir);
    // what the file on disk must hold (None = no file), and what the handle must report
    let mut on_disk: Option<Vec<u16>> = None;
    let mut in_mem: Vec<u16> = Vec::new();
    let mut recorded = 0u64;
    for (i, op) in ops.iter().enumerate() {
        match op {
            JOp::Record(seg) => {
                if let Err(e) = handle.record_segment(*seg) {
                    ctx.violation("C18|compaction-journal|record_segment-failed", "record_segment failed on a writable temp dir", json!({"case": detail(i), "error": e.to_string()}));
                    return;
                }
                in_mem.push(*seg);
                on_disk.get_or_insert_with(Vec::new).push(*seg);
                recorded += 1;
            }
            JOp::Save => {
                // only where "write the journal" has one reading: the handle knows everything the file holds
                if on_disk.as_ref().is_some_and(|d| *d != in_mem) {
                    cnt.add("journal.save_skipped_handle_does_not_mirror_file", 1);
                    continue;
                }
                if let Err(e) = handle.save() {
                    ctx.violation("C18|compaction-journal|save-failed", "save failed on a writable temp dir", json!({"case": detail(i), "error": e.to_string()}));
                    return;
                }
                on_disk = Some(in_mem.clone());
                cnt.add("journal.saves", 1);
            }
            JOp::Recover => match ExtractorCompactorBackup::load(dir) {
                Ok(Some(h)) => {
                    handle = h;
                    cnt.add("journal.recoveries_with_file", 1);
                    match &on_disk {
                        Some(d) => in_mem = d.clone(),
                        None => {
                            ctx.violation("C18|compaction-journal|load-returns-a-journal-although-none-exists", "load returned Some although no journal was written or it was removed", json!({"case": detail(i), "got": handle.segments()}));
                            return;
                        }
                    }
                }
                Ok(None) => {
                    cnt.add("journal.recoveries_without_file", 1);
                    if let Some(d) = &on_disk {
                        ctx.violation("C18|compaction-journal|recorded-segments-lost|load-returns-none", "load returned None although segments were recorded and the journal was not removed", json!({"case": detail(i), "recorded": d}));
                        return;
                    }
                    handle = ExtractorCompactorBackup::new(dir);
                    in_mem.clear();
                }
                Err(e) => {
                    ctx.violation("C18|compaction-journal|load-failed", "load failed on a journal this code wrote", json!({"case": detail(i), "error": e.to_string()}));
                    return;
                }
            },
            JOp::Fresh => {
                handle = ExtractorCompactorBackup::new(dir);
                in_mem.clear();
            }
            JOp::Remove => {
                if let Err(e) = handle.remove() {
                    ctx.violation("C18|compaction-journal|remove-failed", "remove failed on a writable temp dir", json!({"case": detail(i), "error": e.to_string()}));
                    return;
                }
                on_disk = None;
                cnt.add("journal.removes", 1);
            }
        }
        // after every step: the handle reports its list, a recovery would see the recorded list
        if handle.segments() != in_mem.as_slice() {
            ctx.violation("C18|compaction-journal|segments()-differs-from-recorded-sequence", "the handle's segments() is not the sequence recorded through it (or loaded into it)", json!({"case": detail(i), "got": handle.segments(), "want": in_mem}));
            return;
        }
        let seen = match ExtractorCompactorBackup::load(dir) {
            Ok(s) => s.map(|h| h.segments().to_vec()),
            Err(e) => {
                ctx.violation("C18|compaction-journal|load-failed", "load failed on a journal this code wrote", json!({"case": detail(i), "error": e.to_string()}));
                return;
            }
        };
        if seen != on_disk {
            let rel = match (&seen, &on_disk) {
                (Some(s), Some(d)) if s.len() < d.len() && d.starts_with(s) => "recorded-segments-lost|tail-missing",
                (Some(s), Some(d)) if s.len() > d.len() => "journal-holds-segments-never-recorded",
                (Some(_), Some(_)) => "journal-differs-from-recorded-sequence",
                (None, Some(_)) => "recorded-segments-lost|load-returns-none",
                _ => "load-returns-a-journal-although-none-exists",
            };
            ctx.violation(&format!("C18|compaction-journal|{rel}"), "what a recovery reads from the journal is not the sequence of recorded segment indices", json!({"case": detail(i), "got": seen, "want": on_disk}));
            return;
        }
    }
    cnt.add("journal.cases", 1);
    cnt.add("journal.segments_recorded", recorded);
    let h = mix64(fnv64(b"journal"), fnv64(format!("{:?}", ops.iter().map(JOp::encode).collect::<Vec<_>>()).as_bytes()));
    if recorded >= 2 {
        ctx.eval_nontrivial(h);
    } else {
        ctx.eval();
    }
    // torn tail (crash in the middle of an append): observation only, the statement does not cover it
    if let Some(d) = &on_disk {
        if !d.is_empty() {
            let path = dir.join("extract_bu");
            if let Ok(bytes) = std::fs::read(&path) {
                let cut = 1 + (h % 3) as usize;
                if bytes.len() > cut && std::fs::write(&path, &bytes[..bytes.len() - cut]).is_ok() {
                    match ExtractorCompactorBackup::load(dir) {
                        Ok(Some(hh)) if hh.segments() == &d[..d.len() - 1] => cnt.add("journal.torn_tail.complete_entries_kept(observation)", 1),
                        Ok(Some(_)) => cnt.add("journal.torn_tail.other_list(observation)", 1),
                        Ok(None) => cnt.add("journal.torn_tail.ignored_entirely(observation)", 1),
                        Err(_) => cnt.add("journal.torn_tail.load_error(observation)", 1),
                    }
                }
            }
        }
    }
}

// ---------------------------------------------------------------------------
// part B': span sets at the top of the u64 range (no file can be that long;
// validate_spans has no file)
// ---------------------------------------------------------------------------

fn run_huge_span_case(ctx: &Ctx, rng: &mut Rng, cnt: &mut Cnt) {
    let mut spans: Vec<(u64, u64)> = Vec::new();
    for _ in 0..rng.urange(0, 3) {
        spans.push((rng.range(0, 10_000), rng.range(0, 500)));
    }
    for _ in 0..rng.urange(1, 3) {
        let back = rng.range(0, 2000);
        let len = match rng.below(4) {
            0 => back,                  // ends exactly at u64::MAX
            1 => back / 2,
            2 => rng.range(0, back),
            _ => back + rng.range(1, 50), // the exclusive end does not fit in 64 bits
        };
        spans.push((u64::MAX - back, len));
    }
    // offsets beyond 32 bits whose low halves collide with the small spans above
    for _ in 0..rng.urange(0, 3) {
        let base = 1u64 << *rng.pick(&[32u32, 33, 40, 48, 62, 63]);
        spans.push((base + rng.range(0, 10_000), rng.range(0, 500)));
    }
    if rng.bool() {
        rng.shuffle(&mut spans);
    }
    let fits = spans.iter().all(|s| s.0.checked_add(s.1).is_some());
    // classification in 128-bit arithmetic
    let w = |s: &(u64, u64)| (u128::from(s.0), u128::from(s.0) + u128::from(s.1));
    let mut overlapping = false;
    let mut ambiguous = false;
    for (i, a) in spans.iter().enumerate() {
        for (j, b) in spans.iter().enumerate() {
            if i == j {
                continue;
            }
            let ((ao, ae), (bo, be)) = (w(a), w(b));
            if a.1 > 0 && b.1 > 0 {
                if ao < be && bo < ae {
                    overlapping = true;
                }
            } else if a.1 == 0 && b.1 > 0 && bo <= ao && ao < be {
                ambiguous = true;
            }
        }
    }
    let mut d: Vec<DataSpan> = spans.iter().map(|&(offset, length)| DataSpan { offset, length }).collect();
    let r = std::panic::catch_unwind(std::panic::AssertUnwindSafe(|| validate_spans(&mut d)));
    let h = mix64(fnv64(b"huge"), fnv64(format!("{spans:?}").as_bytes()));
    if spans.len() >= 2 {
        ctx.eval_nontrivial(h);
    } else {
        ctx.eval();
    }
    cnt.add("validate_spans.huge_offsets.sets", 1);
    let detail = json!({"kind":"validate","spans":spans.iter().map(|(o, l)| json!([o.to_string(), l.to_string()])).collect::<Vec<_>>()});
    if !fits {
        // a span whose end is not representable: outside the statement
        match r {
            Ok(Ok(())) => cnt.add("validate_spans.huge_offsets.end_exceeds_u64.accepted(observation)", 1),
            Ok(Err(_)) => cnt.add("validate_spans.huge_offsets.end_exceeds_u64.refused(observation)", 1),
            Err(_) => cnt.add("validate_spans.huge_offsets.end_exceeds_u64.panicked(observation)", 1),
        }
        return;
    }
    match r {
        Err(p) => ctx.violation("C18|validate_spans|panic|offsets-beyond-32-bits", "validate_spans panicked on spans whose ends all fit in 64 bits", json!({"case": detail, "panic": vh::monitor::watchdog::panic_message(&p)})),
        Ok(Ok(())) if overlapping => ctx.violation("C18|validate_spans|overlapping-set-accepted|offsets-beyond-32-bits", "validate_spans accepted an overlapping set near the top of the offset range", json!({"case": detail})),
        Ok(Err(e)) if !overlapping && !ambiguous => ctx.violation("C18|validate_spans|non-overlapping-set-refused|offsets-beyond-32-bits", "validate_spans refused a non-overlapping set near the top of the offset range", json!({"case": detail, "error": e.to_string()})),
        Ok(Ok(())) => cnt.add("validate_spans.huge_offsets.valid_accepted", 1),
        Ok(Err(_)) => cnt.add("validate_spans.huge_offsets.overlap_refused", 1),
    }
}

// ---------------------------------------------------------------------------
// part E: ArchiveManager::compact
// ---------------------------------------------------------------------------

fn run_archive_manager(ctx: &Ctx, rng: &mut Rng, cnt: &mut Cnt) {
    let Ok(tmp) = tempfile::tempdir() else {
        ctx.inconclusive("tempdir failed");
        return;
    };
    // compression applied to the appended objects (the archive holds BLTE containers either way)
    let (mode_name, mode) = match rng.below(3) {
        0 => ("none", CompressionMode::None),
        1 => ("zlib", CompressionMode::ZLib),
        _ => ("lz4", CompressionMode::LZ4),
    };
    let mut mgr = ArchiveManager::with_compression(tmp.path(), mode);
    let mut records: Vec<(u16, u32, u32)> = Vec::new();
    let mut payloads: Vec<Vec<u8>> = Vec::new();
    let n = rng.urange(8, 24);
    for _ in 0..n {
        let len = match rng.below(4) {
            0 => rng.urange(0, 100),
            1 => rng.urange(100, 10_000),
            _ => rng.urange(50_000, 250_000),
        };
        // half of the objects are compressible
        let data = if rng.bool() { rng.bytes(len) } else { (0..len).map(|i| (i / 97) as u8).collect() };
        match mgr.write_content(&data, true) {
            Ok((id, off, size, _)) => {
                records.push((id, off, size));
                payloads.push(data);
            }
            Err(e) => {
                cnt.add("archive_manager.write_refused(observation)", 1);
                let _ = e;
            }
        }
    }
    cnt.add(&format!("archive_manager.compression.{mode_name}"), 1);
    // Unused tail: the only way an archive gets one is from outside the manager (a preallocated file, a
    // writer that died after extending it). The file is extended with zeros, and one more append makes the
    // manager notice the new size; its write position stays right behind the last record.
    let mut slack = 0u64;
    if rng.bool() && !records.is_empty() {
        let id = records[0].0;
        let path = tmp.path().join(format!("data.{id:03}"));
        let len = std::fs::metadata(&path).map(|m| m.len()).unwrap_or(0);
        slack = match rng.below(4) {
            0 => rng.range(1, 4096),
            1 => len / 3 + rng.range(0, 1 << 20),
            _ => len.max(1 << 20) + rng.range(0, 3 << 20),
        };
        let ok = OpenOptions::new().write(true).open(&path).and_then(|f| f.set_len(len + slack)).is_ok();
        if !ok {
            ctx.inconclusive("cannot extend an archive file");
            return;
        }
        let n_extra = rng.urange(1, 5000);
        let data = rng.bytes(n_extra);
        match mgr.write_content(&data, true) {
            Ok((id, off, size, _)) => {
                records.push((id, off, size));
                payloads.push(data);
            }
            Err(_) => cnt.add("archive_manager.write_refused(observation)", 1),
        }
        cnt.add("archive_manager.archives_with_unused_tail", 1);
    }
    let snapshot = |dir: &Path| -> HashMap<u16, Vec<u8>> {
        let mut m = HashMap::new();
        for (id, _, _) in &records {
            if !m.contains_key(id) {
                if let Ok(b) = std::fs::read(dir.join(format!("data.{id:03}"))) {
                    m.insert(*id, b);
                }
            }
        }
        m
    };
    // every live object as the manager serves it BEFORE compaction (objects that are already
    // unreadable are another property's business and are left out)
    let readable: Vec<bool> = records.iter().zip(&payloads).map(|((id, off, size), p)| matches!(mgr.read_content(*id, *off, *size), Ok(ref d) if d == p)).collect();
    cnt.add("archive_manager.live_objects_readable_before_compact", readable.iter().filter(|r| **r).count() as u64);
    cnt.add("archive_manager.live_objects_unreadable_before_compact(observation)", readable.iter().filter(|r| !**r).count() as u64);
    let before = snapshot(tmp.path());
    let total: usize = before.values().map(Vec::len).sum();
    let r = mgr.compact();
    let after = snapshot(tmp.path());
    let h = mix64(fnv64(b"archive-manager"), mix64(records.len() as u64, total as u64));
    ctx.eval_nontrivial(h);
    cnt.add("archive_manager.compact.calls", 1);
    cnt.add("archive_manager.records_appended", records.len() as u64);
    if total > 1024 * 1024 {
        cnt.add("archive_manager.compact.calls_on_archives>1MiB", 1);
    }
    // compare every live object's decoded bytes through a manager after a compaction
    let compare_all = |m: &ArchiveManager, who: &str, cnt: &mut Cnt| -> bool {
        for (i, ((id, off, size), p)) in records.iter().zip(&payloads).enumerate() {
            if !readable[i] {
                continue;
            }
            match m.read_content(*id, *off, *size) {
                Ok(d) if d == *p => cnt.add(&format!("archive_manager.live_objects_compared_after_compact.{who}"), 1),
                Ok(d) => {
                    ctx.violation(&format!("C18|ArchiveManager::compact|live-object-bytes-changed-after-compact|{who}"), "after compact() a live object decodes to other bytes than before", json!({"archive": id, "offset": off, "size": size, "len_before": p.len(), "len_after": d.len(), "compression": mode_name}));
                    return false;
                }
                Err(e) => {
                    ctx.violation(&format!("C18|ArchiveManager::compact|live-object-unreadable-after-compact|{who}"), "after compact() a live object that was readable before can no longer be read", json!({"archive": id, "offset": off, "size": size, "error": e.to_string(), "compression": mode_name}));
                    return false;
                }
            }
        }
        true
    };
    match r {
        Ok(stats) => {
            cnt.add("archive_manager.compact.archives_compacted", stats.archives_compacted as u64);
            cnt.add("archive_manager.compact.bytes_reclaimed", stats.bytes_reclaimed);
            for (id, off, size) in &records {
                let (Some(b), Some(a)) = (before.get(id), after.get(id)) else {
                    ctx.violation("C18|ArchiveManager::compact|archive-file-missing-after-compact", "an archive file that held appended records is gone after compact()", json!({"archive": id}));
                    return;
                };
                let (s, e) = (*off as usize, *off as usize + *size as usize);
                if e > b.len() {
                    cnt.add("archive_manager.record_beyond_file_before_compact(observation)", 1);
                    continue;
                }
                if e > a.len() || a[s..e] != b[s..e] {
                    ctx.violation(
                        "C18|ArchiveManager::compact|appended-record-bytes-changed-on-disk",
                        "after compact() the bytes of an appended record differ from what was on disk before",
                        json!({"archive": id, "offset": off, "size": size, "file_len_before": b.len(), "file_len_after": a.len(), "archives_compacted": stats.archives_compacted}),
                    );
                    return;
                }
            }
            if !compare_all(&mgr, "same-manager", cnt) {
                return;
            }
            if stats.archives_compacted > 0 {
                cnt.add("archive_manager.compact.runs_that_truncated_an_archive", 1);
                // "reports the bytes saved truthfully"
                let (lb, la): (u64, u64) = (before.values().map(|b| b.len() as u64).sum(), after.values().map(|b| b.len() as u64).sum());
                if stats.bytes_reclaimed != lb - la.min(lb) || la > lb {
                    ctx.violation("C18|ArchiveManager::compact|bytes-reclaimed-differs-from-old-length-minus-new-length", "compact() reports other bytes reclaimed than the archive files shrank by", json!({"reported": stats.bytes_reclaimed, "len_before": lb, "len_after": la, "compression": mode_name}));
                    return;
                }
                // the archive must keep working: an append after the compaction must not land on live data
                let n_extra = rng.urange(1, 3000);
                let data = rng.bytes(n_extra);
                if let Ok((id, off, size, _)) = mgr.write_content(&data, true) {
                    match mgr.read_content(id, off, size) {
                        Ok(d) if d == data => {}
                        _ => cnt.add("archive_manager.append_after_compact_not_readable(observation)", 1),
                    }
                    if !compare_all(&mgr, "same-manager-after-a-later-append", cnt) {
                        return;
                    }
                }
            } else if slack > 0 {
                cnt.add("archive_manager.compact.unused_tail_left_alone", 1);
            }
        }
        Err(e) => {
            cnt.add("archive_manager.compact.error(observation)", 1);
            let _ = e;
        }
    }
    // the other way into compaction: a manager that OPENED existing archives (open_all), compacts, and serves the objects
    drop(mgr);
    let Ok(rt) = tokio::runtime::Builder::new_current_thread().enable_all().build() else {
        ctx.inconclusive("tokio runtime");
        return;
    };
    let mut mgr2 = ArchiveManager::with_compression(tmp.path(), mode);
    if let Err(e) = rt.block_on(mgr2.open_all()) {
        cnt.add("archive_manager.open_all_failed(observation)", 1);
        let _ = e;
        return;
    }
    let still: Vec<bool> = records.iter().zip(&payloads).map(|((id, off, size), p)| matches!(mgr2.read_content(*id, *off, *size), Ok(ref d) if d == p)).collect();
    if still.iter().zip(&readable).any(|(s, r)| *r && !*s) {
        // reopening alone lost an object: not a compaction matter (C04); do not attribute it to compact()
        cnt.add("archive_manager.object_unreadable_after_reopen(observation)", 1);
        return;
    }
    let before2 = snapshot(tmp.path());
    match mgr2.compact() {
        Ok(stats) => {
            cnt.add("archive_manager.compact.calls_on_reopened_manager", 1);
            cnt.add("archive_manager.compact.archives_compacted", stats.archives_compacted as u64);
            let after2 = snapshot(tmp.path());
            if before2 != after2 && stats.archives_compacted == 0 {
                ctx.violation("C18|ArchiveManager::compact|archive-files-changed-although-nothing-was-compacted", "compact() reports no compacted archive but an archive file changed", json!({"compression": mode_name}));
                return;
            }
            for (id, b) in &before2 {
                let used = records.iter().filter(|r| r.0 == *id).map(|r| r.1 as usize + r.2 as usize).max().unwrap_or(0).min(b.len());
                if after2.get(id).is_none_or(|a| a.len() < used || a[..used] != b[..used]) {
                    ctx.violation("C18|ArchiveManager::compact|appended-record-bytes-changed-on-disk", "after compact() on a re-opened manager the bytes up to the last appended record differ from before", json!({"archive": id, "compression": mode_name}));
                    return;
                }
            }
            let _ = compare_all(&mgr2, "reopened-manager", cnt);
        }
        Err(e) => {
            cnt.add("archive_manager.compact.error(observation)", 1);
            let _ = e;
        }
    }
}

// ---------------------------------------------------------------------------
// part E2: ArchiveManager::compact in histories with several handles on one directory
// ---------------------------------------------------------------------------

/// One step of a history in which several `ArchiveManager` handles work on the same directory.
#[derive(Debug, Clone)]
enum HStep {
    /// handle `h` appends `n` objects of a size class (0 tiny, 1 small, 2 large, 3 mixed)
    Append { h: u8, n: u8, class: u8 },
    /// handle `h` takes note of the directory again: 0 = `open_all`, 1 = `open_archive` per data file
    Refresh { h: u8, how: u8 },
    /// a further handle is created on the directory (`open_all`)
    NewHandle,
    /// the archive gets an unused zero tail from outside (preallocation, a writer that died after extending)
    Tail { sel: u8 },
    /// handle `h` compacts
    Compact { h: u8 },
}

impl HStep {
    fn encode(&self) -> String {
        match self {
            HStep::Append { h, n, class } => format!("a{h}:{n}:{class}"),
            HStep::Refresh { h, how } => format!("r{h}:{how}"),
            HStep::NewHandle => "n".into(),
            HStep::Tail { sel } => format!("t{sel}"),
            HStep::Compact { h } => format!("c{h}"),
        }
    }
    fn decode(s: &str) -> Option<HStep> {
        let (k, r) = s.split_at(1.min(s.len()));
        let nums: Vec<u8> = if r.is_empty() { Vec::new() } else { r.split(':').map(|p| p.parse().ok()).collect::<Option<Vec<u8>>>()? };
        Some(match (k, nums.as_slice()) {
            ("a", [h, n, class]) => HStep::Append { h: *h, n: *n, class: *class },
            ("r", [h, how]) => HStep::Refresh { h: *h, how: *how },
            ("n", []) => HStep::NewHandle,
            ("t", [sel]) => HStep::Tail { sel: *sel },
            ("c", [h]) => HStep::Compact { h: *h },
            _ => return None,
        })
    }
}

#[derive(Debug, Clone)]
struct HandlesCase {
    salt: u64,
    mode: u8,
    steps: Vec<HStep>,
}

const MAX_HANDLES: usize = 4;

/// Histories are generated so that a handle appends or compacts only while its view of the archive is
/// current: it wrote the last record itself, or it (re-)opened the directory after the last change
/// another handle made. What a handle with an outdated view does to the records of others is not a
/// compaction question and is never produced.
fn gen_handles_case(rng: &mut Rng) -> HandlesCase {
    let salt = rng.next_u64();
    let mode = rng.below(3) as u8;
    let mut steps = Vec::new();
    let mut current = vec![true];
    let gen_append = |rng: &mut Rng, h: usize| HStep::Append { h: h as u8, n: rng.urange(1, 8) as u8, class: [0, 1, 2, 2, 2, 3][rng.usize_below(6)] };
    steps.push(gen_append(rng, 0));
    let n_steps = rng.urange(3, 14);
    let refresh = |rng: &mut Rng, steps: &mut Vec<HStep>, current: &mut Vec<bool>, h: usize| {
        steps.push(HStep::Refresh { h: h as u8, how: rng.below(2) as u8 });
        current[h] = true;
    };
    for _ in 0..n_steps {
        match rng.below(12) {
            0..=4 => {
                let h = rng.usize_below(current.len());
                if !current[h] {
                    refresh(rng, &mut steps, &mut current, h);
                }
                steps.push(gen_append(rng, h));
                for (i, c) in current.iter_mut().enumerate() {
                    *c = i == h;
                }
            }
            5 | 6 => {
                if current.len() < MAX_HANDLES {
                    steps.push(HStep::NewHandle);
                    current.push(true);
                }
            }
            7 => steps.push(HStep::Tail { sel: rng.below(4) as u8 }),
            8 => {
                // also on a handle whose view is current: taking note again must be harmless
                let h = rng.usize_below(current.len());
                refresh(rng, &mut steps, &mut current, h);
            }
            _ => {
                let h = rng.usize_below(current.len());
                if !current[h] {
                    refresh(rng, &mut steps, &mut current, h);
                }
                steps.push(HStep::Compact { h: h as u8 });
                // a compaction may replace / shorten the file: the others have to look again
                for (i, c) in current.iter_mut().enumerate() {
                    *c = i == h;
                }
            }
        }
    }
    // every history ends with a compaction
    let h = rng.usize_below(current.len());
    if !current[h] {
        refresh(rng, &mut steps, &mut current, h);
    }
    steps.push(HStep::Compact { h: h as u8 });
    HandlesCase { salt, mode, steps }
}

fn handles_detail(c: &HandlesCase) -> Value {
    json!({"kind": "handles", "salt": c.salt.to_string(), "mode": c.mode, "steps": c.steps.iter().map(HStep::encode).collect::<Vec<_>>()})
}

/// Several handles on one directory; live data = every record any handle appended. Each `compact()`
/// is judged like in part E: record bytes on disk before/after, every object that decoded to its payload
/// before decodes to it afterwards (through the compacting handle, through it after a later append, and
/// through a fresh handle), bytes reclaimed = shrinkage, "nothing compacted" changes nothing.
fn run_handles_case(ctx: &Ctx, c: &HandlesCase, cnt: &mut Cnt) {
    let Ok(tmp) = tempfile::tempdir() else {
        ctx.inconclusive("tempdir failed");
        return;
    };
    let Ok(rt) = tokio::runtime::Builder::new_current_thread().enable_all().build() else {
        ctx.inconclusive("tokio runtime");
        return;
    };
    let dir = tmp.path();
    let (mode_name, mode) = match c.mode % 3 {
        0 => ("none", CompressionMode::None),
        1 => ("zlib", CompressionMode::ZLib),
        _ => ("lz4", CompressionMode::LZ4),
    };
    let detail = |extra: Value| json!({"case": handles_detail(c), "compression": mode_name, "witness": extra});
    let data_files = |dir: &Path| -> Vec<(u16, std::path::PathBuf)> {
        let mut v: Vec<(u16, std::path::PathBuf)> = std::fs::read_dir(dir)
            .map(|rd| {
                rd.filter_map(|e| {
                    let p = e.ok()?.path();
                    let name = p.file_name()?.to_str()?.to_string();
                    let id: u16 = name.strip_prefix("data.").filter(|s| s.len() == 3)?.parse().ok()?;
                    Some((id, p))
                })
                .collect()
            })
            .unwrap_or_default();
        v.sort();
        v
    };
    let snapshot = |dir: &Path| -> HashMap<u16, Vec<u8>> { data_files(dir).into_iter().filter_map(|(id, p)| Some((id, std::fs::read(p).ok()?))).collect() };
    let total_len = |dir: &Path| -> u64 { data_files(dir).iter().map(|(_, p)| std::fs::metadata(p).map(|m| m.len()).unwrap_or(0)).sum() };
    let open = |m: &mut ArchiveManager, how: u8| -> bool {
        if how == 0 {
            rt.block_on(m.open_all()).is_ok()
        } else {
            data_files(dir).iter().all(|(id, p)| m.open_archive(*id, p).is_ok())
        }
    };

    let mut handles: Vec<ArchiveManager> = vec![ArchiveManager::with_compression(dir, mode)];
    // view[h]: the handle appended last itself or (re-)opened after the last change another handle made
    let mut view_current: Vec<bool> = vec![true];
    // the handle (re-)opened after another handle had appended, and has not appended since
    let mut refreshed_after_foreign: Vec<bool> = vec![false];
    // total archive length when the handle's view was last current, and the growth its last refresh found
    // the handle has looked at the file (own append or (re-)open) since the last tail from outside: only
    // then can it know how long the file is, and only then is its bytes-reclaimed figure judged
    let mut tail_seen: Vec<bool> = vec![true];
    let mut len_seen: Vec<u64> = vec![0];
    let mut foreign_growth: Vec<u64> = vec![0];
    let mut records: Vec<(u16, u32, u32)> = Vec::new();
    let mut payloads: Vec<Vec<u8>> = Vec::new();
    let mut obj_no = 0u64;
    let mut compactions = 0u64;
    let mut interesting = false;

    for (si, step) in c.steps.iter().enumerate() {
        match *step {
            HStep::Append { h, n, class } => {
                let h = h as usize;
                if h >= handles.len() || !view_current[h] {
                    cnt.add("handles.step_skipped(observation)", 1);
                    continue;
                }
                for _ in 0..n {
                    let mut r = Rng::derive(c.salt, 0x0b1ec7 + obj_no);
                    obj_no += 1;
                    let cl = if class == 3 { r.below(3) as u8 } else { class };
                    let len = match cl {
                        0 => r.urange(0, 100),
                        1 => r.urange(100, 10_000),
                        _ => r.urange(50_000, 250_000),
                    };
                    let data = if r.bool() { r.bytes(len) } else { (0..len).map(|i| (i / 97) as u8).collect() };
                    match handles[h].write_content(&data, true) {
                        Ok((id, off, size, _)) => {
                            records.push((id, off, size));
                            payloads.push(data);
                        }
                        Err(_) => cnt.add("handles.write_refused(observation)", 1),
                    }
                }
                cnt.add("handles.op.append", 1);
                for (i, v) in view_current.iter_mut().enumerate() {
                    *v = i == h;
                }
                refreshed_after_foreign[h] = false;
                foreign_growth[h] = 0;
                tail_seen[h] = true;
                len_seen[h] = total_len(dir);
            }
            HStep::Refresh { h, how } => {
                let h = h as usize;
                if h >= handles.len() {
                    cnt.add("handles.step_skipped(observation)", 1);
                    continue;
                }
                if !open(&mut handles[h], how) {
                    cnt.add("handles.open_failed(observation)", 1);
                    return;
                }
                cnt.add(if how == 0 { "handles.op.refresh.open_all" } else { "handles.op.refresh.open_archive" }, 1);
                let now = total_len(dir);
                if !view_current[h] {
                    refreshed_after_foreign[h] = true;
                    foreign_growth[h] = now.saturating_sub(len_seen[h]);
                    cnt.add("handles.refreshes_after_a_change_by_another_handle", 1);
                } else {
                    cnt.add("handles.refreshes_with_a_current_view", 1);
                }
                view_current[h] = true;
                tail_seen[h] = true;
                len_seen[h] = now;
            }
            HStep::NewHandle => {
                if handles.len() >= MAX_HANDLES {
                    cnt.add("handles.step_skipped(observation)", 1);
                    continue;
                }
                let mut m = ArchiveManager::with_compression(dir, mode);
                if !open(&mut m, 0) {
                    cnt.add("handles.open_failed(observation)", 1);
                    return;
                }
                handles.push(m);
                view_current.push(true);
                tail_seen.push(true);
                refreshed_after_foreign.push(false);
                foreign_growth.push(0);
                len_seen.push(total_len(dir));
                cnt.add("handles.op.new_handle", 1);
            }
            HStep::Tail { sel } => {
                let Some((_, path)) = data_files(dir).into_iter().next() else {
                    cnt.add("handles.step_skipped(observation)", 1);
                    continue;
                };
                let mut r = Rng::derive(c.salt, 0x7a11_0000 + si as u64);
                let len = std::fs::metadata(&path).map(|m| m.len()).unwrap_or(0);
                let slack = match sel {
                    0 => r.range(1, 4096),
                    1 => len / 3 + r.range(0, 1 << 20),
                    _ => len.max(1 << 20) + r.range(0, 3 << 20),
                };
                if OpenOptions::new().write(true).open(&path).and_then(|f| f.set_len(len + slack)).is_err() {
                    ctx.inconclusive("cannot extend an archive file");
                    return;
                }
                tail_seen.iter_mut().for_each(|t| *t = false);
                cnt.add("handles.op.unused_tail_from_outside", 1);
            }
            HStep::Compact { h } => {
                let h = h as usize;
                if h >= handles.len() || !view_current[h] {
                    cnt.add("handles.step_skipped(observation)", 1);
                    continue;
                }
                // live objects as the compacting handle serves them BEFORE the compaction
                let readable: Vec<bool> = records.iter().zip(&payloads).map(|((id, off, size), p)| matches!(handles[h].read_content(*id, *off, *size), Ok(ref d) if d == p)).collect();
                let n_readable = readable.iter().filter(|r| **r).count() as u64;
                cnt.add("handles.live_objects_readable_before_compact", n_readable);
                cnt.add("handles.live_objects_unreadable_before_compact(observation)", readable.len() as u64 - n_readable);
                let before = snapshot(dir);
                let lb: u64 = before.values().map(|b| b.len() as u64).sum();
                let after_refresh = refreshed_after_foreign[h];
                cnt.add("handles.op.compact", 1);
                if after_refresh {
                    cnt.add("handles.compactions_by_a_handle_refreshed_after_foreign_appends", 1);
                    // the part of the archive the handle only knows from looking again is large
                    if lb > 1024 * 1024 && foreign_growth[h] * 10 >= lb * 3 {
                        cnt.add("handles.compactions_after_refresh.foreign_appends>=30%_of_archive>1MiB", 1);
                        interesting = true;
                    }
                } else {
                    cnt.add("handles.compactions_by_the_last_writer_or_a_fresh_handle", 1);
                }
                if handles.len() > 1 {
                    cnt.add("handles.compactions_with_several_handles_open", 1);
                }
                let r = handles[h].compact();
                compactions += 1;
                let stats = match r {
                    Ok(s) => s,
                    Err(_) => {
                        cnt.add("handles.compact.error(observation)", 1);
                        return;
                    }
                };
                let after = snapshot(dir);
                let la: u64 = after.values().map(|b| b.len() as u64).sum();
                cnt.add("handles.compact.archives_compacted", stats.archives_compacted as u64);
                let who = if after_refresh { "handle-refreshed-after-foreign-appends" } else { "handle-with-own-view" };
                for (id, off, size) in &records {
                    let Some(b) = before.get(id) else { continue };
                    let (s, e) = (*off as usize, *off as usize + *size as usize);
                    if e > b.len() {
                        cnt.add("handles.record_beyond_file_before_compact(observation)", 1);
                        continue;
                    }
                    if after.get(id).is_none_or(|a| e > a.len() || a[s..e] != b[s..e]) {
                        ctx.violation(
                            &format!("C18|ArchiveManager::compact|appended-record-bytes-changed-on-disk|several-handles|{who}"),
                            "several handles on one directory: after compact() the bytes of an appended record differ from what was on disk before (or are cut off)",
                            detail(json!({"step": si, "archive": id, "offset": off, "size": size, "file_len_before": b.len(), "file_len_after": after.get(id).map(Vec::len), "archives_compacted": stats.archives_compacted, "bytes_reclaimed": stats.bytes_reclaimed})),
                        );
                        return;
                    }
                }
                let mut later_append: Option<((u16, u32, u32), Vec<u8>)> = None;
                let compare_all = |m: &ArchiveManager, via: &str, cnt: &mut Cnt| -> bool {
                    for (i, ((id, off, size), p)) in records.iter().zip(&payloads).enumerate() {
                        if i >= readable.len() || !readable[i] {
                            continue;
                        }
                        match m.read_content(*id, *off, *size) {
                            Ok(d) if d == *p => cnt.add(&format!("handles.live_objects_compared_after_compact.{via}"), 1),
                            Ok(d) => {
                                ctx.violation(&format!("C18|ArchiveManager::compact|live-object-bytes-changed-after-compact|several-handles|{via}"), "several handles on one directory: after compact() a live object decodes to other bytes than before", detail(json!({"step": si, "archive": id, "offset": off, "size": size, "len_before": p.len(), "len_after": d.len()})));
                                return false;
                            }
                            Err(e) => {
                                ctx.violation(&format!("C18|ArchiveManager::compact|live-object-unreadable-after-compact|several-handles|{via}"), "several handles on one directory: after compact() a live object that was readable before can no longer be read", detail(json!({"step": si, "archive": id, "offset": off, "size": size, "error": e.to_string()})));
                                return false;
                            }
                        }
                    }
                    true
                };
                if !compare_all(&handles[h], "compacting-handle", cnt) {
                    return;
                }
                if stats.archives_compacted > 0 {
                    cnt.add("handles.compact.runs_that_truncated_an_archive", 1);
                    if !tail_seen[h] {
                        // the file was extended from outside after the handle last looked at it: what
                        // "truthfully" means for a length the handle never saw is left open
                        cnt.add(if la <= lb && stats.bytes_reclaimed == lb - la { "handles.compact.tail_not_seen_by_the_handle.reclaimed_equals_shrinkage(observation)" } else { "handles.compact.tail_not_seen_by_the_handle.reclaimed_differs_from_shrinkage(observation)" }, 1);
                    } else if la > lb || stats.bytes_reclaimed != lb - la {
                        ctx.violation("C18|ArchiveManager::compact|bytes-reclaimed-differs-from-old-length-minus-new-length|several-handles", "several handles on one directory: compact() reports other bytes reclaimed than the archive files shrank by", detail(json!({"step": si, "reported": stats.bytes_reclaimed, "len_before": lb, "len_after": la})));
                        return;
                    }
                    // the position the compaction leaves behind must not direct the next append onto live data
                    let mut r = Rng::derive(c.salt, 0xaf7e_0000 + si as u64);
                    let n_extra = r.urange(1, 3000);
                    let data = r.bytes(n_extra);
                    if let Ok((id, off, size, _)) = handles[h].write_content(&data, true) {
                        if !compare_all(&handles[h], "compacting-handle-after-a-later-append", cnt) {
                            return;
                        }
                        later_append = Some(((id, off, size), data));
                    }
                } else if before != after {
                    ctx.violation("C18|ArchiveManager::compact|archive-files-changed-although-nothing-was-compacted|several-handles", "several handles on one directory: compact() reports no compacted archive but an archive file changed", detail(json!({"step": si, "len_before": lb, "len_after": la})));
                    return;
                }
                // a handle that opens the directory now must be served every object
                let mut fresh = ArchiveManager::with_compression(dir, mode);
                if open(&mut fresh, 0) {
                    if !compare_all(&fresh, "fresh-handle", cnt) {
                        return;
                    }
                } else {
                    cnt.add("handles.open_failed(observation)", 1);
                }
                if let Some((rec, data)) = later_append {
                    records.push(rec);
                    payloads.push(data);
                }
                for (i, v) in view_current.iter_mut().enumerate() {
                    *v = i == h;
                }
                len_seen[h] = total_len(dir);
            }
        }
    }
    let hsh = c.steps.iter().fold(mix64(fnv64(b"handles"), c.salt), |a, s| mix64(a, fnv64(s.encode().as_bytes())));
    if compactions > 0 && (handles.len() > 1 || interesting) {
        ctx.eval_nontrivial(hsh);
    } else {
        ctx.eval();
    }
    cnt.add("handles.histories", 1);
    cnt.add(&format!("handles.compression.{mode_name}"), 1);
    cnt.add(&format!("handles.handles_per_history.{}", handles.len()), 1);
    cnt.add("handles.records_appended", records.len() as u64);
}

// ---------------------------------------------------------------------------
// replay
// ---------------------------------------------------------------------------

fn replay(ctx: &Ctx, d: &Value) {
    let case = d.get("case").unwrap_or(d);
    let kind = case.get("kind").and_then(Value::as_str).unwrap_or("");
    let Ok(tmp) = tempfile::tempdir() else {
        ctx.inconclusive("tempdir failed");
        return;
    };
    let mut cnt = Cnt::default();
    let pairs = |v: Option<&Value>| -> Vec<(u64, u64)> {
        v.and_then(Value::as_array).map(|a| a.iter().filter_map(|p| Some((p.get(0)?.as_u64()?, p.get(1)?.as_u64()?))).collect()).unwrap_or_default()
    };
    match kind {
        "extract" => {
            let c = SpanCase {
                file_len: case.get("file_len").and_then(Value::as_u64).unwrap_or(0) as usize,
                salt: case.get("salt").and_then(Value::as_str).and_then(|s| s.parse().ok()).unwrap_or(0),
                budget: case.get("budget").and_then(Value::as_u64).unwrap_or(0) as usize,
                spans: pairs(case.get("spans")),
                shape: "replay",
            };
            run_extract_case(ctx, &c, &tmp.path().join("seg"), &mut cnt);
        }
        "plan" => {
            let segs = case.get("segments").and_then(Value::as_array).map(|a| a.iter().filter_map(|p| Some((p.get(0)?.as_bool()?, p.get(1)?.as_u64()?))).collect()).unwrap_or_default();
            let c = PlanCase { segment_size: case.get("segment_size").and_then(Value::as_u64).unwrap_or(1), threshold: case.get("threshold").and_then(Value::as_f64).unwrap_or(0.0), segs };
            run_plan_case(ctx, &c, &mut cnt);
        }
        "mover" => {
            let mut rng = ctx.rng(0);
            run_mover_case(ctx, &mut rng, tmp.path(), &mut cnt, Some(case));
        }
        "merge" => {
            let c = MergeCase {
                salt: case.get("salt").and_then(Value::as_str).and_then(|s| s.parse().ok()).unwrap_or(0),
                max_segments: case.get("max_segments").and_then(Value::as_u64).unwrap_or(2) as u16,
                steps: case.get("steps").and_then(Value::as_array).map(|a| a.iter().filter_map(|o| MStep::decode(o.as_str()?)).collect()).unwrap_or_default(),
                reload: case.get("reload").and_then(Value::as_bool).unwrap_or(false),
                threshold: case.get("threshold").and_then(Value::as_f64).unwrap_or(0.5),
                size_sel: case.get("size_sel").and_then(Value::as_u64).unwrap_or(0) as u8,
                budget: case.get("budget").and_then(Value::as_u64).unwrap_or(0) as usize,
                defrag_keep: case.get("defrag_keep").and_then(Value::as_u64).unwrap_or(4) as u8,
            };
            run_merge_case(ctx, &c, &mut cnt);
        }
        "handles" => {
            let c = HandlesCase {
                salt: case.get("salt").and_then(Value::as_str).and_then(|s| s.parse().ok()).unwrap_or(0),
                mode: case.get("mode").and_then(Value::as_u64).unwrap_or(0) as u8,
                steps: case.get("steps").and_then(Value::as_array).map(|a| a.iter().filter_map(|o| HStep::decode(o.as_str()?)).collect()).unwrap_or_default(),
            };
            run_handles_case(ctx, &c, &mut cnt);
        }
        "journal" => {
            let ops: Vec<JOp> = case.get("ops").and_then(Value::as_array).map(|a| a.iter().filter_map(|o| JOp::decode(o.as_str()?)).collect()).unwrap_or_default();
            run_journal_case(ctx, &ops, &mut cnt);
        }
        "validate" => {
            // span sets of part B / B' carry their spans; re-judged by the same code paths
            let spans: Vec<(u64, u64)> = case.get("spans").and_then(Value::as_array).map(|a| a.iter().filter_map(|p| {
                let g = |v: &Value| v.as_u64().or_else(|| v.as_str().and_then(|s| s.parse().ok()));
                Some((g(p.get(0)?)?, g(p.get(1)?)?))
            }).collect()).unwrap_or_default();
            let mut d: Vec<DataSpan> = spans.iter().map(|&(offset, length)| DataSpan { offset, length }).collect();
            let r = std::panic::catch_unwind(std::panic::AssertUnwindSafe(|| validate_spans(&mut d)));
            println!("validate_spans({spans:?}) -> {}", match &r { Ok(Ok(())) => "Ok".to_string(), Ok(Err(e)) => format!("Err({e})"), Err(_) => "panic".to_string() });
            if r.is_err() {
                ctx.violation("C18|validate_spans|panic|offsets-beyond-32-bits", "validate_spans panicked", json!({"case": case}));
            }
        }
        _ => {
            ctx.inconclusive("replay: this finding has no stored case; re-run the tier with the recorded seed");
        }
    }
    ctx.eval_nontrivial(1);
    ctx.eval_nontrivial(2);
    cnt.flush(ctx);
}

fn main() {
    let ctx = Ctx::init("C18", "exploration");
    ctx.set_rule(
        "A: one case = (file of 0..=600 KiB position-dependent bytes, span set, buffer budget) given to extract_compact_segment on a real file; span sets come from shape generators (adjacent from 0, adjacent after a gap, gapped, first span after 0, one span larger than the I/O buffer preceded by a smaller gap, zero-length spans, single spans, overlapping variants derived from valid sets: identical / contained / one shared byte / partial, beyond-EOF, empty list), input order shuffled in half of the cases, budgets {0,128Ki,1Mi,4Mi,200000,256Ki}; non-trivial = at least one live byte has to move or an overlap has to be refused. B: validate_spans / DataSpan::overlaps on the same generators. C: CompactionFileMover::move_data / compact_in_place with random (src,dst,len) against a splice/memmove model; non-trivial = len>0. D: one case = (0..=40 segments with write positions around 0, threshold*size-1/0/+1, full, random; frozen/thawed mixes; segment sizes 2..2^30; thresholds 0..1.5) given to plan_archive_merge and judged by an interval model per destination seeded with [0,write_position); non-trivial = plan has at least one move. E: ArchiveManager::compact after real appends (None/ZLib/LZ4 objects, half of the archives with an unused tail produced outside the manager so that the truncation runs, then a second manager opened on the directory): every object's decoded bytes before/after. F: one case = (allocation/freeze/thaw script for the real SegmentAllocator on real segment files, reload or not, threshold, segment size, buffer budget): the merge plan is judged by the interval model, executed with move_data and every live object compared at its original and planned location; one segment per case is defragmented with extract_compact_segment; non-trivial = non-empty plan. G: one case = a history of record_segment/save/load/new/remove on the extract-compact journal; non-trivial = at least two recorded segments. B': validate_spans on sets with offsets beyond 32 bits, classified in 128-bit arithmetic. E2: one case = a history of 1..4 ArchiveManager handles on one directory (append by a handle, a further handle opened, a handle looking at the directory again with open_all / open_archive, unused tail from outside, compact by a handle; a handle appends or compacts only while its view is current, i.e. it wrote last or re-opened after the last foreign change): every compact() is judged against all records any handle appended; non-trivial = a compaction with several handles open. distinct = hash of the concrete case parameters.",
    );
    ctx.assume("the harness' interval classification of span sets (two positive-length spans sharing a byte = overlapping) is the meaning of 'overlapping' in the statement; zero-length spans inside a span are left open");
    ctx.assume("the file system of the temp dir returns what was written (page cache), no fault injection in this property");
    std::panic::set_hook(Box::new(|_| {}));

    if let Some(d) = ctx.replay_detail() {
        replay(&ctx, &d);
        ctx.finish();
    }

    let threads = 16usize;
    let n_extract: usize = ctx.pick(12_000, 50_000);
    let n_validate: usize = ctx.pick(120_000, 400_000);
    let n_mover: usize = ctx.pick(6_000, 20_000);
    let n_plan: usize = ctx.pick(80_000, 500_000);
    let n_am: usize = ctx.pick(32, 128);
    let n_merge: usize = ctx.pick(1_500, 12_000);
    let n_journal: usize = ctx.pick(3_000, 20_000);
    let n_huge: usize = ctx.pick(20_000, 100_000);
    let n_handles: usize = ctx.pick(160, 800);
    let next = AtomicUsize::new(0);
    let total = n_extract + n_validate + n_mover + n_plan + n_am + n_merge + n_journal + n_huge + n_handles;
    std::thread::scope(|s| {
        for _ in 0..threads {
            let next = &next;
            let ctx = &ctx;
            s.spawn(move || {
                let Ok(tmp) = tempfile::tempdir() else {
                    ctx.inconclusive("tempdir failed");
                    return;
                };
                let seg_path = tmp.path().join("segment.data");
                let mut cnt = Cnt::default();
                loop {
                    // blocks of 4 consecutive indices per grab (the multi-handle histories at the end of the
                    // index space are heavy: small blocks spread them over all threads); each index has its
                    // own PRNG stream, so the block size does not influence what is generated
                    let base = next.fetch_add(4, Ordering::Relaxed);
                    if base >= total {
                        break;
                    }
                    for ix in base..(base + 4).min(total) {
                        let mut rng = ctx.rng(1_000_000 + ix as u64);
                        // interleave the parts so that a cut-off run has seen all of them
                        if ix < n_extract {
                            let c = gen_span_case(&mut rng, 0);
                            run_extract_case(ctx, &c, &seg_path, &mut cnt);
                        } else if ix < n_extract + n_validate {
                            run_validate_case(ctx, &mut rng, &mut cnt);
                        } else if ix < n_extract + n_validate + n_mover {
                            if ix % 4 == 3 {
                                run_mover_sequence(ctx, &mut rng, tmp.path(), &mut cnt);
                            } else {
                                run_mover_case(ctx, &mut rng, tmp.path(), &mut cnt, None);
                            }
                        } else if ix < n_extract + n_validate + n_mover + n_plan {
                            let c = gen_plan_case(&mut rng);
                            run_plan_case(ctx, &c, &mut cnt);
                        } else if ix < n_extract + n_validate + n_mover + n_plan + n_am {
                            run_archive_manager(ctx, &mut rng, &mut cnt);
                        } else if ix < n_extract + n_validate + n_mover + n_plan + n_am + n_merge {
                            let c = gen_merge_case(&mut rng);
                            run_merge_case(ctx, &c, &mut cnt);
                        } else if ix < n_extract + n_validate + n_mover + n_plan + n_am + n_merge + n_journal {
                            let ops = gen_journal_case(&mut rng);
                            run_journal_case(ctx, &ops, &mut cnt);
                        } else if ix < n_extract + n_validate + n_mover + n_plan + n_am + n_merge + n_journal + n_huge {
                            run_huge_span_case(ctx, &mut rng, &mut cnt);
                        } else {
                            let c = gen_handles_case(&mut rng);
                            run_handles_case(ctx, &c, &mut cnt);
                        }
                    }
                }
                cnt.flush(ctx);
            });
        }
    });

    let need = [
        "extract.boundary.span_larger_than_io_buffer_moved_over_itself",
        "extract.outcome.compacted_with_moves",
        "extract.unsorted_input_order",
        "extract.shape.overlapping-added",
        "extract.shape.with-zero-length-spans",
        "extract.shape.first-span-after-0",
        "extract.shape.adjacent-from-0",
        "mover.compact_in_place.boundary.downward_overlapping_multi_chunk",
        "mover.move_data.length>io_buffer",
        "plan.nonempty_plans",
        "plan.boundary.plans_with_several_destinations",
        "plan.boundary.first_destination_has_used_bytes",
        "plan.populations_mixed_frozen_thawed",
        "plan.populations_on_both_sides_of_threshold",
        "archive_manager.compact.calls_on_archives>1MiB",
        // coverage-driven extension
        "archive_manager.live_objects_compared_after_compact.same-manager",
        "archive_manager.live_objects_compared_after_compact.reopened-manager",
        "archive_manager.compact.calls_on_reopened_manager",
        "archive_manager.compact.runs_that_truncated_an_archive",
        // ("archive_manager.compact.unused_tail_left_alone" is an outcome the implementation chooses — below its
        // threshold it leaves an archive alone — and with the quick tier's eight cases it did not occur at one seed in
        // thirteen: an observation, not a floor)
        "merge.plans_executed_on_real_segment_files",
        "merge.live_objects_compared_at_planned_location",
        "merge.populations_from_load_existing",
        "merge.populations_from_live_allocator",
        "merge.boundary.moves_longer_than_io_buffer",
        "defrag.live_objects_compared_at_new_offset",
        "defrag.segments_that_shrank",
        "journal.recoveries_with_file",
        "journal.saves",
        "journal.removes",
        "validate_spans.huge_offsets.valid_accepted",
        "validate_spans.huge_offsets.overlap_refused",
        // round 4: several handles on one directory
        "handles.compactions_by_a_handle_refreshed_after_foreign_appends",
        "handles.compactions_after_refresh.foreign_appends>=30%_of_archive>1MiB",
        "handles.compactions_by_the_last_writer_or_a_fresh_handle",
        "handles.op.refresh.open_all",
        "handles.op.refresh.open_archive",
        "handles.live_objects_compared_after_compact.compacting-handle",
        "handles.live_objects_compared_after_compact.fresh-handle",
    ];
    for k in need {
        if ctx.get_obs(k) == 0 {
            ctx.inconclusive(&format!("situation never reached: {k}"));
        }
    }
    let refused: u64 = ["identical-spans", "one-span-contains-the-other", "one-shared-byte", "partial-overlap"].iter().map(|k| ctx.get_obs(&format!("extract.outcome.overlap_refused.{k}"))).sum();
    if refused == 0 && ctx.violation_signatures().is_empty() {
        ctx.inconclusive("no overlapping span set was seen being refused");
    }
    if ctx.get_obs("archive_manager.compact.archives_compacted") == 0 {
        ctx.set_extra("archive_manager_note", json!("ArchiveManager::compact never entered its truncation branch: write position always equals the mapped size for archives produced through the public API, so the branch is unreachable without private state; the call was still made and every appended record compared on disk"));
    }
    ctx.finish();
}
