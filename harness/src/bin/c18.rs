//! C18 — compaction never loses or overwrites live data.
//!
//! Parts
//!   A. `extract_compact_segment` on real files (0..=600 KiB of position-dependent
//!      bytes) with generated span sets and buffer budgets; exact comparison of
//!      the resulting file with the concatenation of the live spans' ORIGINAL
//!      bytes in offset order; `saved == old length - new length`; overlapping
//!      sets must be refused with the file byte-identical.
//!   B. `validate_spans` / `DataSpan::overlaps` on span sets without files.
//!   C. `CompactionFileMover::{move_data, compact_in_place}` directly against a
//!      memmove / splice model on byte vectors.
//!   D. `plan_archive_merge` on generated segment populations against an
//!      interval model per destination seeded with `[0, write_position)`.
//!   E. `ArchiveManager::compact` after real appends: every appended record's
//!      bytes must be unchanged on disk.
//!
//! Not judged: plans that move less than an optimal packer would; spans
//! reaching beyond EOF, an empty span list, zero-length spans lying inside (or
//! at the start of) another span, and `compact_in_place` used upwards
//! (dest > src) over an overlapping multi-chunk range — all recorded as
//! observations only.

use cascette_client_storage::storage::ArchiveManager;
use cascette_client_storage::storage::compaction::{CompactionFileMover, DataSpan, extract_compact_segment, plan_archive_merge, validate_spans};
use cascette_client_storage::storage::segment::{SegmentHeader, SegmentInfo, SegmentState};
use serde_json::{Value, json};
use std::collections::HashMap;
use std::fs::OpenOptions;
use std::path::Path;
use std::sync::atomic::{AtomicUsize, Ordering};
use vh::{Ctx, Rng, fnv64, mix64};

const KIB: usize = 1024;
const BUDGETS: [usize; 6] = [0, 128 * KIB, 1024 * KIB, 4096 * KIB, 200_000, 256 * KIB];

#[derive(Default)]
struct Cnt {
    m: HashMap<String, u64>,
}
impl Cnt {
    fn add(&mut self, k: &str, n: u64) {
        *self.m.entry(k.to_string()).or_insert(0) += n;
    }
    fn flush(&mut self, ctx: &Ctx) {
        for (k, v) in self.m.drain() {
            ctx.obs(&k, v);
        }
    }
}

/// Position-dependent content: byte i is a function of (i, salt) only.
fn content(len: usize, salt: u64) -> Vec<u8> {
    let mut v = vec![0u8; len];
    for (j, chunk) in v.chunks_mut(8).enumerate() {
        let mut x = (j as u64 ^ salt.rotate_left(17)).wrapping_mul(0x9e37_79b9_7f4a_7c15);
        x ^= x >> 29;
        x = x.wrapping_mul(0xbf58_476d_1ce4_e5b9);
        x ^= x >> 32;
        let b = x.to_le_bytes();
        chunk.copy_from_slice(&b[..chunk.len()]);
    }
    v
}

fn spans_json(spans: &[(u64, u64)]) -> Value {
    Value::Array(spans.iter().map(|(o, l)| json!([o, l])).collect())
}

// ---------------------------------------------------------------------------
// independent span classification
// ---------------------------------------------------------------------------

#[derive(Debug, Clone, Copy, PartialEq, Eq)]
enum SetClass {
    /// no two spans share a byte, no zero-length span inside / at the start of another span
    Valid,
    /// two positive-length spans share at least one byte
    Overlapping(&'static str),
    /// only zero-length spans lie inside or at the start of a positive span: either verdict is accepted
    Ambiguous,
}

fn classify(spans: &[(u64, u64)]) -> SetClass {
    let mut ambiguous = false;
    for (i, &(ao, al)) in spans.iter().enumerate() {
        for (j, &(bo, bl)) in spans.iter().enumerate() {
            if i == j {
                continue;
            }
            if al > 0 && bl > 0 {
                if i < j && ao < bo + bl && bo < ao + al {
                    let kind = if ao == bo && al == bl {
                        "identical-spans"
                    } else if (ao <= bo && bo + bl <= ao + al) || (bo <= ao && ao + al <= bo + bl) {
                        "one-span-contains-the-other"
                    } else if (ao + al).min(bo + bl) - ao.max(bo) == 1 {
                        "one-shared-byte"
                    } else {
                        "partial-overlap"
                    };
                    return SetClass::Overlapping(kind);
                }
            } else if al == 0 && bl > 0 && bo <= ao && ao < bo + bl {
                ambiguous = true;
            }
        }
    }
    if ambiguous { SetClass::Ambiguous } else { SetClass::Valid }
}

fn expected_concat(orig: &[u8], spans: &[(u64, u64)]) -> Vec<u8> {
    let mut s: Vec<(u64, u64)> = spans.to_vec();
    s.sort_by_key(|x| x.0);
    let mut out = Vec::new();
    for (o, l) in s {
        out.extend_from_slice(&orig[o as usize..(o + l) as usize]);
    }
    out
}

// ---------------------------------------------------------------------------
// span set generator
// ---------------------------------------------------------------------------

#[derive(Debug, Clone)]
struct SpanCase {
    file_len: usize,
    salt: u64,
    budget: usize,
    spans: Vec<(u64, u64)>,
    /// generator's label (for the evidence), not used by the oracle
    shape: &'static str,
}

fn gen_file_len(rng: &mut Rng, big_ok: bool) -> usize {
    match rng.below(20) {
        0 => 0,
        1 => 1,
        2..=5 => rng.urange(2, 4 * KIB),
        6..=9 => rng.urange(4 * KIB, 128 * KIB),
        10..=14 => {
            let base = *rng.pick(&[128 * KIB, 200_000, 256 * KIB, 384 * KIB, 512 * KIB]);
            (base + rng.urange(0, 64)).saturating_sub(rng.urange(0, 32))
        }
        _ => {
            if big_ok {
                rng.urange(300 * KIB, 600 * KIB)
            } else {
                rng.urange(4 * KIB, 128 * KIB)
            }
        }
    }
}

/// non-overlapping spans from sorted cut points
fn gen_valid_spans(rng: &mut Rng, len: usize, k: usize) -> Vec<(u64, u64)> {
    let mut cuts: Vec<u64> = (0..2 * k).map(|_| rng.range(0, len as u64)).collect();
    cuts.sort_unstable();
    let mut v: Vec<(u64, u64)> = cuts.chunks(2).map(|c| (c[0], c[1] - c[0])).collect();
    // drop zero-length spans that would sit at the start of the next span
    // (kept only in the dedicated zero-length shapes)
    v.retain(|s| s.1 > 0);
    v
}

fn gen_span_case(rng: &mut Rng, buf_hint: usize) -> SpanCase {
    let budget = *rng.pick(&BUDGETS);
    let salt = rng.next_u64();
    let shape_sel = rng.below(16);
    let mut file_len = gen_file_len(rng, true);
    let k = match rng.below(8) {
        0 => 1,
        1 => 2,
        2..=5 => rng.urange(1, 12),
        6 => rng.urange(12, 60),
        _ => rng.urange(60, 300),
    };
    let (mut spans, shape): (Vec<(u64, u64)>, &'static str) = match shape_sel {
        0 => {
            // adjacent: a partition of a prefix of the file
            let mut cuts: Vec<u64> = (0..k).map(|_| rng.range(0, file_len as u64)).collect();
            cuts.push(0);
            cuts.sort_unstable();
            cuts.dedup();
            let v = cuts.windows(2).map(|w| (w[0], w[1] - w[0])).collect();
            (v, "adjacent-from-0")
        }
        1 => {
            // adjacent run that starts after a gap
            let mut cuts: Vec<u64> = (0..k + 1).map(|_| rng.range(0, file_len as u64)).collect();
            cuts.sort_unstable();
            cuts.dedup();
            let v = cuts.windows(2).map(|w| (w[0], w[1] - w[0])).collect();
            (v, "adjacent-after-gap")
        }
        2 | 3 => (gen_valid_spans(rng, file_len, k), "gapped"),
        4 => {
            // first span strictly after offset 0
            let mut v = gen_valid_spans(rng, file_len, k);
            v.retain(|s| s.0 > 0);
            (v, "first-span-after-0")
        }
        5 | 6 | 7 => {
            // one span larger than the I/O buffer, preceded by a gap smaller than the span
            let buf = buf_hint.max(CompactionFileMover::new(budget).buffer_size());
            file_len = file_len.max(buf + rng.urange(2, 300 * KIB).min(600 * KIB - buf));
            let big_len = rng.urange(buf + 1, (file_len - 1).min(buf * 2 + 70_000).max(buf + 1));
            let max_start = file_len - big_len;
            let near = rng.bool();
            let start = if max_start == 0 { 0 } else { rng.urange(1, max_start.min(if near { 4096 } else { max_start })) };
            let mut v: Vec<(u64, u64)> = Vec::new();
            // small spans before the big one (keeps a gap)
            if start > 2 && rng.bool() {
                let a = rng.urange(0, start - 2);
                let l = rng.urange(1, start - 1 - a);
                v.push((a as u64, l as u64));
            }
            v.push((start as u64, big_len as u64));
            let end = start + big_len;
            if end < file_len && rng.bool() {
                let a = rng.urange(end, file_len - 1);
                let l = rng.urange(1, file_len - a);
                v.push((a as u64, l as u64));
            }
            (v, "span-larger-than-io-buffer")
        }
        8 => {
            // zero-length spans at harmless places: in gaps, at EOF, at the end of a span
            let mut v = gen_valid_spans(rng, file_len, k);
            let mut extra = Vec::new();
            for _ in 0..rng.urange(1, 4) {
                let pos = match rng.below(3) {
                    0 => file_len as u64,
                    1 => v.first().map_or(0, |s| s.0 + s.1),
                    _ => rng.range(0, file_len as u64),
                };
                extra.push((pos, 0u64));
            }
            v.extend(extra);
            (v, "with-zero-length-spans")
        }
        9 => {
            // only zero-length spans
            let v = (0..rng.urange(1, 4)).map(|_| (rng.range(0, file_len as u64), 0u64)).collect();
            (v, "only-zero-length-spans")
        }
        10 => (vec![(0, file_len as u64)], "single-span-whole-file"),
        11 => {
            let a = rng.range(0, file_len as u64);
            (vec![(a, file_len as u64 - a)], "single-span-to-eof")
        }
        12 => (Vec::new(), "empty-span-list"),
        _ => (gen_valid_spans(rng, file_len, k), "gapped"),
    };
    // overlapping variants are derived from a valid set
    let mut shape = shape;
    if rng.chance(1, 5) && !spans.is_empty() && spans.iter().any(|s| s.1 > 0) {
        let pos: Vec<usize> = spans.iter().enumerate().filter(|(_, s)| s.1 > 0).map(|(i, _)| i).collect();
        let (o, l) = spans[*rng.pick(&pos)];
        let extra = match rng.below(5) {
            0 => (o, l),                                                  // identical
            1 => (o + rng.range(0, l - 1), 1),                            // contained single byte
            2 => (o + l - 1, rng.range(1, 50)),                           // shares the last byte (may pass EOF -> clipped below)
            3 => (o.saturating_sub(rng.range(0, 50)), rng.range(1, 50) + o.min(50)), // reaches into the start
            _ => {
                let a = o + rng.range(0, l - 1);
                (a, rng.range(1, l))
            }
        };
        let mut e = extra;
        if e.0 + e.1 > file_len as u64 {
            e.1 = (file_len as u64).saturating_sub(e.0);
        }
        if e.1 > 0 {
            spans.push(e);
            shape = "overlapping-added";
        }
    }
    // beyond EOF (observation only), derived from a valid, non-overlapping set
    if shape != "overlapping-added" && rng.chance(1, 40) {
        let a = rng.range(file_len as u64 / 2, file_len as u64 + 10);
        let end_max = spans.iter().map(|s| s.0 + s.1).max().unwrap_or(0);
        let a = a.max(end_max);
        spans.push((a, (file_len as u64 + rng.range(1, 5000)).saturating_sub(a).max(1)));
        shape = "beyond-eof";
    }
    // unsorted input order
    if rng.bool() {
        rng.shuffle(&mut spans);
    }
    SpanCase { file_len, salt, budget, spans, shape }
}

// ---------------------------------------------------------------------------
// part A: extract_compact_segment on files
// ---------------------------------------------------------------------------

fn is_sorted(spans: &[(u64, u64)]) -> bool {
    spans.windows(2).all(|w| w[0].0 <= w[1].0)
}

fn case_detail(c: &SpanCase) -> Value {
    json!({"kind":"extract","file_len":c.file_len,"salt":c.salt.to_string(),"budget":c.budget,"spans":spans_json(&c.spans),"shape":c.shape})
}

fn run_extract_case(ctx: &Ctx, c: &SpanCase, path: &Path, cnt: &mut Cnt) {
    let orig = content(c.file_len, c.salt);
    if let Err(e) = std::fs::write(path, &orig) {
        ctx.inconclusive(&format!("cannot write scratch file: {e}"));
        return;
    }
    let mut mover = CompactionFileMover::new(c.budget);
    let buf = mover.buffer_size();
    let mut dspans: Vec<DataSpan> = c.spans.iter().map(|&(offset, length)| DataSpan { offset, length }).collect();
    let beyond = c.spans.iter().any(|s| s.0 + s.1 > c.file_len as u64);
    let class = classify(&c.spans);

    let res = {
        let mut f = match OpenOptions::new().read(true).write(true).open(path) {
            Ok(f) => f,
            Err(e) => {
                ctx.inconclusive(&format!("cannot open scratch file: {e}"));
                return;
            }
        };
        std::panic::catch_unwind(std::panic::AssertUnwindSafe(|| extract_compact_segment(&mut f, &mut dspans, &mut mover)))
    };
    let after = match std::fs::read(path) {
        Ok(a) => a,
        Err(e) => {
            ctx.inconclusive(&format!("cannot read scratch file back: {e}"));
            return;
        }
    };

    cnt.add(&format!("extract.shape.{}", c.shape), 1);
    cnt.add(&format!("extract.budget.{}", c.budget), 1);
    cnt.add("extract.bytes_in_files", c.file_len as u64);
    if !is_sorted(&c.spans) {
        cnt.add("extract.unsorted_input_order", 1);
    }

    let h = mix64(fnv64(b"extract"), mix64(c.file_len as u64, mix64(c.budget as u64, fnv64(format!("{:?}", c.spans).as_bytes()))));
    // non-trivial: at least one live byte has to move, or an overlap has to be refused
    let moves_data = {
        let mut s = c.spans.clone();
        s.sort_by_key(|x| x.0);
        let mut wp = 0u64;
        let mut m = false;
        for (o, l) in &s {
            if *o > wp && *l > 0 {
                m = true;
            }
            wp += l;
        }
        m
    };
    if moves_data || matches!(class, SetClass::Overlapping(_)) {
        ctx.eval_nontrivial(h);
    } else {
        ctx.eval();
    }

    let res = match res {
        Ok(r) => r,
        Err(p) => {
            let msg = vh::monitor::watchdog::panic_message(&p);
            if beyond {
                cnt.add("extract.beyond_eof.panicked(observation)", 1);
            } else {
                ctx.violation("C18|extract_compact_segment|panic", "extract_compact_segment panicked on an in-range span set", json!({"case": case_detail(c), "panic": msg}));
            }
            return;
        }
    };

    if beyond {
        // unspecified: record only
        match &res {
            Ok(_) => cnt.add("extract.beyond_eof.accepted(observation)", 1),
            Err(_) if after == orig => cnt.add("extract.beyond_eof.refused_file_untouched(observation)", 1),
            Err(_) => cnt.add("extract.beyond_eof.refused_file_modified(observation)", 1),
        }
        return;
    }
    if c.spans.is_empty() {
        match &res {
            Ok(s) if after == orig => cnt.add(&format!("extract.empty_span_list.noop_returns_{}(observation)", if *s == 0 { "0" } else { "nonzero" }), 1),
            Ok(_) => cnt.add("extract.empty_span_list.file_changed(observation)", 1),
            Err(_) => cnt.add("extract.empty_span_list.refused(observation)", 1),
        }
        return;
    }

    // geometry of the hardest move (for evidence and signatures)
    let mut big_overlapping_move = false;
    {
        let mut s = c.spans.clone();
        s.sort_by_key(|x| x.0);
        let mut wp = 0u64;
        for (o, l) in &s {
            if *o > wp && *l as usize > buf && (*o - wp) < *l {
                big_overlapping_move = true;
            }
            wp += l;
        }
    }
    let geom = if big_overlapping_move { "span>io-buffer-moved-over-itself" } else { "other-geometry" };

    let check_ok = |saved: u64, cnt: &mut Cnt| {
        let want = expected_concat(&orig, &c.spans);
        if after.len() != want.len() {
            ctx.violation(
                &format!("C18|extract_compact_segment|file-length-differs-from-sum-of-live-spans|{geom}"),
                "after Ok(saved) the file length is not the sum of the live span lengths",
                json!({"case": case_detail(c), "file_len_after": after.len(), "want_len": want.len(), "saved": saved}),
            );
        } else if after != want {
            let first = after.iter().zip(&want).position(|(a, b)| a != b);
            ctx.violation(
                &format!("C18|extract_compact_segment|file-content-differs-from-concatenation-of-live-spans|{geom}"),
                "after Ok(saved) the file is not the concatenation of the live spans' original bytes in offset order",
                json!({"case": case_detail(c), "first_diff": first, "io_buffer": buf}),
            );
        }
        if saved != (orig.len() as u64).wrapping_sub(after.len() as u64) {
            ctx.violation(
                "C18|extract_compact_segment|bytes-saved-differs-from-old-length-minus-new-length",
                "returned bytes_saved is not old length - new length",
                json!({"case": case_detail(c), "saved": saved, "old_len": orig.len(), "new_len": after.len()}),
            );
        }
        if big_overlapping_move {
            cnt.add("extract.boundary.span_larger_than_io_buffer_moved_over_itself", 1);
        }
        if moves_data {
            cnt.add("extract.outcome.compacted_with_moves", 1);
        } else {
            cnt.add("extract.outcome.ok_nothing_to_move", 1);
        }
    };

    match (class, res) {
        (SetClass::Valid, Ok(saved)) => check_ok(saved, cnt),
        (SetClass::Valid, Err(e)) => {
            let adjacent = c.spans.iter().any(|a| a.1 > 0 && c.spans.iter().any(|b| b.1 > 0 && a.0 + a.1 == b.0));
            let zero = c.spans.iter().any(|s| s.1 == 0);
            let kind = if adjacent { "adjacent-spans" } else if zero { "set-with-zero-length-span" } else { "gapped-spans" };
            ctx.violation(
                &format!("C18|extract_compact_segment|non-overlapping-set-refused|{kind}"),
                "a span set in which no two spans share a byte was refused",
                json!({"case": case_detail(c), "error": e.to_string(), "file_untouched": after == orig}),
            );
        }
        (SetClass::Overlapping(kind), Ok(saved)) => {
            ctx.violation(
                &format!("C18|extract_compact_segment|overlapping-set-accepted|{kind}"),
                "an overlapping span set was compacted instead of refused",
                json!({"case": case_detail(c), "saved": saved, "file_changed": after != orig}),
            );
        }
        (SetClass::Overlapping(kind), Err(_)) => {
            cnt.add(&format!("extract.outcome.overlap_refused.{kind}"), 1);
            if after != orig {
                ctx.violation(
                    "C18|extract_compact_segment|overlapping-set-refused-but-file-modified",
                    "an overlapping span set was refused but the file was changed",
                    json!({"case": case_detail(c), "len_before": orig.len(), "len_after": after.len()}),
                );
            }
        }
        (SetClass::Ambiguous, Ok(saved)) => {
            cnt.add("extract.zero_length_span_inside_span.accepted(observation)", 1);
            check_ok(saved, cnt);
        }
        (SetClass::Ambiguous, Err(_)) => {
            cnt.add("extract.zero_length_span_inside_span.refused(observation)", 1);
            if after != orig {
                ctx.violation(
                    "C18|extract_compact_segment|set-refused-but-file-modified|zero-length-span-inside-span",
                    "a span set was refused but the file was changed",
                    json!({"case": case_detail(c)}),
                );
            }
        }
    }
    if ctx.want_sample() && moves_data && c.spans.len() <= 6 {
        ctx.sample(json!({"part":"extract","file_len":c.file_len,"budget":c.budget,"io_buffer":buf,"spans":spans_json(&c.spans),"shape":c.shape,"file_len_after":after.len()}));
    }
}

// ---------------------------------------------------------------------------
// part B: validate_spans / overlaps without files
// ---------------------------------------------------------------------------

fn run_validate_case(ctx: &Ctx, rng: &mut Rng, cnt: &mut Cnt) {
    let c = gen_span_case(rng, 0);
    let spans: Vec<(u64, u64)> = c.spans.iter().copied().take(40).collect();
    let mut d: Vec<DataSpan> = spans.iter().map(|&(offset, length)| DataSpan { offset, length }).collect();
    let r = validate_spans(&mut d);
    let class = classify(&spans);
    let h = mix64(fnv64(b"validate"), fnv64(format!("{spans:?}").as_bytes()));
    if spans.len() >= 2 {
        ctx.eval_nontrivial(h);
    } else {
        ctx.eval();
    }
    cnt.add("validate_spans.sets", 1);
    let detail = || json!({"kind":"validate","spans":spans_json(&spans)});
    match (class, &r) {
        (SetClass::Valid, Err(e)) => {
            let adjacent = spans.iter().any(|a| a.1 > 0 && spans.iter().any(|b| b.1 > 0 && a.0 + a.1 == b.0));
            ctx.violation(&format!("C18|validate_spans|non-overlapping-set-refused|{}", if adjacent { "adjacent-spans" } else { "no-adjacent-spans" }), "validate_spans refused a set in which no two spans share a byte", json!({"case": detail(), "error": e.to_string()}));
        }
        (SetClass::Overlapping(kind), Ok(())) => {
            ctx.violation(&format!("C18|validate_spans|overlapping-set-accepted|{kind}"), "validate_spans accepted an overlapping set", json!({"case": detail()}));
        }
        (SetClass::Overlapping(_), Err(_)) => cnt.add("validate_spans.overlap_refused", 1),
        (SetClass::Valid, Ok(())) => cnt.add("validate_spans.valid_accepted", 1),
        (SetClass::Ambiguous, Ok(())) => cnt.add("validate_spans.zero_length_inside_span.accepted(observation)", 1),
        (SetClass::Ambiguous, Err(_)) => cnt.add("validate_spans.zero_length_inside_span.refused(observation)", 1),
    }
    if r.is_ok() {
        // the slice must still be the same multiset, sorted by offset
        let mut got: Vec<(u64, u64)> = d.iter().map(|s| (s.offset, s.length)).collect();
        if !is_sorted(&got) {
            ctx.violation("C18|validate_spans|accepted-set-not-sorted-by-offset", "after Ok the slice is not sorted by offset", json!({"case": detail()}));
        }
        let mut want = spans.clone();
        got.sort_unstable();
        want.sort_unstable();
        if got != want {
            ctx.violation("C18|validate_spans|spans-changed", "validate_spans changed the span values", json!({"case": detail()}));
        }
    }
    // pairwise DataSpan::overlaps on positive-length spans
    for (i, a) in spans.iter().enumerate().take(12) {
        for b in spans.iter().skip(i + 1).take(12) {
            if a.1 == 0 || b.1 == 0 {
                continue;
            }
            let want = a.0 < b.0 + b.1 && b.0 < a.0 + a.1;
            let da = DataSpan { offset: a.0, length: a.1 };
            let db = DataSpan { offset: b.0, length: b.1 };
            if da.overlaps(&db) != want || db.overlaps(&da) != want {
                ctx.violation("C18|DataSpan::overlaps|differs-from-interval-intersection", "overlaps() disagrees with interval intersection", json!({"a":[a.0,a.1],"b":[b.0,b.1],"want":want}));
            }
            cnt.add("overlaps.pairs", 1);
        }
    }
}

// ---------------------------------------------------------------------------
// part C: CompactionFileMover directly
// ---------------------------------------------------------------------------

fn run_mover_case(ctx: &Ctx, rng: &mut Rng, dir: &Path, cnt: &mut Cnt, detail_override: Option<&Value>) {
    let (which, budget, la, lb, src, dst, len, salt) = if let Some(d) = detail_override {
        let g = |k: &str| d.get(k).and_then(Value::as_u64).unwrap_or(0);
        (g("which"), g("budget") as usize, g("len_a") as usize, g("len_b") as usize, g("src"), g("dst"), g("len"), d.get("salt").and_then(Value::as_str).and_then(|s| s.parse().ok()).unwrap_or(0u64))
    } else {
        let which = rng.below(2);
        let budget = *rng.pick(&BUDGETS);
        let la = gen_file_len(rng, true).max(1);
        let lb = gen_file_len(rng, false);
        let len = match rng.below(4) {
            0 => 0,
            1 => rng.range(0, la.min(64) as u64),
            _ => rng.range(0, la as u64),
        };
        let src = rng.range(0, la as u64 - len);
        let dst = if which == 0 {
            // other file: anywhere up to a little past EOF
            {
                let past = if rng.chance(1, 4) { 100 } else { 0 };
                rng.range(0, lb as u64 + past)
            }
        } else {
            match rng.below(4) {
                0 => src,
                1 | 2 => rng.range(0, src), // compaction direction (dest <= src)
                _ => rng.range(0, la as u64),
            }
        };
        (which, budget, la, lb, src, dst, len, rng.next_u64())
    };
    let a0 = content(la, salt);
    let pa = dir.join("mover-a");
    let pb = dir.join("mover-b");
    let mut mover = CompactionFileMover::new(budget);
    let buf = mover.buffer_size() as u64;
    let detail = json!({"kind":"mover","which":which,"budget":budget,"len_a":la,"len_b":lb,"src":src,"dst":dst,"len":len,"salt":salt.to_string()});
    let h = mix64(fnv64(b"mover"), fnv64(detail.to_string().as_bytes()));
    if len > 0 {
        ctx.eval_nontrivial(h);
    } else {
        ctx.eval();
    }
    if which == 0 {
        let b0 = content(lb, salt ^ 0x5555);
        if std::fs::write(&pa, &a0).is_err() || std::fs::write(&pb, &b0).is_err() {
            ctx.inconclusive("cannot write scratch files");
            return;
        }
        let r = (|| -> std::io::Result<_> {
            let mut fa = OpenOptions::new().read(true).open(&pa)?;
            let mut fb = OpenOptions::new().read(true).write(true).open(&pb)?;
            Ok(mover.move_data(&mut fa, src, &mut fb, dst, len))
        })();
        let Ok(r) = r else {
            ctx.inconclusive("cannot open scratch files");
            return;
        };
        let (a1, b1) = (std::fs::read(&pa).unwrap_or_default(), std::fs::read(&pb).unwrap_or_default());
        cnt.add("mover.move_data.calls", 1);
        if len > buf {
            cnt.add("mover.move_data.length>io_buffer", 1);
        }
        match r {
            Ok(()) => {
                let mut want = b0.clone();
                if len > 0 {
                    let end = (dst + len) as usize;
                    if want.len() < end {
                        want.resize(end, 0);
                    }
                    want[dst as usize..end].copy_from_slice(&a0[src as usize..(src + len) as usize]);
                }
                if a1 != a0 {
                    ctx.violation("C18|move_data|source-file-modified", "move_data changed the source file", json!({"case": detail}));
                }
                if b1 != want {
                    let first = b1.iter().zip(&want).position(|(x, y)| x != y);
                    ctx.violation(
                        &format!("C18|move_data|destination-differs-from-splice-model|{}", if len > buf { "length>io-buffer" } else { "length<=io-buffer" }),
                        "destination file is not 'old bytes with [dst, dst+len) replaced by the source range'",
                        json!({"case": detail, "first_diff": first, "len_after": b1.len(), "want_len": want.len()}),
                    );
                }
                if mover.bytes_moved() != len {
                    ctx.violation("C18|move_data|bytes_moved-differs-from-length", "bytes_moved() does not equal the bytes moved", json!({"case": detail, "bytes_moved": mover.bytes_moved()}));
                }
            }
            Err(e) => {
                ctx.violation("C18|move_data|in-range-move-refused", "move_data failed for a source range inside the source file", json!({"case": detail, "error": e.to_string()}));
            }
        }
    } else {
        if std::fs::write(&pa, &a0).is_err() {
            ctx.inconclusive("cannot write scratch files");
            return;
        }
        let r = (|| -> std::io::Result<_> {
            let mut fa = OpenOptions::new().read(true).write(true).open(&pa)?;
            Ok(mover.compact_in_place(&mut fa, src, dst, len))
        })();
        let Ok(r) = r else {
            ctx.inconclusive("cannot open scratch files");
            return;
        };
        let a1 = std::fs::read(&pa).unwrap_or_default();
        cnt.add("mover.compact_in_place.calls", 1);
        let overlapping = len > 0 && src < dst + len && dst < src + len && src != dst;
        let upwards_smear = dst > src && overlapping && len > buf;
        if len > buf && dst < src && overlapping {
            cnt.add("mover.compact_in_place.boundary.downward_overlapping_multi_chunk", 1);
        }
        match r {
            Ok(()) => {
                let mut want = a0.clone();
                if len > 0 {
                    let end = (dst + len) as usize;
                    if want.len() < end {
                        want.resize(end, 0);
                    }
                    want.copy_within(src as usize..(src + len) as usize, dst as usize);
                }
                if a1 != want {
                    if upwards_smear {
                        // outside the statement (compaction only moves data downwards)
                        cnt.add("mover.compact_in_place.upward_overlapping_multi_chunk_differs_from_memmove(observation)", 1);
                    } else {
                        let dir_ = if dst < src { "downward" } else { "upward-non-overlapping-or-single-chunk" };
                        let first = a1.iter().zip(&want).position(|(x, y)| x != y);
                        ctx.violation(
                            &format!("C18|compact_in_place|file-differs-from-memmove-model|{dir_}|{}", if len > buf { "length>io-buffer" } else { "length<=io-buffer" }),
                            "file is not 'old bytes with [dst, dst+len) replaced by the ORIGINAL bytes of [src, src+len)'",
                            json!({"case": detail, "first_diff": first, "io_buffer": buf}),
                        );
                    }
                } else if upwards_smear {
                    cnt.add("mover.compact_in_place.upward_overlapping_multi_chunk_equals_memmove(observation)", 1);
                }
            }
            Err(e) => {
                ctx.violation("C18|compact_in_place|in-range-move-refused", "compact_in_place failed for a source range inside the file", json!({"case": detail, "error": e.to_string()}));
            }
        }
    }
}

// ---------------------------------------------------------------------------
// part D: plan_archive_merge
// ---------------------------------------------------------------------------

#[derive(Debug, Clone)]
struct PlanCase {
    segment_size: u64,
    threshold: f64,
    /// (frozen, write_position)
    segs: Vec<(bool, u64)>,
}

fn gen_plan_case(rng: &mut Rng) -> PlanCase {
    let segment_size = match rng.below(8) {
        0 => 1000,
        1 => 4096,
        2 => 65_536,
        3 => 1 << 20,
        4 => 0x4000_0000,
        5 => rng.range(2, 100),
        _ => rng.range(100, 1 << 22),
    };
    let threshold = match rng.below(10) {
        0 => 0.0,
        1 => 0.1,
        2 | 3 => 0.3,
        4 | 5 => 0.5,
        6 => 0.75,
        7 => 1.0,
        8 => 1.5,
        _ => (rng.below(1000) as f64) / 1000.0,
    };
    let n = match rng.below(10) {
        0 => 0,
        1 => 1,
        2 => 2,
        3 => 40,
        _ => rng.urange(2, 40),
    };
    let frozen_mode = rng.below(4); // 0 all frozen, 1 all thawed, 2/3 mixed
    #[allow(clippy::cast_possible_truncation, clippy::cast_sign_loss)]
    let edge = (threshold * segment_size as f64) as u64;
    // utilisation profile: "many small" forces several destinations
    let profile = rng.below(4);
    let segs = (0..n)
        .map(|_| {
            let frozen = match frozen_mode {
                0 => true,
                1 => false,
                _ => rng.chance(3, 4),
            };
            let wp = match (profile, rng.below(10)) {
                (_, 0) => 0,
                (_, 1) => segment_size,
                (_, 2) => edge.min(segment_size),
                (_, 3) => edge.saturating_sub(1).min(segment_size),
                (_, 4) => (edge + 1).min(segment_size),
                (0, _) => rng.range(1, (segment_size / 8).max(1)),
                (1, _) => rng.range(segment_size / 4, (segment_size / 2).max(segment_size / 4)),
                (2, _) => rng.range(1, edge.clamp(1, segment_size)),
                _ => rng.range(0, segment_size),
            };
            (frozen, wp)
        })
        .collect();
    PlanCase { segment_size, threshold, segs }
}

fn plan_detail(c: &PlanCase) -> Value {
    json!({"kind":"plan","segment_size":c.segment_size,"threshold":c.threshold,"segments":c.segs.iter().map(|(f,w)| json!([f,w])).collect::<Vec<_>>()})
}

fn run_plan_case(ctx: &Ctx, c: &PlanCase, cnt: &mut Cnt) {
    let infos: Vec<SegmentInfo> = c
        .segs
        .iter()
        .enumerate()
        .map(|(i, (frozen, wp))| {
            let mut s = SegmentInfo::new(i as u16, SegmentHeader::default());
            s.state = if *frozen { SegmentState::Frozen } else { SegmentState::Thawed };
            s.write_position = *wp;
            s
        })
        .collect();
    let plan = match std::panic::catch_unwind(std::panic::AssertUnwindSafe(|| plan_archive_merge(&infos, c.threshold, c.segment_size))) {
        Ok(p) => p,
        Err(p) => {
            ctx.violation("C18|plan_archive_merge|panic", "plan_archive_merge panicked", json!({"case": plan_detail(c), "panic": vh::monitor::watchdog::panic_message(&p)}));
            return;
        }
    };
    let h = mix64(fnv64(b"plan"), fnv64(plan_detail(c).to_string().as_bytes()));
    if plan.moves.is_empty() {
        ctx.eval();
        cnt.add("plan.empty_plans", 1);
    } else {
        ctx.eval_nontrivial(h);
        cnt.add("plan.nonempty_plans", 1);
    }
    cnt.add("plan.segments_total", c.segs.len() as u64);
    cnt.add("plan.moves_total", plan.moves.len() as u64);

    // interval model per destination, seeded with [0, write_position)
    let mut used: HashMap<u16, Vec<(u64, u64)>> = HashMap::new();
    let mut moved_out: Vec<u16> = Vec::new();
    let first_dest = plan.moves.first().map(|m| m.dest_segment);
    let mut dests: Vec<u16> = Vec::new();
    for (mi, m) in plan.moves.iter().enumerate() {
        let n = c.segs.len();
        if m.source_segment as usize >= n || m.dest_segment as usize >= n {
            ctx.violation("C18|plan_archive_merge|move-references-unknown-segment", "a move names a segment index outside the population", json!({"case": plan_detail(c), "move_index": mi, "move": [m.source_segment, m.source_offset, m.dest_segment, m.dest_offset, m.length]}));
            return;
        }
        if m.source_segment == m.dest_segment {
            ctx.violation("C18|plan_archive_merge|source-equals-destination", "a move copies a segment onto itself", json!({"case": plan_detail(c), "move_index": mi}));
            return;
        }
        let (dfrozen, dwp) = c.segs[m.dest_segment as usize];
        let (sfrozen, swp) = c.segs[m.source_segment as usize];
        if !dests.contains(&m.dest_segment) {
            dests.push(m.dest_segment);
        }
        let which = if Some(m.dest_segment) == first_dest { "first-destination" } else { "later-destination" };
        let (a, b) = (m.dest_offset, m.dest_offset + m.length);
        if m.length > 0 && a < dwp {
            ctx.violation(
                &format!("C18|plan_archive_merge|move-lands-on-bytes-the-destination-already-uses|{which}"),
                "a move's destination range intersects [0, write_position) of the destination segment",
                json!({"case": plan_detail(c), "move_index": mi, "move": {"src": m.source_segment, "src_off": m.source_offset, "dst": m.dest_segment, "dst_off": m.dest_offset, "len": m.length}, "dest_write_position": dwp}),
            );
            return;
        }
        let list = used.entry(m.dest_segment).or_default();
        if m.length > 0 && list.iter().any(|&(x, y)| a < y && x < b) {
            ctx.violation(
                &format!("C18|plan_archive_merge|two-moves-overlap-in-destination|{which}"),
                "two moves write intersecting ranges of the same destination segment",
                json!({"case": plan_detail(c), "move_index": mi, "range": [a, b], "earlier_ranges": list.clone()}),
            );
            return;
        }
        if b > c.segment_size {
            ctx.violation(
                &format!("C18|plan_archive_merge|destination-filled-beyond-segment-size|{which}"),
                "a move ends beyond segment_size",
                json!({"case": plan_detail(c), "move_index": mi, "range": [a, b], "segment_size": c.segment_size}),
            );
            return;
        }
        list.push((a, b));
        // observations outside the statement
        if m.source_offset + m.length > swp {
            cnt.add("plan.move_reads_beyond_source_write_position(observation)", 1);
        }
        if m.source_offset != 0 || m.length != swp {
            cnt.add("plan.move_does_not_cover_whole_source(observation)", 1);
        }
        if !sfrozen || !dfrozen {
            cnt.add("plan.move_involves_thawed_segment(observation)", 1);
        }
        if moved_out.contains(&m.dest_segment) {
            cnt.add("plan.destination_was_itself_moved_out_earlier(observation)", 1);
        }
        if moved_out.contains(&m.source_segment) {
            cnt.add("plan.source_moved_twice(observation)", 1);
        }
        moved_out.push(m.source_segment);
        if a == dwp || list.iter().any(|&(_, y)| y == a) {
            cnt.add("plan.move_appended_exactly_at_used_end", 1);
        }
        if b == c.segment_size {
            cnt.add("plan.boundary.destination_filled_exactly", 1);
        }
    }
    if dests.len() >= 2 {
        cnt.add("plan.boundary.plans_with_several_destinations", 1);
    }
    if let Some(fd) = first_dest {
        if c.segs[fd as usize].1 > 0 {
            cnt.add("plan.boundary.first_destination_has_used_bytes", 1);
        }
    }
    let sum: u64 = plan.moves.iter().map(|m| m.length).sum();
    if sum != plan.total_bytes {
        cnt.add("plan.total_bytes_differs_from_sum_of_moves(observation)", 1);
    }
    let has_frozen = c.segs.iter().any(|s| s.0);
    let has_thawed = c.segs.iter().any(|s| !s.0);
    if has_frozen && has_thawed {
        cnt.add("plan.populations_mixed_frozen_thawed", 1);
    }
    #[allow(clippy::cast_precision_loss)]
    let (below, above) = c.segs.iter().fold((0, 0), |(b, a), s| if (s.1 as f64 / c.segment_size as f64) < c.threshold { (b + 1, a) } else { (b, a + 1) });
    if below > 0 && above > 0 {
        cnt.add("plan.populations_on_both_sides_of_threshold", 1);
    }
    if ctx.want_sample() && plan.moves.len() >= 2 && c.segs.len() <= 8 {
        ctx.sample(json!({"part":"plan","case":plan_detail(c),"moves":plan.moves.iter().map(|m| json!([m.source_segment, m.dest_segment, m.dest_offset, m.length])).collect::<Vec<_>>() }));
    }
}

// ---------------------------------------------------------------------------
// part E: ArchiveManager::compact
// ---------------------------------------------------------------------------

fn run_archive_manager(ctx: &Ctx, rng: &mut Rng, cnt: &mut Cnt) {
    let Ok(tmp) = tempfile::tempdir() else {
        ctx.inconclusive("tempdir failed");
        return;
    };
    let mut mgr = ArchiveManager::new(tmp.path());
    let mut records: Vec<(u16, u32, u32)> = Vec::new();
    let n = rng.urange(8, 24);
    for _ in 0..n {
        let len = match rng.below(4) {
            0 => rng.urange(0, 100),
            1 => rng.urange(100, 10_000),
            _ => rng.urange(50_000, 250_000),
        };
        let data = rng.bytes(len);
        match mgr.write_content(&data, false) {
            Ok((id, off, size, _)) => records.push((id, off, size)),
            Err(e) => {
                cnt.add("archive_manager.write_refused(observation)", 1);
                let _ = e;
            }
        }
    }
    let snapshot = |dir: &Path| -> HashMap<u16, Vec<u8>> {
        let mut m = HashMap::new();
        for (id, _, _) in &records {
            if !m.contains_key(id) {
                if let Ok(b) = std::fs::read(dir.join(format!("data.{id:03}"))) {
                    m.insert(*id, b);
                }
            }
        }
        m
    };
    let before = snapshot(tmp.path());
    let total: usize = before.values().map(Vec::len).sum();
    let r = mgr.compact();
    let after = snapshot(tmp.path());
    let h = mix64(fnv64(b"archive-manager"), mix64(records.len() as u64, total as u64));
    ctx.eval_nontrivial(h);
    cnt.add("archive_manager.compact.calls", 1);
    cnt.add("archive_manager.records_appended", records.len() as u64);
    if total > 1024 * 1024 {
        cnt.add("archive_manager.compact.calls_on_archives>1MiB", 1);
    }
    match r {
        Ok(stats) => {
            cnt.add("archive_manager.compact.archives_compacted", stats.archives_compacted as u64);
            cnt.add("archive_manager.compact.bytes_reclaimed", stats.bytes_reclaimed);
            for (id, off, size) in &records {
                let (Some(b), Some(a)) = (before.get(id), after.get(id)) else {
                    ctx.violation("C18|ArchiveManager::compact|archive-file-missing-after-compact", "an archive file that held appended records is gone after compact()", json!({"archive": id}));
                    return;
                };
                let (s, e) = (*off as usize, *off as usize + *size as usize);
                if e > b.len() {
                    cnt.add("archive_manager.record_beyond_file_before_compact(observation)", 1);
                    continue;
                }
                if e > a.len() || a[s..e] != b[s..e] {
                    ctx.violation(
                        "C18|ArchiveManager::compact|appended-record-bytes-changed-on-disk",
                        "after compact() the bytes of an appended record differ from what was on disk before",
                        json!({"archive": id, "offset": off, "size": size, "file_len_before": b.len(), "file_len_after": a.len(), "archives_compacted": stats.archives_compacted}),
                    );
                    return;
                }
            }
        }
        Err(e) => {
            cnt.add("archive_manager.compact.error(observation)", 1);
            let _ = e;
        }
    }
}

// ---------------------------------------------------------------------------
// replay
// ---------------------------------------------------------------------------

fn replay(ctx: &Ctx, d: &Value) {
    let case = d.get("case").unwrap_or(d);
    let kind = case.get("kind").and_then(Value::as_str).unwrap_or("");
    let Ok(tmp) = tempfile::tempdir() else {
        ctx.inconclusive("tempdir failed");
        return;
    };
    let mut cnt = Cnt::default();
    let pairs = |v: Option<&Value>| -> Vec<(u64, u64)> {
        v.and_then(Value::as_array).map(|a| a.iter().filter_map(|p| Some((p.get(0)?.as_u64()?, p.get(1)?.as_u64()?))).collect()).unwrap_or_default()
    };
    match kind {
        "extract" => {
            let c = SpanCase {
                file_len: case.get("file_len").and_then(Value::as_u64).unwrap_or(0) as usize,
                salt: case.get("salt").and_then(Value::as_str).and_then(|s| s.parse().ok()).unwrap_or(0),
                budget: case.get("budget").and_then(Value::as_u64).unwrap_or(0) as usize,
                spans: pairs(case.get("spans")),
                shape: "replay",
            };
            run_extract_case(ctx, &c, &tmp.path().join("seg"), &mut cnt);
        }
        "plan" => {
            let segs = case.get("segments").and_then(Value::as_array).map(|a| a.iter().filter_map(|p| Some((p.get(0)?.as_bool()?, p.get(1)?.as_u64()?))).collect()).unwrap_or_default();
            let c = PlanCase { segment_size: case.get("segment_size").and_then(Value::as_u64).unwrap_or(1), threshold: case.get("threshold").and_then(Value::as_f64).unwrap_or(0.0), segs };
            run_plan_case(ctx, &c, &mut cnt);
        }
        "mover" => {
            let mut rng = ctx.rng(0);
            run_mover_case(ctx, &mut rng, tmp.path(), &mut cnt, Some(case));
        }
        _ => {
            ctx.inconclusive("replay: this finding has no stored case; re-run the tier with the recorded seed");
        }
    }
    ctx.eval_nontrivial(1);
    ctx.eval_nontrivial(2);
    cnt.flush(ctx);
}

fn main() {
    let ctx = Ctx::init("C18", "exploration");
    ctx.set_rule(
        "A: one case = (file of 0..=600 KiB position-dependent bytes, span set, buffer budget) given to extract_compact_segment on a real file; span sets come from shape generators (adjacent from 0, adjacent after a gap, gapped, first span after 0, one span larger than the I/O buffer preceded by a smaller gap, zero-length spans, single spans, overlapping variants derived from valid sets: identical / contained / one shared byte / partial, beyond-EOF, empty list), input order shuffled in half of the cases, budgets {0,128Ki,1Mi,4Mi,200000,256Ki}; non-trivial = at least one live byte has to move or an overlap has to be refused. B: validate_spans / DataSpan::overlaps on the same generators. C: CompactionFileMover::move_data / compact_in_place with random (src,dst,len) against a splice/memmove model; non-trivial = len>0. D: one case = (0..=40 segments with write positions around 0, threshold*size-1/0/+1, full, random; frozen/thawed mixes; segment sizes 2..2^30; thresholds 0..1.5) given to plan_archive_merge and judged by an interval model per destination seeded with [0,write_position); non-trivial = plan has at least one move. E: ArchiveManager::compact after real appends. distinct = hash of the concrete case parameters.",
    );
    ctx.assume("the harness' interval classification of span sets (two positive-length spans sharing a byte = overlapping) is the meaning of 'overlapping' in the statement; zero-length spans inside a span are left open");
    ctx.assume("the file system of the temp dir returns what was written (page cache), no fault injection in this property");
    std::panic::set_hook(Box::new(|_| {}));

    if let Some(d) = ctx.replay_detail() {
        replay(&ctx, &d);
        ctx.finish();
    }

    let threads = 16usize;
    let n_extract: usize = ctx.pick(12_000, 50_000);
    let n_validate: usize = ctx.pick(120_000, 400_000);
    let n_mover: usize = ctx.pick(6_000, 20_000);
    let n_plan: usize = ctx.pick(80_000, 500_000);
    let n_am: usize = ctx.pick(8, 32);
    let next = AtomicUsize::new(0);
    let total = n_extract + n_validate + n_mover + n_plan + n_am;
    std::thread::scope(|s| {
        for _ in 0..threads {
            let next = &next;
            let ctx = &ctx;
            s.spawn(move || {
                let Ok(tmp) = tempfile::tempdir() else {
                    ctx.inconclusive("tempdir failed");
                    return;
                };
                let seg_path = tmp.path().join("segment.data");
                let mut cnt = Cnt::default();
                loop {
                    // blocks of 16 consecutive indices per grab; each index has its own PRNG stream
                    let base = next.fetch_add(16, Ordering::Relaxed);
                    if base >= total {
                        break;
                    }
                    for ix in base..(base + 16).min(total) {
                        let mut rng = ctx.rng(1_000_000 + ix as u64);
                        // interleave the parts so that a cut-off run has seen all of them
                        if ix < n_extract {
                            let c = gen_span_case(&mut rng, 0);
                            run_extract_case(ctx, &c, &seg_path, &mut cnt);
                        } else if ix < n_extract + n_validate {
                            run_validate_case(ctx, &mut rng, &mut cnt);
                        } else if ix < n_extract + n_validate + n_mover {
                            run_mover_case(ctx, &mut rng, tmp.path(), &mut cnt, None);
                        } else if ix < n_extract + n_validate + n_mover + n_plan {
                            let c = gen_plan_case(&mut rng);
                            run_plan_case(ctx, &c, &mut cnt);
                        } else {
                            run_archive_manager(ctx, &mut rng, &mut cnt);
                        }
                    }
                }
                cnt.flush(ctx);
            });
        }
    });

    let need = [
        "extract.boundary.span_larger_than_io_buffer_moved_over_itself",
        "extract.outcome.compacted_with_moves",
        "extract.unsorted_input_order",
        "extract.shape.overlapping-added",
        "extract.shape.with-zero-length-spans",
        "extract.shape.first-span-after-0",
        "extract.shape.adjacent-from-0",
        "mover.compact_in_place.boundary.downward_overlapping_multi_chunk",
        "mover.move_data.length>io_buffer",
        "plan.nonempty_plans",
        "plan.boundary.plans_with_several_destinations",
        "plan.boundary.first_destination_has_used_bytes",
        "plan.populations_mixed_frozen_thawed",
        "plan.populations_on_both_sides_of_threshold",
        "archive_manager.compact.calls_on_archives>1MiB",
    ];
    for k in need {
        if ctx.get_obs(k) == 0 {
            ctx.inconclusive(&format!("situation never reached: {k}"));
        }
    }
    let refused: u64 = ["identical-spans", "one-span-contains-the-other", "one-shared-byte", "partial-overlap"].iter().map(|k| ctx.get_obs(&format!("extract.outcome.overlap_refused.{k}"))).sum();
    if refused == 0 && ctx.violation_signatures().is_empty() {
        ctx.inconclusive("no overlapping span set was seen being refused");
    }
    if ctx.get_obs("archive_manager.compact.archives_compacted") == 0 {
        ctx.set_extra("archive_manager_note", json!("ArchiveManager::compact never entered its truncation branch: write position always equals the mapped size for archives produced through the public API, so the branch is unreachable without private state; the call was still made and every appended record compared on disk"));
    }
    ctx.finish();
}
