//! C04 — local storage returns every stored object byte-for-byte, at any later time.
//!
//! Workload: seeded histories of 5–60 operations against the real
//! `DynamicContainer` (plain / residency container attached / LRU attached /
//! both) and the real `Installation`, each in its own temp directory.
//! Monitor: every call and result at the public API boundary.
//! Oracle: a map model `ekey -> payload`. The encoding key is derived
//! independently of the code under test (MD5 of the reference BLTE wrapping
//! `"BLTE" ‖ 0u32 ‖ 'N' ‖ payload`). Reads use a buffer larger than the payload
//! and must return `n == len` and identical bytes — in the same instance after
//! any later writes, and after drop + reopen of the same directory.
//! Contents recur: a write may store again what is still stored or what was removed earlier (also right after the
//! removal, also when the removed object was the one written last); objects are addressed by the full encoding key,
//! by its first nine bytes zero-padded (what index enumeration yields) or by the nine bytes with another tail.
//!
//! Several-handles histories: up to three live handles (Installation or DynamicContainer) on one directory; one stores,
//! another looks at the directory again (`initialize()` / `open()` on the live handle) and then reads and stores; every
//! handle whose view of the directory includes a write returns the object byte for byte.
//!
//! Re-runnable slices (for sanitizer layers): extra argv
//!   `--only-history N`   run exactly history N of the current seed/tier
//!   `--only-target dynamic|installation`
//!   `--histories N`      override the number of histories
//!   `--threads N`
//! `--replay FILE` re-runs the history recorded in the witness.

use cascette_client_storage::container::{AccessMode, Container, DynamicContainer, ResidencyContainer};
use cascette_client_storage::index::IndexManager;
use cascette_client_storage::lru::LruManager;
use cascette_client_storage::storage::ArchiveManager;
use cascette_client_storage::{Installation, StorageError};
use cascette_crypto::{ContentKey, EncodingKey, FileDataId};
use cascette_formats::blte::CompressionMode;
use cascette_formats::encoding::{CKeyEntryData, EKeyEntryData, EncodingBuilder};
use cascette_formats::root::{ContentFlags, LocaleFlags, RootBuilder, RootVersion};
use parking_lot::RwLock;
use serde_json::{Value, json};
use std::cell::RefCell;
use std::collections::{BTreeMap, BTreeSet};
use std::io::Write as _;
use std::path::{Path, PathBuf};
use std::sync::Arc;
use std::sync::atomic::{AtomicUsize, Ordering};
use vh::{Ctx, Rng, fnv64, genx, hex_short, mix64};

const PROBE_ID: usize = usize::MAX;
const HUGE_ID: usize = usize::MAX - 1;
const TRUNC_ID: usize = usize::MAX - 2;

thread_local! {
    static LAST_PANIC: RefCell<Option<(String, String)>> = const { RefCell::new(None) };
}

// ---------------------------------------------------------------------------
// reference key derivation (independent of /repo)
// ---------------------------------------------------------------------------

fn ref_blte_n(payload: &[u8]) -> Vec<u8> {
    let mut v = Vec::with_capacity(payload.len() + 9);
    v.extend_from_slice(b"BLTE");
    v.extend_from_slice(&[0, 0, 0, 0]);
    v.push(b'N');
    v.extend_from_slice(payload);
    v
}

fn derive_ekey(payload: &[u8]) -> [u8; 16] {
    md5::compute(ref_blte_n(payload)).0
}

fn k9(k: &[u8; 16]) -> [u8; 9] {
    let mut o = [0u8; 9];
    o.copy_from_slice(&k[..9]);
    o
}

// ---------------------------------------------------------------------------
// payloads
// ---------------------------------------------------------------------------

const EXTRA_CLASSES: &[&str] = &["c04_nested2", "c04_blte_zlib", "c04_archive_entry", "c04_blte_bad_header"];

fn zlib(data: &[u8]) -> Vec<u8> {
    let mut e = flate2::write::ZlibEncoder::new(Vec::new(), flate2::Compression::default());
    let _ = e.write_all(data);
    e.finish().unwrap_or_default()
}

fn make_payload(rng: &mut Rng, class: &str, n: usize) -> Vec<u8> {
    match class {
        "c04_nested2" => ref_blte_n(&ref_blte_n(&rng.bytes(n))),
        "c04_blte_zlib" => {
            let inner = if rng.bool() { rng.bytes(n) } else { vec![b'a'; n] };
            let mut v = b"BLTE\x00\x00\x00\x00Z".to_vec();
            v.extend(zlib(&inner));
            v
        }
        "c04_archive_entry" => {
            // exactly what an archive holds for one object: 30-byte local header ‖ BLTE
            let blte = ref_blte_n(&rng.bytes(n));
            let mut key = md5::compute(&blte).0;
            key.reverse();
            let mut v = key.to_vec();
            v.extend_from_slice(&((blte.len() as u32) + 30).to_be_bytes());
            v.extend_from_slice(&[0, 0]);
            v.extend(rng.bytes(8));
            v.extend(blte);
            v
        }
        "c04_blte_bad_header" => {
            let mut v = b"BLTE".to_vec();
            v.extend(rng.bytes(n.max(5)));
            v
        }
        "empty" | "one_byte" => genx::payload_of_class(rng, class, n),
        _ => {
            let mut p = genx::payload_of_class(rng, class, n);
            if p.len() < n {
                let pad = n - p.len();
                match class {
                    "zeros" => p.extend(std::iter::repeat_n(0u8, pad)),
                    "ones" => p.extend(std::iter::repeat_n(0xffu8, pad)),
                    _ => p.extend(rng.bytes(pad)),
                }
            }
            p
        }
    }
}

/// Content-derived witness class used in signatures.
fn content_group(p: &[u8], class: &str) -> &'static str {
    if p.is_empty() {
        "empty-content"
    } else if p.starts_with(b"BLTE") {
        "blte-prefixed-content"
    } else if p.len() >= 34 && &p[30..34] == b"BLTE" {
        "blte-at-0x1e-content"
    } else if class == "local_header_lookalike" {
        "local-header-lookalike-content"
    } else {
        "plain-content"
    }
}

const SIZE_ORDERS: &[&str] = &["descending", "growing", "equal", "empty_mix", "random", "probe_1000_100_50"];

struct SizePlan {
    order: &'static str,
    max: usize,
    last: usize,
    count: usize,
}

impl SizePlan {
    fn new(rng: &mut Rng, order: &'static str, max: usize) -> Self {
        let last = match order {
            "descending" => rng.urange(max / 4, max),
            "growing" => rng.urange(0, 48),
            "equal" => rng.size_biased(max.min(20_000)),
            _ => 0,
        };
        Self { order, max, last, count: 0 }
    }
    fn next(&mut self, rng: &mut Rng) -> usize {
        let n = match self.order {
            "descending" => {
                let n = self.last;
                let f = rng.urange(8, 95);
                self.last = self.last * f / 100;
                n
            }
            "growing" => {
                let n = self.last;
                let f = rng.urange(110, 320);
                self.last = (self.last * f / 100 + rng.urange(0, 3)).min(self.max);
                n
            }
            "equal" => self.last,
            "empty_mix" => {
                if self.count % 2 == 0 {
                    0
                } else {
                    rng.size_biased(self.max)
                }
            }
            "probe_1000_100_50" => match self.count {
                0 => 1000,
                1 => 100,
                2 => 50,
                _ => rng.size_biased(self.max),
            },
            _ => rng.size_biased(self.max),
        };
        self.count += 1;
        n
    }
}

// ---------------------------------------------------------------------------
// model
// ---------------------------------------------------------------------------

struct Obj {
    payload: Vec<u8>,
    class: &'static str,
    epoch: u32,
    write_no: usize,
}

#[derive(Default)]
struct Model {
    live: BTreeMap<[u8; 16], Obj>,
    removed: BTreeSet<[u8; 16]>,
    /// content of the objects that were removed (so that a later write can store the very same content again)
    removed_content: BTreeMap<[u8; 16], (Vec<u8>, &'static str)>,
    order: Vec<[u8; 16]>,
    writes: usize,
}

impl Model {
    fn pick_live(&self, rng: &mut Rng, prefer_non_latest: bool) -> Option<[u8; 16]> {
        if self.live.is_empty() {
            return None;
        }
        let latest = self.order.last().copied();
        let keys: Vec<&[u8; 16]> = self.live.keys().collect();
        for _ in 0..4 {
            let k = **rng.pick(&keys);
            if !prefer_non_latest || Some(k) != latest || keys.len() == 1 {
                return Some(k);
            }
        }
        Some(**rng.pick(&keys))
    }
    /// The object written last, if it is still stored (the tail of the archive it went to).
    fn latest_live(&self) -> Option<[u8; 16]> {
        self.order.last().copied().filter(|k| self.live.contains_key(k))
    }
    fn forget(&mut self, k: &[u8; 16]) {
        if let Some(o) = self.live.remove(k) {
            self.removed_content.insert(*k, (o.payload, o.class));
        }
        self.order.retain(|x| x != k);
        self.removed.insert(*k);
    }
}

/// The forms in which a caller can hold the key of a stored object. The local index (KMT) works with the first nine
/// bytes of an encoding key, and that is all its enumeration hands out: a caller that learned a key there passes the
/// nine bytes zero-padded to sixteen (the crate's own container tests do); a caller that knows the encoding key
/// passes all sixteen; the third form carries the nine bytes and a different tail.
const KEY_FORMS: [&str; 3] = ["full", "nine-bytes-zero-padded", "nine-bytes-other-tail"];

fn key_in_form(rng: &mut Rng, k: &[u8; 16], form: &str) -> [u8; 16] {
    match form {
        "full" => *k,
        "nine-bytes-zero-padded" => {
            let mut t = [0u8; 16];
            t[..9].copy_from_slice(&k[..9]);
            t
        }
        _ => {
            let mut t = *k;
            let tail = rng.array::<7>();
            t[9..].copy_from_slice(&tail);
            if t == *k {
                t[15] ^= 0x80;
            }
            t
        }
    }
}

fn pick_key_form(rng: &mut Rng) -> &'static str {
    match rng.below(4) {
        0 | 1 => KEY_FORMS[0],
        2 => KEY_FORMS[1],
        _ => KEY_FORMS[2],
    }
}

#[derive(Default)]
struct Stats {
    obs: BTreeMap<String, u64>,
    max: BTreeMap<String, u64>,
}

impl Stats {
    fn add(&mut self, k: &str, n: u64) {
        *self.obs.entry(k.to_string()).or_insert(0) += n;
    }
    fn max(&mut self, k: &str, n: u64) {
        let e = self.max.entry(k.to_string()).or_insert(0);
        if n > *e {
            *e = n;
        }
    }
    fn flush(&self, ctx: &Ctx) {
        for (k, v) in &self.obs {
            ctx.obs(k, *v);
        }
        for (k, v) in &self.max {
            ctx.obs_max(k, *v);
        }
    }
}

fn err_label(e: &StorageError) -> String {
    let dbg = format!("{e:?}");
    let kind = dbg.split(['(', ' ', '{']).next().unwrap_or("Error").to_string();
    let msg = match e {
        StorageError::Archive(m) | StorageError::Index(m) | StorageError::InvalidFormat(m) => m.clone(),
        StorageError::Io(ioe) => ioe.to_string(),
        _ => String::new(),
    };
    let clause: String = msg.split(':').next().unwrap_or("").chars().filter(|c| !c.is_ascii_digit()).collect();
    let clause = clause.trim();
    if clause.is_empty() || matches!(e, StorageError::NotFound(_) | StorageError::TruncatedRead(_)) {
        kind
    } else {
        format!("{kind}({clause})")
    }
}

fn err_is_content_independent(label: &str) -> bool {
    label == "NotFound" || label == "TruncatedRead" || label == "AccessDenied" || label.contains("beyond archive bounds")
}

// ---------------------------------------------------------------------------
// history driver
// ---------------------------------------------------------------------------

struct Hist<'a> {
    ctx: &'a Ctx,
    idx: usize,
    target: &'static str,
    variant: &'static str,
    trace: Vec<String>,
    stats: Stats,
    hash: u64,
    epoch: u32,
    reads_of_non_latest: u64,
    fs_kind: &'static str,
}

impl Hist<'_> {
    fn log(&mut self, s: String) {
        self.hash = mix64(self.hash, fnv64(s.as_bytes()));
        self.trace.push(s);
    }
    fn detail(&self, extra: Value) -> Value {
        let n = self.trace.len();
        let hist = match self.idx {
            PROBE_ID => json!("probe"),
            HUGE_ID => json!("huge"),
            TRUNC_ID => json!("truncated"),
            i => json!(i),
        };
        let rerun = if hist.is_string() { "c04 --replay <this file>".to_string() } else { format!("c04 --tier {} --seed {} --only-history {}", self.ctx.tier_name(), self.ctx.seed as i64, self.idx) };
        json!({
            "history": hist,
            "target": self.target,
            "variant": self.variant,
            "fs": self.fs_kind,
            "op_index": n,
            "trace_tail": self.trace[n.saturating_sub(80)..].to_vec(),
            "at": extra,
            "rerun": rerun,
        })
    }
    fn violation(&mut self, sig: String, summary: &str, extra: Value) {
        self.stats.add("violating_observations", 1);
        let d = self.detail(extra);
        self.ctx.violation(&sig, summary, d);
    }
    fn phase(&self, o: &Obj) -> &'static str {
        if o.epoch == self.epoch { "same-instance" } else { "after-reopen" }
    }
}

fn base_dir_for(idx: usize) -> (Option<PathBuf>, &'static str) {
    // most histories on tmpfs (cheap fsync); every 8th on the default temp dir (disk-backed)
    let shm = Path::new("/dev/shm");
    if idx % 8 != 7 && shm.is_dir() {
        (Some(shm.to_path_buf()), "tmpfs")
    } else {
        (None, "default-tempdir")
    }
}

fn mk_tempdir(idx: usize) -> std::io::Result<(tempfile::TempDir, &'static str)> {
    let (base, kind) = base_dir_for(idx);
    let td = match base {
        Some(b) => tempfile::Builder::new().prefix("vh-c04-").tempdir_in(b)?,
        None => tempfile::Builder::new().prefix("vh-c04-").tempdir()?,
    };
    Ok((td, kind))
}

struct DynBundle {
    c: DynamicContainer,
    _res: Option<Arc<ResidencyContainer>>,
    lru: Option<Arc<RwLock<LruManager>>>,
}

/// Container configuration of one history ("all configurations"): every builder option, the legacy
/// six-argument constructor, and the access mode of the current open.
#[derive(Clone, Copy)]
struct DynCfg {
    legacy_ctor: bool,
    shared_memory: bool,
    segment_limit: u16,
    max_segment_size: u64,
    free_space_reclaim: bool,
    path_hash: [u8; 16],
}

impl DynCfg {
    const DEFAULT: Self = Self { legacy_ctor: false, shared_memory: false, segment_limit: 0x3FF, max_segment_size: 0, free_space_reclaim: false, path_hash: [0; 16] };
    fn random(rng: &mut Rng, variant: usize) -> Self {
        if rng.chance(1, 3) {
            return Self::DEFAULT;
        }
        Self {
            // the six-argument constructor cannot attach residency / LRU
            legacy_ctor: variant == 0 && rng.bool(),
            shared_memory: rng.bool(),
            segment_limit: *rng.pick(&[1u16, 16, 0x3FF, 2000]),
            max_segment_size: *rng.pick(&[0u64, 1 << 20, 1 << 30]),
            free_space_reclaim: rng.bool(),
            path_hash: if rng.bool() { rng.array::<16>() } else { [0; 16] },
        }
    }
    fn label(&self) -> String {
        format!("ctor={} shmem={} seglimit={} segsize={} reclaim={} path_hash={}", if self.legacy_ctor { "new" } else { "builder" }, self.shared_memory, self.segment_limit, self.max_segment_size, self.free_space_reclaim, self.path_hash != [0; 16])
    }
}

fn open_dynamic(rt: &tokio::runtime::Runtime, root: &Path, variant: usize, lru_cap: u32) -> Result<DynBundle, String> {
    open_dynamic_cfg(rt, root, variant, lru_cap, AccessMode::ReadWrite, &DynCfg::DEFAULT)
}

fn open_dynamic_cfg(rt: &tokio::runtime::Runtime, root: &Path, variant: usize, lru_cap: u32, mode: AccessMode, cfg: &DynCfg) -> Result<DynBundle, String> {
    if cfg.legacy_ctor && variant == 0 {
        let seg = if cfg.max_segment_size == 0 { 1 << 30 } else { cfg.max_segment_size };
        let c = DynamicContainer::new(mode, root.join("store"), cfg.shared_memory, cfg.segment_limit, seg, cfg.free_space_reclaim).map_err(|e| format!("DynamicContainer::new: {e}"))?;
        rt.block_on(c.open()).map_err(|e| format!("open: {e}"))?;
        return Ok(DynBundle { c, _res: None, lru: None });
    }
    let mut b = DynamicContainer::builder(root.join("store")).access_mode(mode).shared_memory(cfg.shared_memory).segment_limit(cfg.segment_limit).free_space_reclaim(cfg.free_space_reclaim).path_hash(cfg.path_hash);
    if cfg.max_segment_size != 0 {
        b = b.max_segment_size(cfg.max_segment_size);
    }
    let mut res = None;
    let mut lru = None;
    if variant & 1 != 0 {
        let mut rc = ResidencyContainer::new("wow".to_string(), AccessMode::ReadWrite, root.join("residency"));
        rt.block_on(rc.initialize()).map_err(|e| format!("residency initialize: {e}"))?;
        let rc = Arc::new(rc);
        b = b.residency(rc.clone());
        res = Some(rc);
    }
    if variant & 2 != 0 {
        let _ = std::fs::create_dir_all(root.join("lru"));
        let m = Arc::new(RwLock::new(LruManager::new(lru_cap, root.join("lru"))));
        b = b.lru(m.clone());
        lru = Some(m);
    }
    let c = b.build().map_err(|e| format!("build: {e}"))?;
    rt.block_on(c.open()).map_err(|e| format!("open: {e}"))?;
    Ok(DynBundle { c, _res: res, lru })
}

const DYN_VARIANTS: [&str; 4] = ["plain", "residency", "lru", "residency+lru"];

/// Locate index keys that the model does not know yet (fallback when the
/// derived key is not found): fresh IndexManager over the same directory.
fn locate_unknown_keys_dynamic(rt: &tokio::runtime::Runtime, store: &Path, known: &BTreeSet<[u8; 9]>) -> Vec<[u8; 9]> {
    let mut im = IndexManager::new(store);
    if rt.block_on(im.load_all()).is_err() {
        return Vec::new();
    }
    im.iter_entries().map(|(_, e)| e.key).filter(|k| !known.contains(k)).collect()
}

fn check_read_result(
    h: &mut Hist<'_>,
    api: &str,
    key: &[u8; 16],
    obj: &Obj,
    res: Result<Vec<u8>, StorageError>,
    buf_extra: usize,
) {
    let phase = h.phase(obj);
    let group = content_group(&obj.payload, obj.class);
    match res {
        Ok(got) => {
            if got == obj.payload {
                h.stats.add(&format!("{}.read.ok.{phase}", h.target), 1);
                h.stats.add(&format!("read_ok.group.{group}"), 1);
            } else if got.len() != obj.payload.len() {
                h.violation(
                    format!("C04|{api}|returned-length-differs|{group}|{phase}"),
                    "a read of a successfully written object returned a different number of bytes",
                    json!({"ekey": hex::encode(key), "class": obj.class, "written_len": obj.payload.len(), "returned_len": got.len(), "buf_extra": buf_extra, "written": hex_short(&obj.payload, 48), "returned": hex_short(&got, 48), "write_no": obj.write_no}),
                );
            } else {
                let first = got.iter().zip(&obj.payload).position(|(a, b)| a != b);
                h.violation(
                    format!("C04|{api}|returned-bytes-differ|{group}|{phase}"),
                    "a read of a successfully written object returned other bytes",
                    json!({"ekey": hex::encode(key), "class": obj.class, "len": got.len(), "first_diff": first, "write_no": obj.write_no}),
                );
            }
        }
        Err(e) => {
            let label = err_label(&e);
            h.stats.add(&format!("{}.read.err.{label}", h.target), 1);
            let sig = if err_is_content_independent(&label) {
                format!("C04|{api}|err={label}|{phase}")
            } else {
                format!("C04|{api}|err={label}|{group}|{phase}")
            };
            h.violation(
                sig,
                "a read of a successfully written object failed",
                json!({"ekey": hex::encode(key), "class": obj.class, "len": obj.payload.len(), "error": e.to_string(), "write_no": obj.write_no, "writes_so_far": h.trace.iter().filter(|t| t.starts_with("write")).count()}),
            );
        }
    }
}

fn dyn_read(rt: &tokio::runtime::Runtime, c: &DynamicContainer, key: &[u8; 16], len: usize, extra: usize) -> Result<Vec<u8>, StorageError> {
    let mut buf = vec![0xA5u8; len + extra];
    let n = rt.block_on(c.read(key, 0, len as u32, &mut buf))?;
    buf.truncate(n.min(len + extra));
    Ok(buf)
}

/// Read into a buffer that is NOT larger than the object (exact size, one byte short, half, empty). The call may only
/// hand back leading bytes of the object: `n <= buf.len()` and `buf[..n] == payload[..n]`; with an exact-size buffer
/// the whole object. What a too-small buffer yields beyond that (partial fill, error) is left open by the statement.
fn dyn_short_read(h: &mut Hist<'_>, rt: &tokio::runtime::Runtime, c: &DynamicContainer, key: &[u8; 16], obj: &Obj, kind: &'static str) {
    let len = obj.payload.len();
    let blen = match kind {
        "exact" => len,
        "minus1" => len.saturating_sub(1),
        "half" => len / 2,
        _ => 0,
    };
    let phase = h.phase(obj);
    let group = content_group(&obj.payload, obj.class);
    let mut buf = vec![0xA5u8; blen];
    h.stats.add(&format!("dynamic.short_buffer_read.{kind}"), 1);
    match rt.block_on(c.read(key, 0, blen as u32, &mut buf)) {
        Ok(n) => {
            if n > blen {
                h.violation(format!("C04|DynamicContainer::read|returned-length-exceeds-buffer|buffer={kind}|{phase}"), "read() reports more bytes than the buffer holds", json!({"ekey": hex::encode(key), "n": n, "buffer": blen, "len": len}));
            } else if buf[..n] != obj.payload[..n] {
                let first = buf[..n].iter().zip(&obj.payload).position(|(a, b)| a != b);
                h.violation(format!("C04|DynamicContainer::read|returned-bytes-differ|buffer={kind}|{group}|{phase}"), "read() into a buffer not larger than the object returned bytes that are not the leading bytes of the object", json!({"ekey": hex::encode(key), "len": len, "buffer": blen, "n": n, "first_diff": first, "class": obj.class}));
            } else if kind == "exact" && n != len {
                h.violation(format!("C04|DynamicContainer::read|returned-length-differs|buffer=exact|{group}|{phase}"), "read() into a buffer of exactly the object's size returned fewer bytes", json!({"ekey": hex::encode(key), "len": len, "n": n}));
            } else if n == blen {
                h.stats.add("dynamic.short_buffer_read.ok_prefix", 1);
            } else {
                h.stats.add("dynamic.short_buffer_read.partial_fill", 1);
            }
        }
        Err(e) => {
            let label = err_label(&e);
            if kind == "exact" {
                h.violation(format!("C04|DynamicContainer::read|err={label}|buffer=exact|{phase}"), "a read of a successfully written object into a buffer of exactly its size failed", json!({"ekey": hex::encode(key), "len": len, "error": e.to_string()}));
            } else {
                h.stats.add(&format!("dynamic.short_buffer_read.err.{label}"), 1);
            }
        }
    }
}

fn mode_name(m: AccessMode) -> &'static str {
    match m {
        AccessMode::None => "None",
        AccessMode::ReadOnly => "ReadOnly",
        AccessMode::ReadWrite => "ReadWrite",
        AccessMode::Exclusive => "Exclusive",
    }
}

/// One phase in which the store is opened with another access mode (ReadOnly / None / Exclusive). Objects written
/// earlier stay what they are: wherever the mode admits reads they come back byte-for-byte; a refused mutation
/// (`Err`) must leave every object in place; a mutation that is admitted is judged like any other.
#[allow(clippy::too_many_arguments)]
fn dyn_access_phase(h: &mut Hist<'_>, rt: &tokio::runtime::Runtime, root: &Path, variant: usize, lru_cap: u32, cfg: &DynCfg, mode: AccessMode, m: &mut Model, known9: &mut BTreeSet<[u8; 9]>, rng: &mut Rng) -> Result<(), String> {
    let mn = mode_name(mode);
    h.log(format!("reopen access_mode={mn}"));
    h.stats.add(&format!("dynamic.ops.reopen_access_mode.{mn}"), 1);
    let bundle = open_dynamic_cfg(rt, root, variant, lru_cap, mode, cfg)?;
    h.epoch += 1;
    if bundle.c.access_mode() != mode || bundle.c.is_read_only() != (mode == AccessMode::ReadOnly) {
        h.stats.add("dynamic.accessor_disagrees_with_configuration", 1);
    }
    if mode.can_read() {
        dyn_verify_all(h, rt, &bundle.c, m, rng, mn);
    } else {
        // no read access: a refusal is legitimate, returned data must still be the object
        let keys: Vec<[u8; 16]> = m.live.keys().copied().collect();
        for k in keys {
            let o = &m.live[&k];
            match dyn_read(rt, &bundle.c, &k, o.payload.len(), 16) {
                Ok(got) => {
                    h.stats.add("dynamic.mode_none.read_ok", 1);
                    check_read_result(h, "DynamicContainer::read|mode=None", &k, o, Ok(got), 16);
                }
                Err(e) => h.stats.add(&format!("dynamic.mode_none.read.err.{}", err_label(&e)), 1),
            }
        }
    }
    // a write attempt
    let plen = rng.urange(0, 600);
    let payload = rng.bytes(plen);
    let passed: [u8; 16] = rng.array::<16>();
    h.log(format!("write(mode={mn}) len={}", payload.len()));
    match rt.block_on(bundle.c.write(&passed, &payload)) {
        Ok(()) => {
            h.stats.add(&format!("dynamic.mode_{mn}.write.ok"), 1);
            let ekey = derive_ekey(&payload);
            if matches!(rt.block_on(bundle.c.query(&ekey)), Ok(true)) {
                known9.insert(k9(&ekey));
                m.removed.remove(&ekey);
                m.order.retain(|k| k != &ekey);
                m.order.push(ekey);
                m.live.insert(ekey, Obj { payload, class: "random", epoch: h.epoch, write_no: m.writes });
                m.writes += 1;
                if mode.can_read() {
                    let o = &m.live[&ekey];
                    let r = dyn_read(rt, &bundle.c, &ekey, o.payload.len(), 64);
                    check_read_result(h, "DynamicContainer::read", &ekey, o, r, 64);
                }
            } else {
                h.violation(format!("C04|DynamicContainer::write|ok-but-object-not-indexed|mode={mn}"), "write() returned Ok but the object cannot be found under its encoding key", json!({"derived_ekey": hex::encode(ekey), "len": payload.len(), "mode": mn}));
            }
        }
        Err(e) => h.stats.add(&format!("dynamic.mode_{mn}.write.err.{}", err_label(&e)), 1),
    }
    // a remove attempt on a live key: the model follows what the store shows; a refusal must not destroy the object
    if let Some(k) = m.pick_live(rng, false) {
        h.log(format!("remove(mode={mn}) {}", hex::encode(&k[..4])));
        let res = rt.block_on(bundle.c.remove(&k));
        let still = matches!(rt.block_on(bundle.c.query(&k)), Ok(true));
        match (&res, still) {
            (Err(e), false) => {
                let label = err_label(e);
                h.violation(format!("C04|DynamicContainer::remove|err={label}-but-object-gone|mode={mn}"), "remove() refused the call but the object is no longer found", json!({"ekey": hex::encode(k), "mode": mn}));
            }
            (Err(e), true) => h.stats.add(&format!("dynamic.mode_{mn}.remove.err.{}", err_label(e)), 1),
            (Ok(()), true) => h.stats.add(&format!("dynamic.mode_{mn}.remove.ok_object_kept"), 1),
            (Ok(()), false) => {
                h.stats.add(&format!("dynamic.mode_{mn}.remove.ok_object_removed"), 1);
                m.forget(&k);
            }
        }
    }
    // reserve / remove_span(empty span) in this mode: whatever they answer, the objects stay
    if let Some(k) = m.pick_live(rng, false) {
        let r = rt.block_on(bundle.c.reserve(&k));
        h.stats.add(&format!("dynamic.mode_{mn}.reserve.{}", if r.is_ok() { "ok".to_string() } else { r.as_ref().err().map(err_label).unwrap_or_default() }), 1);
        let r = bundle.c.remove_span(&k, 0, 0);
        h.stats.add(&format!("dynamic.mode_{mn}.remove_span.{}", if r.is_ok() { "ok".to_string() } else { r.as_ref().err().map(err_label).unwrap_or_default() }), 1);
    }
    if mode.can_read() {
        dyn_verify_all(h, rt, &bundle.c, m, rng, mn);
    }
    drop(bundle);
    Ok(())
}

fn dyn_verify_all(h: &mut Hist<'_>, rt: &tokio::runtime::Runtime, c: &DynamicContainer, m: &Model, rng: &mut Rng, why: &str) {
    h.log(format!("verify_all({why})"));
    for (k, o) in &m.live {
        let extra = *rng.pick(&[1usize, 16, 64, 4096]);
        let r = dyn_read(rt, c, k, o.payload.len(), extra);
        h.stats.add("dynamic.ops.read", 1);
        if h.epoch != o.epoch {
            h.stats.add("dynamic.reads_after_reopen", 1);
        }
        check_read_result(h, "DynamicContainer::read", k, o, r, extra);
        match rt.block_on(c.query(k)) {
            Ok(true) => {}
            Ok(false) => {
                let phase = h.phase(o);
                h.violation(format!("C04|DynamicContainer::query|false-for-written-object|{phase}"), "query() is false for a written, not removed object", json!({"ekey": hex::encode(k)}));
            }
            Err(e) => h.violation("C04|DynamicContainer::query|error".to_string(), "query() failed", json!({"error": e.to_string()})),
        }
    }
    for k in &m.removed {
        if m.live.contains_key(k) {
            continue;
        }
        dyn_check_absent(h, rt, c, k, "removed");
    }
}

fn dyn_check_absent(h: &mut Hist<'_>, rt: &tokio::runtime::Runtime, c: &DynamicContainer, k: &[u8; 16], what: &str) {
    match rt.block_on(c.query(k)) {
        Ok(false) => h.stats.add(&format!("dynamic.query_false_for_{what}"), 1),
        Ok(true) => h.violation(format!("C04|DynamicContainer::query|true-for-{what}-key"), "query() is true for a key that is not stored", json!({"ekey": hex::encode(k)})),
        Err(e) => h.violation("C04|DynamicContainer::query|error".to_string(), "query() failed", json!({"error": e.to_string()})),
    }
    let mut buf = vec![0u8; 256];
    match rt.block_on(c.read(k, 0, 0, &mut buf)) {
        Err(StorageError::NotFound(_)) => h.stats.add(&format!("dynamic.read_notfound_for_{what}"), 1),
        Err(e) => h.stats.add(&format!("dynamic.read_other_error_for_{what}.{}", err_label(&e)), 1),
        Ok(n) => h.violation(format!("C04|DynamicContainer::read|ok-for-{what}-key"), "read() returned data for a key that is not stored", json!({"ekey": hex::encode(k), "n": n})),
    }
}

/// One `write` through the container and the bookkeeping of the model: after `Ok` the object must be found under
/// its (independently derived) encoding key. Returns whether the object is stored now.
#[allow(clippy::too_many_arguments)]
fn dyn_write_op(h: &mut Hist<'_>, rt: &tokio::runtime::Runtime, c: &DynamicContainer, store: &Path, m: &mut Model, known9: &mut BTreeSet<[u8; 9]>, payload: Vec<u8>, class: &'static str, how: &str, rng: &mut Rng) -> bool {
    let passed_key: [u8; 16] = rng.array::<16>();
    h.log(format!("write#{} class={class} len={} md5={} ({how})", m.writes, payload.len(), hex::encode(&md5::compute(&payload).0[..4])));
    h.stats.add("dynamic.ops.write", 1);
    h.stats.add(&format!("dynamic.write.content={how}"), 1);
    h.stats.add(&format!("payload_class.{class}"), 1);
    h.stats.max("max_payload_len", payload.len() as u64);
    match rt.block_on(c.write(&passed_key, &payload)) {
        Ok(()) => {
            h.stats.add("bytes_written", payload.len() as u64);
            let mut ekey = derive_ekey(&payload);
            // key derivation check: the derived key must be present now
            match rt.block_on(c.query(&ekey)) {
                Ok(true) => h.stats.add("key_derivation.agrees", 1),
                _ => {
                    let unknown = locate_unknown_keys_dynamic(rt, store, known9);
                    if unknown.len() == 1 {
                        h.stats.add("key_derivation.differs", 1);
                        ekey = [0u8; 16];
                        ekey[..9].copy_from_slice(&unknown[0]);
                    } else {
                        let sig = if how == "new" { "C04|DynamicContainer::write|ok-but-object-not-indexed".to_string() } else { format!("C04|DynamicContainer::write|ok-but-object-not-indexed|content-written-{how}") };
                        h.violation(
                            sig,
                            "write() returned Ok but neither the derived encoding key nor any new index entry exists",
                            json!({"derived_ekey": hex::encode(ekey), "len": payload.len(), "class": class, "new_index_entries": unknown.len(), "content": how}),
                        );
                        return false;
                    }
                }
            }
            known9.insert(k9(&ekey));
            m.removed.remove(&ekey);
            m.order.retain(|k| k != &ekey);
            m.order.push(ekey);
            m.live.insert(ekey, Obj { payload, class, epoch: h.epoch, write_no: m.writes });
            m.writes += 1;
            true
        }
        Err(e) => {
            // a refused write is not a C04 violation (nothing was promised); record it
            h.stats.add(&format!("dynamic.write.err.{}", err_label(&e)), 1);
            false
        }
    }
}

fn run_dynamic(ctx: &Ctx, idx: usize, variant: usize, rng: &mut Rng) -> Result<(), String> {
    let rt = tokio::runtime::Builder::new_current_thread().enable_all().build().map_err(|e| e.to_string())?;
    let (td, fs_kind) = mk_tempdir(idx).map_err(|e| format!("tempdir: {e}"))?;
    let root = td.path().to_path_buf();
    let store = root.join("store");
    let lru_cap = *rng.pick(&[2u32, 4, 1024]);
    let mut h = Hist { ctx, idx, target: "dynamic", variant: DYN_VARIANTS[variant], trace: Vec::new(), stats: Stats::default(), hash: mix64(0xc04, variant as u64), epoch: 0, reads_of_non_latest: 0, fs_kind };
    let cfg = DynCfg::random(rng, variant);
    let rw = |rt: &tokio::runtime::Runtime| open_dynamic_cfg(rt, &root, variant, lru_cap, AccessMode::ReadWrite, &cfg);
    let mut bundle = rw(&rt)?;
    let mut m = Model::default();
    let mut known9: BTreeSet<[u8; 9]> = BTreeSet::new();
    h.stats.add(if cfg.legacy_ctor { "histories.dynamic.ctor.new" } else { "histories.dynamic.ctor.builder" }, 1);
    if cfg.label() != DynCfg::DEFAULT.label() {
        h.stats.add("histories.dynamic.non_default_configuration", 1);
    }
    h.log(format!("cfg {}", cfg.label()));

    let n_ops = rng.urange(5, 60);
    let order = *rng.pick(SIZE_ORDERS);
    let max = match rng.below(10) {
        0 => 300_000,
        1 | 2 => 65_536,
        3..=5 => 4096,
        _ => 1200,
    };
    let mut sizes = SizePlan::new(rng, order, max);
    h.stats.add(&format!("histories.dynamic.{}", DYN_VARIANTS[variant]), 1);
    h.stats.add(&format!("histories.size_order.{order}"), 1);
    h.stats.add(&format!("histories.fs.{fs_kind}"), 1);
    h.log(format!("open variant={} order={order} max={max} lru_cap={lru_cap}", DYN_VARIANTS[variant]));
    let mut reopen_count = 0u64;
    let mut flushes = 0u64;

    for opi in 0..n_ops {
        let r = rng.below(100);
        // first three operations are writes so that every history has material
        let r = if opi < 3 && m.writes < 3 { 0 } else { r };
        if r < 36 {
            // ---- write
            let class: &'static str = if rng.chance(1, 4) { *rng.pick(EXTRA_CLASSES) } else { *rng.pick(genx::PAYLOAD_CLASSES) };
            let n = sizes.next(rng);
            // occasionally re-write an earlier payload (same key, second copy in the archive), or store again the
            // content of an object that was removed earlier in the history
            let (payload, class, how) = if rng.chance(1, 12) && !m.live.is_empty() {
                let k = m.pick_live(rng, false).unwrap_or([0; 16]);
                m.live.get(&k).map(|o| (o.payload.clone(), o.class, "again-while-stored")).unwrap_or_default()
            } else if rng.chance(1, 10) && m.removed_content.keys().any(|k| !m.live.contains_key(k)) {
                let ks: Vec<&[u8; 16]> = m.removed_content.keys().filter(|k| !m.live.contains_key(*k)).collect();
                let k = **rng.pick(&ks);
                let (p, c) = m.removed_content[&k].clone();
                (p, c, "again-after-remove")
            } else {
                (make_payload(rng, class, n), class, "new")
            };
            dyn_write_op(&mut h, &rt, &bundle.c, &store, &mut m, &mut known9, payload, class, how, rng);
        } else if r < 68 {
            // ---- read (prefer a non-latest key)
            let Some(k) = m.pick_live(rng, true) else { continue };
            let o = &m.live[&k];
            let non_latest = m.order.last() != Some(&k);
            let extra = *rng.pick(&[1usize, 7, 64, 1000, 70_000]);
            h.log(format!("read key={} len={} write_no={} non_latest={non_latest}", hex::encode(&k[..4]), o.payload.len(), o.write_no));
            h.stats.add("dynamic.ops.read", 1);
            if non_latest && m.writes >= 2 {
                h.reads_of_non_latest += 1;
                h.stats.add("dynamic.reads_of_non_latest_key", 1);
            }
            if o.epoch != h.epoch {
                h.stats.add("dynamic.reads_after_reopen", 1);
            }
            if rng.chance(1, 4) {
                let kind = *rng.pick(&["exact", "exact", "minus1", "half", "zero"]);
                h.log(format!("  (buffer={kind})"));
                dyn_short_read(&mut h, &rt, &bundle.c, &k, o, kind);
                continue;
            }
            if rng.chance(1, 6) {
                // the key in one of the other forms a caller can hold it in: whatever such a read hands back must be
                // the object (no other stored object has these nine bytes); whether it finds it is left open
                let form = KEY_FORMS[1 + rng.usize_below(2)];
                let passed = key_in_form(rng, &k, form);
                h.log(format!("  (key={form})"));
                h.stats.add(&format!("dynamic.ops.read.key={form}"), 1);
                match dyn_read(&rt, &bundle.c, &passed, o.payload.len(), extra) {
                    Ok(got) => {
                        h.stats.add(&format!("dynamic.read.key={form}.ok"), 1);
                        check_read_result(&mut h, &format!("DynamicContainer::read|key={form}"), &k, o, Ok(got), extra);
                    }
                    Err(e) => h.stats.add(&format!("dynamic.read.key={form}.err.{}", err_label(&e)), 1),
                }
                continue;
            }
            let res = dyn_read(&rt, &bundle.c, &k, o.payload.len(), extra);
            let o = m.live.get(&k).ok_or("model lost key")?;
            check_read_result(&mut h, "DynamicContainer::read", &k, o, res, extra);
        } else if r < 76 {
            // ---- query
            h.stats.add("dynamic.ops.query", 1);
            if rng.bool() && !m.live.is_empty() {
                let k = m.pick_live(rng, false).unwrap_or([0; 16]);
                h.log(format!("query live {}", hex::encode(&k[..4])));
                if rng.chance(1, 4) {
                    // recorded only: the statement does not say what a query through another key form answers
                    let form = KEY_FORMS[1 + rng.usize_below(2)];
                    let passed = key_in_form(rng, &k, form);
                    let ans = rt.block_on(bundle.c.query(&passed)).map_or("err".to_string(), |b| b.to_string());
                    h.stats.add(&format!("dynamic.query.key={form}.{ans}"), 1);
                }
                match rt.block_on(bundle.c.query(&k)) {
                    Ok(true) => h.stats.add("dynamic.query_true_for_live", 1),
                    Ok(false) => {
                        let phase = h.phase(&m.live[&k]);
                        h.violation(format!("C04|DynamicContainer::query|false-for-written-object|{phase}"), "query() is false for a written, not removed object", json!({"ekey": hex::encode(k)}));
                    }
                    Err(e) => h.violation("C04|DynamicContainer::query|error".to_string(), "query() failed", json!({"error": e.to_string()})),
                }
            } else {
                let k: [u8; 16] = rng.array::<16>();
                if !known9.contains(&k9(&k)) {
                    h.log("query never-written".to_string());
                    dyn_check_absent(&mut h, &rt, &bundle.c, &k, "never-written");
                }
            }
        } else if r < 84 {
            // ---- remove: any stored object, half of the time the one written last (the tail of its archive); the key
            // in any of the forms a caller can hold it in
            let k = if rng.bool() { m.latest_live() } else { None }.or_else(|| m.pick_live(rng, false));
            let Some(k) = k else { continue };
            let was_latest = m.latest_live() == Some(k);
            let form = pick_key_form(rng);
            let passed = key_in_form(rng, &k, form);
            h.log(format!("remove {} key={form} latest_written={was_latest}", hex::encode(&k[..4])));
            h.stats.add("dynamic.ops.remove", 1);
            h.stats.add(&format!("dynamic.ops.remove.key={form}"), 1);
            if was_latest {
                h.stats.add("dynamic.ops.remove.of_latest_written", 1);
            }
            let mut gone = false;
            match rt.block_on(bundle.c.remove(&passed)) {
                Ok(()) => {
                    // through the full key the object is removed. Whether one of the other key forms designates the
                    // object for removal is not what the property decides: the model follows what the store shows
                    // under the full key, and everything afterwards is judged against that
                    gone = form == "full" || matches!(rt.block_on(bundle.c.query(&k)), Ok(false));
                    h.stats.add(&format!("dynamic.remove.key={form}.{}", if gone { "object_removed" } else { "object_kept" }), 1);
                    if gone {
                        m.forget(&k);
                        dyn_check_absent(&mut h, &rt, &bundle.c, &k, "removed");
                    }
                }
                Err(e) => h.stats.add(&format!("dynamic.remove.err.{}", err_label(&e)), 1),
            }
            // short-lived objects: written, consumed, removed - and written again right away (half of the removals);
            // from that write on the object has to stay readable like any other
            if gone && rng.bool() {
                if let Some((payload, class)) = m.removed_content.get(&k).cloned() {
                    h.stats.add("dynamic.ops.remove_then_write_again", 1);
                    if was_latest {
                        h.stats.add("dynamic.ops.remove_then_write_again.of_latest_written", 1);
                    }
                    if dyn_write_op(&mut h, &rt, &bundle.c, &store, &mut m, &mut known9, payload, class, "again-right-after-remove", rng) {
                        if let Some(o) = m.live.get(&k) {
                            let res = dyn_read(&rt, &bundle.c, &k, o.payload.len(), 16);
                            h.stats.add("dynamic.ops.read", 1);
                            check_read_result(&mut h, "DynamicContainer::read", &k, o, res, 16);
                        }
                    }
                }
            }
        } else if r < 88 {
            let b = rng.below(16) as u8;
            h.log(format!("flush_bucket {b}"));
            h.stats.add("dynamic.ops.flush_bucket", 1);
            flushes += 1;
            if let Err(e) = bundle.c.flush_bucket(b) {
                h.stats.add(&format!("dynamic.flush_bucket.err.{}", err_label(&e)), 1);
            }
        } else if r < 91 {
            h.log("flush_all_updates".to_string());
            h.stats.add("dynamic.ops.flush_all_updates", 1);
            flushes += 1;
            if let Err(e) = bundle.c.flush_all_updates() {
                h.stats.add(&format!("dynamic.flush_all.err.{}", err_label(&e)), 1);
            }
        } else if r < 96 {
            // ---- drop + reopen on the same directory
            h.log("reopen".to_string());
            h.stats.add("dynamic.ops.reopen", 1);
            reopen_count += 1;
            let lru_len = bundle.lru.as_ref().map_or(0, |l| l.read().len());
            h.stats.max("lru.max_len_seen", lru_len as u64);
            drop(bundle);
            if rng.chance(2, 5) {
                // ---- a phase under another access mode, then back to read-write
                let mode = *rng.pick(&[AccessMode::ReadOnly, AccessMode::ReadOnly, AccessMode::None, AccessMode::Exclusive]);
                dyn_access_phase(&mut h, &rt, &root, variant, lru_cap, &cfg, mode, &mut m, &mut known9, rng)?;
                reopen_count += 1;
            }
            bundle = rw(&rt)?;
            h.epoch += 1;
            dyn_verify_all(&mut h, &rt, &bundle.c, &m, rng, "after-reopen");
        } else if r < 97 {
            // ---- reserve: prepares the container for a key; nothing that is stored may change
            let live = rng.bool();
            let k = if live { m.pick_live(rng, false).unwrap_or([0; 16]) } else { rng.array::<16>() };
            h.log(format!("reserve {} live={live}", hex::encode(&k[..4])));
            h.stats.add("dynamic.ops.reserve", 1);
            match rt.block_on(bundle.c.reserve(&k)) {
                Ok(()) => h.stats.add("dynamic.reserve.ok", 1),
                Err(e) => h.stats.add(&format!("dynamic.reserve.err.{}", err_label(&e)), 1),
            }
            if let Some(o) = m.live.get(&k) {
                let res = dyn_read(&rt, &bundle.c, &k, o.payload.len(), 16);
                h.stats.add("dynamic.ops.read", 1);
                check_read_result(&mut h, "DynamicContainer::read", &k, o, res, 16);
            } else if !known9.contains(&k9(&k)) {
                match rt.block_on(bundle.c.query(&k)) {
                    Ok(b) => h.stats.add(&format!("dynamic.query_after_reserve_of_unwritten_key.{b}"), 1),
                    Err(_) => h.stats.add("dynamic.query_after_reserve_of_unwritten_key.err", 1),
                }
            }
        } else if r < 98 {
            // ---- remove_span: an empty span of a live object (the object must stay what it is), or any span of a
            // key that is not stored (documented to succeed silently); the other objects are checked at the next verify
            h.stats.add("dynamic.ops.remove_span", 1);
            let live_key = if rng.bool() { m.pick_live(rng, false) } else { None };
            if let Some(k) = live_key {
                let off = rng.below(m.live[&k].payload.len() as u64 + 1);
                h.log(format!("remove_span live {} off={off} len=0", hex::encode(&k[..4])));
                match bundle.c.remove_span(&k, off, 0) {
                    Ok(()) => h.stats.add("dynamic.remove_span.empty_span_of_live.ok", 1),
                    Err(e) => h.stats.add(&format!("dynamic.remove_span.empty_span_of_live.err.{}", err_label(&e)), 1),
                }
                let o = &m.live[&k];
                let res = dyn_read(&rt, &bundle.c, &k, o.payload.len(), 7);
                h.stats.add("dynamic.ops.read", 1);
                check_read_result(&mut h, "DynamicContainer::read", &k, o, res, 7);
            } else {
                let k = m.removed.iter().find(|k| !m.live.contains_key(*k)).copied().unwrap_or_else(|| rng.array::<16>());
                if !m.live.contains_key(&k) && (m.removed.contains(&k) || !known9.contains(&k9(&k))) {
                    h.log(format!("remove_span absent {}", hex::encode(&k[..4])));
                    match bundle.c.remove_span(&k, rng.below(1 << 20), rng.below(1 << 20)) {
                        Ok(()) => h.stats.add("dynamic.remove_span.absent_key.ok", 1),
                        Err(e) => h.stats.add(&format!("dynamic.remove_span.absent_key.err.{}", err_label(&e)), 1),
                    }
                    dyn_check_absent(&mut h, &rt, &bundle.c, &k, if m.removed.contains(&k) { "removed" } else { "never-written" });
                }
            }
        } else {
            // ---- removed key probe
            let ks: Vec<[u8; 16]> = m.removed.iter().copied().filter(|k| !m.live.contains_key(k)).collect();
            if let Some(k) = ks.first() {
                h.log(format!("probe removed {}", hex::encode(&k[..4])));
                dyn_check_absent(&mut h, &rt, &bundle.c, k, "removed");
            }
        }
    }
    // final: everything written and not removed must read back, in this instance and after a reopen
    dyn_verify_all(&mut h, &rt, &bundle.c, &m, rng, "final-same-instance");
    drop(bundle);
    // the final reopen: read-write, or read-only (a store opened only for reading serves the same bytes)
    let final_mode = if rng.chance(1, 3) { AccessMode::ReadOnly } else { AccessMode::ReadWrite };
    let bundle = open_dynamic_cfg(&rt, &root, variant, lru_cap, final_mode, &cfg)?;
    h.epoch += 1;
    reopen_count += 1;
    h.stats.add("dynamic.ops.reopen", 1);
    h.stats.add(&format!("dynamic.final_reopen.mode={}", mode_name(final_mode)), 1);
    dyn_verify_all(&mut h, &rt, &bundle.c, &m, rng, "final-after-reopen");
    let entry_count = bundle.c.entry_count();
    if entry_count != m.live.len() {
        // enumeration is C05's subject; recorded here
        h.stats.add("dynamic.entry_count_differs_from_model", 1);
    }
    drop(bundle);

    finish_history(&mut h, &m, reopen_count, flushes);
    Ok(())
}

fn finish_history(h: &mut Hist<'_>, m: &Model, reopens: u64, flushes: u64) {
    let ctx = h.ctx;
    if reopens > 0 {
        h.stats.add("histories.with_reopen", 1);
    }
    if flushes > 0 {
        h.stats.add("histories.with_flush", 1);
    }
    h.stats.max("max_objects_in_one_history", m.writes as u64);
    h.stats.max("max_ops_in_one_history", h.trace.len() as u64);
    let nontrivial = m.writes >= 2 && h.reads_of_non_latest >= 1;
    if nontrivial {
        ctx.eval_nontrivial(h.hash);
    } else {
        ctx.eval();
    }
    if ctx.want_sample() && nontrivial {
        let n = h.trace.len();
        ctx.sample(json!({"history": h.idx, "target": h.target, "variant": h.variant, "ops": n, "writes": m.writes, "first_ops": h.trace[..n.min(14)].to_vec()}));
    }
    h.stats.flush(ctx);
}

fn inst_data_dir(root: &Path) -> PathBuf {
    root.join("inst").join(cascette_client_storage::DATA_DIR)
}

fn count_idx_files(dir: &Path) -> usize {
    std::fs::read_dir(dir).map(|rd| rd.flatten().filter(|e| e.path().extension().is_some_and(|x| x == "idx")).count()).unwrap_or(0)
}

fn inst_verify_all(h: &mut Hist<'_>, rt: &tokio::runtime::Runtime, inst: &Installation, m: &Model, idx_files_at_reopen: Option<usize>, why: &str) {
    h.log(format!("verify_all({why})"));
    for (k, o) in &m.live {
        let ek = EncodingKey::from_bytes(*k);
        let phase = h.phase(o);
        h.stats.add("installation.ops.read_file_by_encoding_key", 1);
        if o.epoch != h.epoch {
            h.stats.add("installation.reads_after_reopen", 1);
        }
        let has = rt.block_on(inst.has_encoding_key(&ek));
        let res = rt.block_on(inst.read_file_by_encoding_key(&ek));
        // objects written before a reopen and not found afterwards while no index file
        // was ever written: one canonical signature for the missing persistence
        if phase == "after-reopen" && idx_files_at_reopen == Some(0) && !has && matches!(res, Err(StorageError::NotFound(_))) {
            h.stats.add("installation.read.err.NotFound", 1);
            h.violation(
                "C04|Installation|reopen|index-not-persisted".to_string(),
                "objects written through Installation::write_file are not found after drop + Installation::open + initialize: no .idx file was ever written",
                json!({"ekey": hex::encode(k), "len": o.payload.len(), "idx_files_on_disk_at_reopen": 0}),
            );
            continue;
        }
        if !has {
            h.violation(format!("C04|Installation::has_encoding_key|false-for-written-object|{phase}"), "has_encoding_key() is false for a written object", json!({"ekey": hex::encode(k)}));
        }
        check_read_result(h, "Installation::read_file_by_encoding_key", k, o, res, 0);
    }
}

// ---------------------------------------------------------------------------
// Installation: the other read entry points (by key bytes / content key / path / FileDataID, batch variants,
// by archive location) — whatever they hand back for a written object must be exactly that object
// ---------------------------------------------------------------------------

/// A name (FileDataID + path) that a loaded root manifest maps to `key`, which is the content key or the
/// encoding-key bytes of the object `obj` (its encoding key in the model).
struct Name {
    fdid: u32,
    path: String,
    key_kind: &'static str,
    /// the 16 bytes the manifest maps the name to
    key: [u8; 16],
}

/// Content keys (MD5 of the payload) of the written objects, by encoding key.
type CKeys = BTreeMap<[u8; 16], [u8; 16]>;

/// The written objects a 16-byte key can stand for: the object whose content key it is, and the object whose
/// encoding key it is (the local index is keyed by the first nine bytes of encoding keys, and the content-key entry
/// points look the key up there). These can be two different objects — the content key of `BLTE(x)` stored as a
/// payload IS the encoding key of `x` stored plainly — and the statement does not say which one a content-key read
/// has to prefer, so either is accepted; anything else is "other bytes".
fn candidates<'m>(m: &'m Model, ckeys: &CKeys, key: &[u8; 16]) -> Vec<&'m Obj> {
    m.live.iter().filter(|(ek, _)| k9(ek) == k9(key) || ckeys.get(*ek) == Some(key)).map(|(_, o)| o).collect()
}

/// Judge the result of an alternative read entry point. `exp` = the written object the key/name stands for.
/// Ok ⇒ exactly that object's bytes (and there must be such an object); Err ⇒ recorded (the statement promises
/// reads by encoding key only; these entry points are documented as "may not find files").
fn judge_alt_read(h: &mut Hist<'_>, api: &str, key_kind: &str, key: &[u8], cands: &[&Obj], res: &Result<Vec<u8>, StorageError>) -> bool {
    match res {
        Ok(got) if cands.is_empty() => {
            h.violation(format!("C04|Installation::{api}|ok-for-never-written-key|key={key_kind}"), "a read returned data for a key / name that stands for no written object", json!({"key": hex::encode(key), "returned_len": got.len(), "returned": hex_short(got, 48)}));
            true
        }
        Ok(got) => {
            if let Some(i) = cands.iter().position(|o| o.payload == *got) {
                h.stats.add(&format!("installation.{api}.ok.key={key_kind}"), 1);
                h.stats.add("installation.alt_read.ok_exact_bytes", 1);
                if cands.len() > 1 {
                    h.stats.add(&format!("installation.alt_read.key_stands_for_two_objects.returned_{}", if i == 0 { "first" } else { "other" }), 1);
                }
            } else {
                let o = cands[0];
                let phase = h.phase(o);
                let group = content_group(&o.payload, o.class);
                let rel = if got.len() != o.payload.len() { "returned-length-differs" } else { "returned-bytes-differ" };
                h.violation(
                    format!("C04|Installation::{api}|{rel}|key={key_kind}|{group}|{phase}"),
                    "an alternative read entry point returned other bytes than the written object",
                    json!({"key": hex::encode(key), "key_kind": key_kind, "class": o.class, "written_len": o.payload.len(), "returned_len": got.len(), "written": hex_short(&o.payload, 48), "returned": hex_short(got, 48), "candidate_objects": cands.len()}),
                );
            }
            true
        }
        Err(e) => {
            h.stats.add(&format!("installation.{api}.err.{}.key={key_kind}", err_label(e)), 1);
            false
        }
    }
}

/// (key bytes, kind) for a probe through the content-key entry points.
fn pick_alt_key(m: &Model, ckeys: &CKeys, known9: &BTreeSet<[u8; 9]>, rng: &mut Rng) -> ([u8; 16], &'static str) {
    match (rng.below(10), m.pick_live(rng, false)) {
        (0..=3, Some(k)) => (k, "ekey-bytes"),
        (4..=6, Some(k)) if ckeys.contains_key(&k) => (ckeys[&k], "content-key"),
        _ => loop {
            let k = rng.array::<16>();
            if !known9.contains(&k9(&k)) {
                return (k, "never-written");
            }
        },
    }
}

fn inst_alt_key_reads(h: &mut Hist<'_>, rt: &tokio::runtime::Runtime, inst: &Arc<Installation>, m: &Model, ckeys: &CKeys, known9: &BTreeSet<[u8; 9]>, rng: &mut Rng) {
    h.stats.add("installation.ops.alt_key_reads", 1);
    // single reads: each entry point twice (the second call is served from the installation's cache after a success)
    let (k, kind) = pick_alt_key(m, ckeys, known9, rng);
    let cands = candidates(m, ckeys, &k);
    h.log(format!("alt reads key={} kind={kind}", hex::encode(&k[..4])));
    let ck = ContentKey::from_bytes(k);
    let mut prev_ok = false;
    for round in 0..2 {
        let r = rt.block_on(inst.read_file_by_content_key(&ck));
        let ok = judge_alt_read(h, "read_file_by_content_key", kind, &k, &cands, &r);
        if round == 1 && prev_ok && !ok {
            h.violation(format!("C04|Installation::read_file_by_content_key|repeat-read-fails-after-success|key={kind}"), "the same read succeeded and then failed", json!({"key": hex::encode(k)}));
        }
        prev_ok = ok;
    }
    let r = rt.block_on(inst.read_file(&k));
    judge_alt_read(h, "read_file", kind, &k, &cands, &r);
    let has = rt.block_on(inst.has_content_key(&ck));
    h.stats.add(&format!("installation.has_content_key.{has}.key={kind}"), 1);
    if has && cands.is_empty() {
        h.violation("C04|Installation::has_content_key|true-for-never-written-key".to_string(), "has_content_key() is true for a key that stands for no written object", json!({"key": hex::encode(k)}));
    }
    // malformed key lengths are not keys of anything
    if rng.chance(1, 4) {
        let n = *rng.pick(&[0usize, 9, 15, 17, 32]);
        let bad = rng.bytes(n);
        let r = rt.block_on(inst.read_file(&bad));
        h.stats.add(&format!("installation.read_file.malformed_key_len.{}", if r.is_ok() { "ok" } else { "err" }), 1);
        if let Ok(got) = r {
            h.violation("C04|Installation::read_file|ok-for-malformed-key".to_string(), "read_file() returned data for a key that is not 16 bytes long", json!({"key_len": n, "returned_len": got.len()}));
        }
    }
    // batch variant: element-wise the single reads
    let n = rng.urange(1, 6);
    let keys: Vec<[u8; 16]> = (0..n).map(|_| pick_alt_key(m, ckeys, known9, rng).0).collect();
    let cks: Vec<ContentKey> = keys.iter().map(|k| ContentKey::from_bytes(*k)).collect();
    let singles: Vec<bool> = cks.iter().map(|k| rt.block_on(inst.read_file_by_content_key(k)).is_ok()).collect();
    let batch = rt.block_on(Arc::clone(inst).read_files_by_content_keys(&cks));
    judge_batch(h, "read_files_by_content_keys", m, ckeys, &keys, &singles, batch);
}

/// A batch read is the element-wise single read: Ok ⇒ one result per request, each exactly the object the request
/// stands for; Err ⇒ at least one of the single reads fails as well.
fn judge_batch(h: &mut Hist<'_>, api: &str, m: &Model, ckeys: &CKeys, keys: &[[u8; 16]], singles: &[bool], batch: Result<Vec<Vec<u8>>, StorageError>) {
    h.stats.add(&format!("installation.ops.{api}"), 1);
    match batch {
        Ok(v) => {
            h.stats.add(&format!("installation.{api}.ok"), 1);
            if v.len() != keys.len() {
                h.violation(format!("C04|Installation::{api}|result-count-differs-from-request-count"), "a batch read returned another number of results than requested", json!({"requested": keys.len(), "returned": v.len()}));
                return;
            }
            for (i, got) in v.into_iter().enumerate() {
                let cands = candidates(m, ckeys, &keys[i]);
                judge_alt_read(h, api, "batch-element", &keys[i], &cands, &Ok(got));
            }
            if singles.iter().any(|ok| !ok) {
                h.violation(format!("C04|Installation::{api}|ok-although-a-single-read-fails"), "a batch read succeeded although the single read of one element fails", json!({"singles_ok": singles}));
            }
        }
        Err(e) => {
            h.stats.add(&format!("installation.{api}.err.{}", err_label(&e)), 1);
            if singles.iter().all(|ok| *ok) {
                h.violation(format!("C04|Installation::{api}|err-although-every-single-read-succeeds"), "a batch read failed although every element can be read on its own", json!({"error": e.to_string(), "elements": singles.len()}));
            }
        }
    }
}

/// Build and load a root manifest + encoding table naming some of the live objects, twice each: once by their real
/// content key (the documented chain FDID/path -> CKey -> EKey -> index) and once by their encoding-key bytes
/// (what the local index is keyed by, i.e. what `read_file_by_content_key` actually looks up).
fn inst_load_manifests(h: &mut Hist<'_>, inst: &Installation, m: &Model, ckeys: &CKeys, names: &mut Vec<Name>, name_seq: &mut u32, rng: &mut Rng) {
    h.stats.add("installation.ops.load_manifests", 1);
    let mut picked: Vec<[u8; 16]> = Vec::new();
    for _ in 0..rng.urange(1, 8) {
        if let Some(k) = m.pick_live(rng, false) {
            if !picked.contains(&k) {
                picked.push(k);
            }
        }
    }
    if picked.is_empty() {
        return;
    }
    let mut rb = RootBuilder::new(RootVersion::V2);
    let mut eb = EncodingBuilder::new();
    let mut fresh: Vec<Name> = Vec::new();
    let mut seen_ck: BTreeSet<[u8; 16]> = BTreeSet::new();
    for k in &picked {
        let o = &m.live[k];
        let ckey = ckeys.get(k).copied().unwrap_or_else(|| md5::compute(&o.payload).0);
        for (kind, key) in [("content-key", ckey), ("ekey-bytes", *k)] {
            *name_seq += 1;
            let fdid = 1000 + *name_seq * 3;
            let path = format!("c04/{kind}/obj_{}.bin", *name_seq);
            rb.add_file(FileDataId::new(fdid), ContentKey::from_bytes(key), Some(&path), LocaleFlags::new(LocaleFlags::ENUS), ContentFlags::new(ContentFlags::NONE));
            if seen_ck.insert(key) {
                eb.add_ckey_entry(CKeyEntryData { content_key: ContentKey::from_bytes(key), file_size: o.payload.len() as u64, encoding_keys: vec![EncodingKey::from_bytes(*k)] });
            }
            fresh.push(Name { fdid, path, key_kind: kind, key });
        }
        eb.add_ekey_entry(EKeyEntryData { encoding_key: EncodingKey::from_bytes(*k), espec: "n".into(), file_size: o.payload.len() as u64 + 9 });
    }
    h.log(format!("load_root_file + load_encoding_file ({} names)", fresh.len()));
    match rb.build() {
        Ok(bytes) => match inst.load_root_file(&bytes) {
            Ok(()) => {
                h.stats.add("installation.load_root_file.ok", 1);
                names.extend(fresh);
            }
            Err(_) => h.stats.add("installation.load_root_file.err", 1),
        },
        Err(_) => h.stats.add("installation.root_builder_refused", 1),
    }
    match eb.build().and_then(|f| f.build()) {
        Ok(bytes) => match inst.load_encoding_file(&bytes) {
            Ok(()) => h.stats.add("installation.load_encoding_file.ok", 1),
            Err(_) => h.stats.add("installation.load_encoding_file.err", 1),
        },
        Err(_) => h.stats.add("installation.encoding_builder_refused", 1),
    }
}

fn inst_name_reads(h: &mut Hist<'_>, rt: &tokio::runtime::Runtime, inst: &Arc<Installation>, m: &Model, ckeys: &CKeys, names: &[Name], rng: &mut Rng) {
    h.stats.add("installation.ops.name_reads", 1);
    // names that no manifest maps stand for nothing
    let unmapped_fdid = 8 + 3 * rng.below(1000) as u32; // mapped ids are 1000 + 3k, i.e. 1 (mod 3); these are 2 (mod 3)
    let r = rt.block_on(inst.read_file_by_fdid(unmapped_fdid));
    judge_alt_read(h, "read_file_by_fdid", "unmapped-name", &[], &[], &r);
    let r = rt.block_on(inst.read_file_by_path(&format!("c04/never/mapped_{}.bin", rng.below(1000))));
    judge_alt_read(h, "read_file_by_path", "unmapped-name", &[], &[], &r);
    if names.is_empty() {
        return;
    }
    let nm = &names[rng.usize_below(names.len())];
    let cands = candidates(m, ckeys, &nm.key);
    h.log(format!("name reads fdid={} kind={}", nm.fdid, nm.key_kind));
    for _ in 0..2 {
        let r = rt.block_on(inst.read_file_by_fdid(nm.fdid));
        judge_alt_read(h, "read_file_by_fdid", nm.key_kind, &nm.key, &cands, &r);
        let r = rt.block_on(inst.read_file_by_path(&nm.path));
        judge_alt_read(h, "read_file_by_path", nm.key_kind, &nm.key, &cands, &r);
    }
    match inst.get_file_info(&nm.path) {
        Ok(Some(_)) => h.stats.add("installation.get_file_info.some", 1),
        Ok(None) => h.stats.add("installation.get_file_info.none", 1),
        Err(_) => h.stats.add("installation.get_file_info.err", 1),
    }
    // batch variants
    let n = rng.urange(1, 5);
    let sel: Vec<&Name> = (0..n).map(|_| &names[rng.usize_below(names.len())]).collect();
    let keys: Vec<[u8; 16]> = sel.iter().map(|n| n.key).collect();
    let fdids: Vec<u32> = sel.iter().map(|n| n.fdid).collect();
    let singles: Vec<bool> = fdids.iter().map(|f| rt.block_on(inst.read_file_by_fdid(*f)).is_ok()).collect();
    let batch = rt.block_on(Arc::clone(inst).read_files_by_fdids(&fdids));
    judge_batch(h, "read_files_by_fdids", m, ckeys, &keys, &singles, batch);
    let paths: Vec<String> = sel.iter().map(|n| n.path.clone()).collect();
    let singles: Vec<bool> = paths.iter().map(|p| rt.block_on(inst.read_file_by_path(p)).is_ok()).collect();
    let batch = rt.block_on(Arc::clone(inst).read_files_by_paths(&paths));
    judge_batch(h, "read_files_by_paths", m, ckeys, &keys, &singles, batch);
}

/// Read by archive location: every written object is enumerated by `get_all_index_entries` with a location, and
/// `read_from_archive(location)` is the object. `verify()` must not report anything invalid or missing.
fn inst_location_reads(h: &mut Hist<'_>, rt: &tokio::runtime::Runtime, inst: &Installation, m: &Model, rng: &mut Rng) {
    h.stats.add("installation.ops.location_reads", 1);
    let entries = rt.block_on(inst.get_all_index_entries());
    h.log(format!("get_all_index_entries -> {} + read_from_archive", entries.len()));
    let keys: Vec<[u8; 16]> = m.live.keys().copied().collect();
    for k in keys.iter().take(12) {
        let o = &m.live[k];
        let phase = h.phase(o);
        let Some(e) = entries.iter().find(|e| e.key == k9(k)) else {
            h.violation(format!("C04|Installation::get_all_index_entries|written-object-not-enumerated|{phase}"), "a written object is not among the enumerated index entries", json!({"ekey": hex::encode(k), "entries": entries.len()}));
            continue;
        };
        let res = rt.block_on(inst.read_from_archive(e.archive_id(), e.archive_offset(), e.size));
        h.stats.add("installation.read_from_archive", 1);
        check_read_result(h, "Installation::read_from_archive", k, o, res, 0);
    }
    if rng.chance(1, 3) {
        match rt.block_on(inst.verify()) {
            Ok(v) => {
                h.stats.add("installation.verify.ok", 1);
                if v.invalid != 0 || v.missing != 0 {
                    h.violation("C04|Installation::verify|reports-invalid-or-missing-on-intact-store".to_string(), "verify() reports invalid or missing objects although every written object reads back", json!({"total": v.total, "valid": v.valid, "invalid": v.invalid, "missing": v.missing}));
                }
            }
            Err(e) => h.stats.add(&format!("installation.verify.err.{}", err_label(&e)), 1),
        }
        let st = rt.block_on(inst.stats());
        h.stats.max("installation.stats.max_archive_size", st.archive_size);
    }
}

fn run_installation(ctx: &Ctx, idx: usize, rng: &mut Rng) -> Result<(), String> {
    let rt = tokio::runtime::Builder::new_current_thread().enable_all().build().map_err(|e| e.to_string())?;
    let (td, fs_kind) = mk_tempdir(idx).map_err(|e| format!("tempdir: {e}"))?;
    let root = td.path().to_path_buf();
    let mut h = Hist { ctx, idx, target: "installation", variant: "installation", trace: Vec::new(), stats: Stats::default(), hash: 0x1c04, epoch: 0, reads_of_non_latest: 0, fs_kind };
    let open = |rt: &tokio::runtime::Runtime| -> Result<Arc<Installation>, String> {
        let inst = Installation::open(root.join("inst")).map_err(|e| format!("Installation::open: {e}"))?;
        rt.block_on(inst.initialize()).map_err(|e| format!("Installation::initialize: {e}"))?;
        Ok(Arc::new(inst))
    };
    let mut inst = open(&rt)?;
    let mut m = Model::default();
    let mut known9: BTreeSet<[u8; 9]> = BTreeSet::new();
    // names mapped by the manifests loaded into the current instance (a new instance starts with none)
    let mut names: Vec<Name> = Vec::new();
    let mut name_seq = 0u32;
    let mut ckeys: CKeys = BTreeMap::new();
    let n_ops = rng.urange(5, 60);
    let order = *rng.pick(SIZE_ORDERS);
    let max = match rng.below(10) {
        0 => 300_000,
        1 | 2 => 65_536,
        3..=5 => 4096,
        _ => 1200,
    };
    let mut sizes = SizePlan::new(rng, order, max);
    h.stats.add("histories.installation", 1);
    h.stats.add(&format!("histories.size_order.{order}"), 1);
    h.stats.add(&format!("histories.fs.{fs_kind}"), 1);
    h.log(format!("open installation order={order} max={max}"));
    let mut reopens = 0u64;

    for opi in 0..n_ops {
        let r = rng.below(100);
        let r = if opi < 3 && m.writes < 3 { 0 } else { r };
        if r < 40 {
            let class: &'static str = if rng.chance(1, 4) { *rng.pick(EXTRA_CLASSES) } else { *rng.pick(genx::PAYLOAD_CLASSES) };
            let n = sizes.next(rng);
            let payload = make_payload(rng, class, n);
            let compress = rng.bool();
            h.log(format!("write_file#{} class={class} len={} compress={compress} md5={}", m.writes, payload.len(), hex::encode(&md5::compute(&payload).0[..4])));
            h.stats.add("installation.ops.write_file", 1);
            h.stats.add(&format!("installation.write_file.compress={compress}"), 1);
            h.stats.add(&format!("payload_class.{class}"), 1);
            h.stats.max("max_payload_len", payload.len() as u64);
            // probe - store - read: a launcher asks for an object before it downloads and stores it; a miss must not
            // outlive the write that makes the object exist
            let probed = rng.chance(1, 3);
            if probed {
                let pk = derive_ekey(&payload);
                if !known9.contains(&k9(&pk)) {
                    h.log(format!("probe-before-write key={}", hex::encode(&pk[..4])));
                    h.stats.add("installation.ops.probe_before_write", 1);
                    if rt.block_on(inst.read_file_by_encoding_key(&EncodingKey::from_bytes(pk))).is_ok() {
                        h.violation("C04|Installation::read_file_by_encoding_key|ok-for-never-written-key".to_string(), "read returned data for a key that was never written", json!({"ekey": hex::encode(pk)}));
                    }
                    let _ = rt.block_on(inst.has_encoding_key(&EncodingKey::from_bytes(pk)));
                }
            }
            match rt.block_on(inst.write_file(payload.clone(), compress)) {
                Ok(ckey) => {
                    h.stats.add("bytes_written", payload.len() as u64);
                    if ckey.as_bytes() != &md5::compute(&payload).0 {
                        h.stats.add("installation.content_key_is_not_md5_of_payload", 1);
                    }
                    let mut ekey = derive_ekey(&payload);
                    if rt.block_on(inst.has_encoding_key(&EncodingKey::from_bytes(ekey))) {
                        h.stats.add("key_derivation.agrees", 1);
                    } else {
                        let unknown: Vec<[u8; 9]> = rt.block_on(inst.get_all_index_entries()).into_iter().map(|e| e.key).filter(|k| !known9.contains(k)).collect();
                        if unknown.len() == 1 {
                            h.stats.add("key_derivation.differs", 1);
                            h.stats.add(&format!("key_derivation.differs.compress={compress}"), 1);
                            ekey = [0u8; 16];
                            ekey[..9].copy_from_slice(&unknown[0]);
                        } else {
                            h.violation(
                                "C04|Installation::write_file|ok-but-object-not-indexed".to_string(),
                                "write_file() returned Ok but neither the derived encoding key nor any new index entry exists",
                                json!({"derived_ekey": hex::encode(ekey), "len": payload.len(), "class": class, "new_index_entries": unknown.len()}),
                            );
                            continue;
                        }
                    }
                    known9.insert(k9(&ekey));
                    ckeys.insert(ekey, md5::compute(&payload).0);
                    m.order.retain(|k| k != &ekey);
                    m.order.push(ekey);
                    m.live.insert(ekey, Obj { payload, class, epoch: h.epoch, write_no: m.writes });
                    m.writes += 1;
                    if probed {
                        // the read right after the store, on the instance that saw the miss
                        let o = &m.live[&ekey];
                        h.log(format!("read-after-probe-and-write key={}", hex::encode(&ekey[..4])));
                        h.stats.add("installation.ops.read_after_probe_and_write", 1);
                        let res = rt.block_on(inst.read_file_by_encoding_key(&EncodingKey::from_bytes(ekey)));
                        check_read_result(&mut h, "Installation::read_file_by_encoding_key", &ekey, o, res, 0);
                    }
                }
                Err(e) => h.stats.add(&format!("installation.write_file.err.{}", err_label(&e)), 1),
            }
        } else if r < 66 {
            let Some(k) = m.pick_live(rng, true) else { continue };
            let non_latest = m.order.last() != Some(&k);
            let o = &m.live[&k];
            h.log(format!("read_file_by_encoding_key key={} len={} write_no={} non_latest={non_latest}", hex::encode(&k[..4]), o.payload.len(), o.write_no));
            h.stats.add("installation.ops.read_file_by_encoding_key", 1);
            if non_latest && m.writes >= 2 {
                h.reads_of_non_latest += 1;
                h.stats.add("installation.reads_of_non_latest_key", 1);
            }
            if o.epoch != h.epoch {
                h.stats.add("installation.reads_after_reopen", 1);
            }
            let res = rt.block_on(inst.read_file_by_encoding_key(&EncodingKey::from_bytes(k)));
            check_read_result(&mut h, "Installation::read_file_by_encoding_key", &k, o, res, 0);
        } else if r < 74 {
            h.stats.add("installation.ops.has_encoding_key", 1);
            if rng.bool() && !m.live.is_empty() {
                let k = m.pick_live(rng, false).unwrap_or([0; 16]);
                let o = &m.live[&k];
                h.log(format!("has_encoding_key live {}", hex::encode(&k[..4])));
                if !rt.block_on(inst.has_encoding_key(&EncodingKey::from_bytes(k))) {
                    let phase = h.phase(o);
                    h.violation(format!("C04|Installation::has_encoding_key|false-for-written-object|{phase}"), "has_encoding_key() is false for a written object", json!({"ekey": hex::encode(k)}));
                }
            } else {
                let k: [u8; 16] = rng.array::<16>();
                if !known9.contains(&k9(&k)) {
                    h.log("has_encoding_key never-written".to_string());
                    if rt.block_on(inst.has_encoding_key(&EncodingKey::from_bytes(k))) {
                        h.violation("C04|Installation::has_encoding_key|true-for-never-written-key".to_string(), "has_encoding_key() is true for a key that was never written", json!({"ekey": hex::encode(k)}));
                    }
                    if rt.block_on(inst.read_file_by_encoding_key(&EncodingKey::from_bytes(k))).is_ok() {
                        h.violation("C04|Installation::read_file_by_encoding_key|ok-for-never-written-key".to_string(), "read returned data for a key that was never written", json!({"ekey": hex::encode(k)}));
                    }
                }
            }
        } else if r < 80 {
            inst_alt_key_reads(&mut h, &rt, &inst, &m, &ckeys, &known9, rng);
        } else if r < 84 {
            inst_load_manifests(&mut h, &inst, &m, &ckeys, &mut names, &mut name_seq, rng);
        } else if r < 89 {
            inst_name_reads(&mut h, &rt, &inst, &m, &ckeys, &names, rng);
        } else if r < 92 {
            inst_location_reads(&mut h, &rt, &inst, &m, rng);
        } else {
            h.log("reopen+initialize".to_string());
            h.stats.add("installation.ops.reopen", 1);
            reopens += 1;
            names.clear();
            drop(inst);
            let idx_files = count_idx_files(&inst_data_dir(&root));
            h.stats.max("installation.idx_files_on_disk_at_reopen.max", idx_files as u64);
            inst = open(&rt)?;
            h.epoch += 1;
            inst_verify_all(&mut h, &rt, &inst, &m, Some(idx_files), "after-reopen");
            if idx_files == 0 && !m.live.is_empty() {
                // nothing written so far can be found again; continue the history with the
                // objects of the new instance only (the loss has been reported above)
                h.stats.add("installation.model_reset_after_unpersisted_reopen", 1);
                let lost: Vec<[u8; 16]> = m.live.keys().copied().collect();
                for k in lost {
                    if !rt.block_on(inst.has_encoding_key(&EncodingKey::from_bytes(k))) {
                        m.live.remove(&k);
                        m.order.retain(|x| x != &k);
                        known9.remove(&k9(&k));
                    }
                }
            }
        }
    }
    inst_verify_all(&mut h, &rt, &inst, &m, None, "final-same-instance");
    if rng.bool() {
        // the other entry points once more at the end of the history, with names for what is stored now
        inst_load_manifests(&mut h, &inst, &m, &ckeys, &mut names, &mut name_seq, rng);
        inst_name_reads(&mut h, &rt, &inst, &m, &ckeys, &names, rng);
        inst_alt_key_reads(&mut h, &rt, &inst, &m, &ckeys, &known9, rng);
        inst_location_reads(&mut h, &rt, &inst, &m, rng);
    }
    drop(inst);
    let idx_files = count_idx_files(&inst_data_dir(&root));
    h.stats.max("installation.idx_files_on_disk_at_reopen.max", idx_files as u64);
    let inst = open(&rt)?;
    h.epoch += 1;
    reopens += 1;
    h.stats.add("installation.ops.reopen", 1);
    inst_verify_all(&mut h, &rt, &inst, &m, Some(idx_files), "final-after-reopen");
    drop(inst);
    finish_history(&mut h, &m, reopens, 0);
    Ok(())
}

// ---------------------------------------------------------------------------
// ArchiveManager + IndexManager driven directly: the write path under every compression setting
// ---------------------------------------------------------------------------

fn cmode_name(m: CompressionMode) -> &'static str {
    match m {
        CompressionMode::None => "none",
        CompressionMode::ZLib => "zlib",
        CompressionMode::LZ4 => "lz4",
        CompressionMode::Encrypted => "encrypted",
        #[allow(deprecated)]
        CompressionMode::Frame => "frame",
    }
}

const STORAGE_MODES: [CompressionMode; 3] = [CompressionMode::None, CompressionMode::ZLib, CompressionMode::LZ4];

struct ArchState {
    am: ArchiveManager,
    im: IndexManager,
}

fn arch_open(rt: &tokio::runtime::Runtime, dir: &Path, mode: CompressionMode, how: u64) -> Result<ArchState, String> {
    let mut am = if how % 2 == 0 {
        ArchiveManager::with_compression(dir, mode)
    } else {
        let mut a = ArchiveManager::new(dir);
        a.set_compression_mode(mode);
        a
    };
    if (how / 2) % 2 == 0 {
        rt.block_on(am.open_all()).map_err(|e| format!("ArchiveManager::open_all: {e}"))?;
    } else {
        // the per-file entry point instead of the directory scan
        let mut files: Vec<(u16, PathBuf)> = Vec::new();
        for e in std::fs::read_dir(dir).map_err(|e| format!("read_dir: {e}"))?.flatten() {
            let name = e.file_name().to_string_lossy().to_string();
            if let Some(id) = name.strip_prefix("data.").filter(|r| r.len() == 3).and_then(|r| r.parse::<u16>().ok()) {
                files.push((id, e.path()));
            }
        }
        for (id, path) in files {
            am.open_archive(id, &path).map_err(|e| format!("ArchiveManager::open_archive: {e}"))?;
        }
    }
    let mut im = IndexManager::new(dir);
    rt.block_on(im.load_all()).map_err(|e| format!("IndexManager::load_all: {e}"))?;
    Ok(ArchState { am, im })
}

fn arch_check_obj(h: &mut Hist<'_>, st: &ArchState, k: &[u8; 16], o: &Obj, modes: &BTreeMap<[u8; 16], &'static str>) {
    let phase = h.phase(o);
    let mode = modes.get(k).copied().unwrap_or("none");
    h.stats.add("archive.ops.read_content", 1);
    if o.epoch != h.epoch {
        h.stats.add("archive.reads_after_reopen", 1);
    }
    let Some(e) = st.im.lookup(&EncodingKey::from_bytes(*k)) else {
        h.violation(format!("C04|IndexManager::lookup|none-for-written-object|{phase}"), "the index has no entry for the encoding key returned by a successful write", json!({"ekey": hex::encode(k), "mode": mode}));
        return;
    };
    let res = st.am.read_content(e.archive_id(), e.archive_offset(), e.size);
    check_read_result(h, &format!("ArchiveManager::read_content|mode={mode}"), k, o, res, 0);
    h.stats.add(&format!("archive.read_content.mode={mode}"), 1);
    // verify_content: true for the content hash of the object, false for any other hash
    let good = md5::compute(&o.payload).0;
    match st.am.verify_content(e.archive_id(), e.archive_offset(), e.size, &good) {
        Ok(true) => h.stats.add("archive.verify_content.true_for_object_hash", 1),
        Ok(false) => h.violation(format!("C04|ArchiveManager::verify_content|false-for-intact-object|mode={mode}|{phase}"), "verify_content() denies the content hash of an intact written object", json!({"ekey": hex::encode(k), "len": o.payload.len()})),
        Err(er) => {
            let label = err_label(&er);
            h.violation(format!("C04|ArchiveManager::verify_content|err={label}|mode={mode}|{phase}"), "verify_content() failed on a written object", json!({"ekey": hex::encode(k), "error": er.to_string()}));
        }
    }
    let mut bad = good;
    bad[(o.payload.len() + o.write_no) % 16] ^= 0x40;
    if let Ok(true) = st.am.verify_content(e.archive_id(), e.archive_offset(), e.size, &bad) {
        h.violation(format!("C04|ArchiveManager::verify_content|true-for-wrong-hash|mode={mode}"), "verify_content() accepts a hash that is not the object's", json!({"ekey": hex::encode(k)}));
    }
}

fn arch_verify_all(h: &mut Hist<'_>, st: &ArchState, m: &Model, modes: &BTreeMap<[u8; 16], &'static str>, why: &str) {
    h.log(format!("verify_all({why})"));
    for (k, o) in &m.live {
        arch_check_obj(h, st, k, o, modes);
    }
}

fn run_archive(ctx: &Ctx, idx: usize, rng: &mut Rng) -> Result<(), String> {
    let rt = tokio::runtime::Builder::new_current_thread().enable_all().build().map_err(|e| e.to_string())?;
    let (td, fs_kind) = mk_tempdir(idx).map_err(|e| format!("tempdir: {e}"))?;
    let dir = td.path().join("arch");
    std::fs::create_dir_all(&dir).map_err(|e| format!("mkdir: {e}"))?;
    let mut h = Hist { ctx, idx, target: "archive", variant: "archive+index", trace: Vec::new(), stats: Stats::default(), hash: 0xa4c04, epoch: 0, reads_of_non_latest: 0, fs_kind };
    let mut default_mode = *rng.pick(&STORAGE_MODES);
    let mut st = arch_open(&rt, &dir, default_mode, rng.below(4))?;
    if st.am.compression_mode() != default_mode {
        h.stats.add("archive.compression_mode_accessor_disagrees", 1);
    }
    let mut m = Model::default();
    let mut modes: BTreeMap<[u8; 16], &'static str> = BTreeMap::new();
    let n_ops = rng.urange(5, 50);
    let order = *rng.pick(SIZE_ORDERS);
    let max = match rng.below(10) {
        0 => 300_000,
        1 | 2 => 65_536,
        3..=5 => 4096,
        _ => 1200,
    };
    let mut sizes = SizePlan::new(rng, order, max);
    h.stats.add("histories.archive", 1);
    h.stats.add(&format!("histories.size_order.{order}"), 1);
    h.stats.add(&format!("histories.fs.{fs_kind}"), 1);
    h.log(format!("open archive+index default_mode={} order={order} max={max}", cmode_name(default_mode)));
    let mut reopens = 0u64;
    let mut flushes = 0u64;
    for opi in 0..n_ops {
        let r = rng.below(100);
        let r = if opi < 3 && m.writes < 3 { 0 } else { r };
        if r < 42 {
            let class: &'static str = if rng.chance(1, 4) { *rng.pick(EXTRA_CLASSES) } else { *rng.pick(genx::PAYLOAD_CLASSES) };
            let n = sizes.next(rng);
            let payload = make_payload(rng, class, n);
            // which write entry point, which effective compression
            let (how, eff) = match rng.below(20) {
                0..=7 => ("write_content(compress=true)", default_mode),
                8..=10 => ("write_content(compress=false)", CompressionMode::None),
                11..=18 => ("write_content_with_mode", *rng.pick(&STORAGE_MODES)),
                #[allow(deprecated)]
                _ => ("write_content_with_mode", if rng.bool() { CompressionMode::Encrypted } else { CompressionMode::Frame }),
            };
            let mode = cmode_name(eff);
            h.log(format!("{how}#{} mode={mode} class={class} len={} md5={}", m.writes, payload.len(), hex::encode(&md5::compute(&payload).0[..4])));
            h.stats.add("archive.ops.write", 1);
            h.stats.add(&format!("archive.write.mode={mode}"), 1);
            h.stats.add(&format!("payload_class.{class}"), 1);
            h.stats.max("max_payload_len", payload.len() as u64);
            let res = match how {
                "write_content(compress=true)" => st.am.write_content(&payload, true),
                "write_content(compress=false)" => st.am.write_content(&payload, false),
                _ => st.am.write_content_with_mode(&payload, eff),
            };
            match res {
                Ok((id, off, size, ekey)) => {
                    h.stats.add(&format!("archive.write.ok.mode={mode}"), 1);
                    h.stats.add("bytes_written", payload.len() as u64);
                    if let Err(e) = st.im.add_entry(&EncodingKey::from_bytes(ekey), id, off, size) {
                        h.stats.add(&format!("archive.add_entry.err.{}", err_label(&e)), 1);
                        continue;
                    }
                    // what is on disk: 30-byte local header, then a BLTE container of the payload whose MD5 is the key
                    // (recorded, not judged here: the container format is C01's subject)
                    if let Ok(raw) = st.am.read_raw(id, off, size) {
                        if raw.len() == size as usize && raw.len() >= 30 {
                            let blte = &raw[30..];
                            h.stats.add(if md5::compute(blte).0 == ekey { "archive.ekey_is_md5_of_stored_blte.agrees" } else { "archive.ekey_is_md5_of_stored_blte.differs" }, 1);
                            let none = |_: u64| None;
                            match vh::refimpl::blte::decode(blte, &none) {
                                Ok(d) if d.content() == payload => h.stats.add(&format!("archive.reference_decoder_agrees.mode={mode}"), 1),
                                _ => h.stats.add(&format!("archive.reference_decoder_differs.mode={mode}"), 1),
                            }
                            if payload.len() > 64 && matches!(class, "zeros" | "ones" | "compressible" | "text") && eff != CompressionMode::None && blte.len() < payload.len() {
                                h.stats.add("archive.stored_smaller_than_payload", 1);
                            }
                        } else {
                            h.stats.add("archive.read_raw_length_differs_from_size", 1);
                        }
                    }
                    if eff == CompressionMode::None {
                        h.stats.add(if derive_ekey(&payload) == ekey { "key_derivation.agrees" } else { "key_derivation.differs" }, 1);
                    }
                    modes.insert(ekey, mode);
                    m.order.retain(|k| k != &ekey);
                    m.order.push(ekey);
                    m.live.insert(ekey, Obj { payload, class, epoch: h.epoch, write_no: m.writes });
                    m.writes += 1;
                }
                Err(e) => h.stats.add(&format!("archive.write.err.{}.mode={mode}", err_label(&e)), 1),
            }
        } else if r < 72 {
            let Some(k) = m.pick_live(rng, true) else { continue };
            let o = &m.live[&k];
            let non_latest = m.order.last() != Some(&k);
            h.log(format!("read_content key={} len={} write_no={} non_latest={non_latest}", hex::encode(&k[..4]), o.payload.len(), o.write_no));
            if non_latest && m.writes >= 2 {
                h.reads_of_non_latest += 1;
                h.stats.add("archive.reads_of_non_latest_key", 1);
            }
            arch_check_obj(&mut h, &st, &k, o, &modes);
        } else if r < 80 {
            default_mode = *rng.pick(&STORAGE_MODES);
            h.log(format!("set_compression_mode {}", cmode_name(default_mode)));
            h.stats.add("archive.ops.set_compression_mode", 1);
            st.am.set_compression_mode(default_mode);
        } else if r < 86 {
            h.log("compact".to_string());
            h.stats.add("archive.ops.compact", 1);
            match st.am.compact() {
                Ok(cs) => {
                    h.stats.add("archive.compact.ok", 1);
                    h.stats.add("archive.compact.archives_compacted", cs.archives_compacted as u64);
                }
                Err(e) => h.stats.add(&format!("archive.compact.err.{}", err_label(&e)), 1),
            }
            arch_verify_all(&mut h, &st, &m, &modes, "after-compact");
        } else if r < 91 {
            h.log("flush_all_updates".to_string());
            flushes += 1;
            if let Err(e) = st.im.flush_all_updates() {
                h.stats.add(&format!("archive.flush_all.err.{}", err_label(&e)), 1);
            }
        } else {
            h.log("save_all + reopen".to_string());
            if let Err(e) = st.im.save_all() {
                h.stats.add(&format!("archive.save_all.err.{}", err_label(&e)), 1);
                continue;
            }
            h.stats.add("archive.ops.reopen", 1);
            reopens += 1;
            drop(st);
            default_mode = *rng.pick(&STORAGE_MODES);
            st = arch_open(&rt, &dir, default_mode, rng.below(4))?;
            h.epoch += 1;
            arch_verify_all(&mut h, &st, &m, &modes, "after-reopen");
        }
    }
    arch_verify_all(&mut h, &st, &m, &modes, "final-same-instance");
    st.im.save_all().map_err(|e| format!("final save_all: {e}"))?;
    drop(st);
    let st = arch_open(&rt, &dir, default_mode, rng.below(4))?;
    h.epoch += 1;
    reopens += 1;
    h.stats.add("archive.ops.reopen", 1);
    arch_verify_all(&mut h, &st, &m, &modes, "final-after-reopen");
    drop(st);
    finish_history(&mut h, &m, reopens, flushes);
    Ok(())
}

/// The data file loses its tail while the store is closed (the situation `handle_truncated_read` exists for). The
/// object that was cut can no longer be served — but it must not be served wrongly — and every object that lies
/// wholly inside the remaining file, and everything written afterwards, still reads back byte-for-byte.
fn truncated_history(ctx: &Ctx, variant: usize) -> Result<(), String> {
    let rt = tokio::runtime::Builder::new_current_thread().enable_all().build().map_err(|e| e.to_string())?;
    let (td, fs_kind) = mk_tempdir(0).map_err(|e| e.to_string())?;
    let root = td.path().to_path_buf();
    let store = root.join("store");
    let mut h = Hist { ctx, idx: TRUNC_ID, target: "dynamic", variant: DYN_VARIANTS[variant], trace: Vec::new(), stats: Stats::default(), hash: mix64(0x7c04, variant as u64), epoch: 0, reads_of_non_latest: 0, fs_kind };
    let mut rng = ctx.rng(7900 + variant as u64);
    let bundle = open_dynamic(&rt, &root, variant, 1024)?;
    let mut m = Model::default();
    // enough objects that every index bucket the cut object could fall into also holds other objects
    let lens: Vec<usize> = (0..24).map(|i| [300usize, 5000, 40, 2000, 0, 77][i % 6] + i).chain([700]).collect();
    for n in lens {
        let payload = rng.bytes(n);
        h.log(format!("write len={n}"));
        rt.block_on(bundle.c.write(&[0u8; 16], &payload)).map_err(|e| format!("truncation scenario write: {e}"))?;
        let ekey = derive_ekey(&payload);
        m.order.push(ekey);
        m.live.insert(ekey, Obj { payload, class: "random", epoch: 0, write_no: m.writes });
        m.writes += 1;
    }
    dyn_verify_all(&mut h, &rt, &bundle.c, &m, &mut rng, "before-truncation");
    drop(bundle);
    // which object is stored last, and where (from the index files on disk, through a fresh IndexManager)
    let (cut_key, cut_off, cut_size, archive_id) = {
        let mut im = IndexManager::new(&store);
        rt.block_on(im.load_all()).map_err(|e| format!("load_all: {e}"))?;
        let last = im.iter_entries().map(|(_, e)| e).max_by_key(|e| (e.archive_id(), e.archive_offset())).ok_or("no index entries")?;
        let k = *m.live.keys().find(|k| k9(k) == last.key).ok_or("last entry is not a model object")?;
        (k, u64::from(last.archive_offset()), u64::from(last.size), last.archive_id())
    };
    let data = store.join(format!("data.{archive_id:03}"));
    let len = std::fs::metadata(&data).map_err(|e| format!("stat data file: {e}"))?.len();
    if cut_off + cut_size != len || cut_size < 100 {
        return Err(format!("unexpected archive layout: last entry {cut_off}+{cut_size}, file {len}"));
    }
    let new_len = cut_off + cut_size / 2;
    std::fs::OpenOptions::new().write(true).open(&data).and_then(|f| f.set_len(new_len)).map_err(|e| format!("truncate: {e}"))?;
    h.log(format!("data file truncated while closed: {len} -> {new_len} (cuts the last object)"));
    let cut_obj = m.live.remove(&cut_key).ok_or("model lost the cut object")?;
    m.order.retain(|k| k != &cut_key);
    let bundle = open_dynamic(&rt, &root, variant, 1024)?;
    h.epoch += 1;
    let probe_cut = |h: &mut Hist<'_>, c: &DynamicContainer, when: &str| match dyn_read(&rt, c, &cut_key, cut_obj.payload.len(), 64) {
        Ok(got) if got == cut_obj.payload => h.stats.add("truncation.cut_object_still_served_exactly", 1),
        Ok(got) => h.violation(format!("C04|DynamicContainer::read|ok-with-other-bytes-for-object-cut-by-truncation|{when}"), "a read of an object whose data was cut off returned other bytes instead of failing", json!({"ekey": hex::encode(cut_key), "written_len": cut_obj.payload.len(), "returned_len": got.len()})),
        Err(e) => h.stats.add(&format!("truncation.read_of_cut_object.err.{}", err_label(&e)), 1),
    };
    probe_cut(&mut h, &bundle.c, "first-read");
    probe_cut(&mut h, &bundle.c, "second-read");
    dyn_verify_all(&mut h, &rt, &bundle.c, &m, &mut rng, "after-truncated-read");
    drop(bundle);
    // the marking done by the truncated read must not damage the others across a reopen either
    let bundle = open_dynamic(&rt, &root, variant, 1024)?;
    h.epoch += 1;
    dyn_verify_all(&mut h, &rt, &bundle.c, &m, &mut rng, "after-truncated-read-and-reopen");
    probe_cut(&mut h, &bundle.c, "after-reopen");
    // new writes land behind the cut and are served; the older objects stay
    for n in [123usize, 4000] {
        let payload = rng.bytes(n);
        h.log(format!("write len={n} (after truncation)"));
        rt.block_on(bundle.c.write(&[0u8; 16], &payload)).map_err(|e| format!("write after truncation: {e}"))?;
        let ekey = derive_ekey(&payload);
        m.order.push(ekey);
        m.live.insert(ekey, Obj { payload, class: "random", epoch: h.epoch, write_no: m.writes });
        m.writes += 1;
    }
    dyn_verify_all(&mut h, &rt, &bundle.c, &m, &mut rng, "after-truncation-and-new-writes");
    drop(bundle);
    let bundle = open_dynamic(&rt, &root, variant, 1024)?;
    h.epoch += 1;
    dyn_verify_all(&mut h, &rt, &bundle.c, &m, &mut rng, "final-after-reopen");
    drop(bundle);
    h.reads_of_non_latest = 4;
    h.stats.add("truncated_history.runs", 1);
    finish_history(&mut h, &m, 3, 0);
    Ok(())
}

/// The design-time probe, verbatim: writes of 1000, 100, 50 bytes, then read all three.
fn probe_history(ctx: &Ctx) -> Result<(), String> {
    let rt = tokio::runtime::Builder::new_current_thread().enable_all().build().map_err(|e| e.to_string())?;
    let (td, fs_kind) = mk_tempdir(0).map_err(|e| e.to_string())?;
    let root = td.path().to_path_buf();
    let mut h = Hist { ctx, idx: PROBE_ID, target: "dynamic", variant: "plain", trace: Vec::new(), stats: Stats::default(), hash: 0x9c04, epoch: 0, reads_of_non_latest: 0, fs_kind };
    let bundle = open_dynamic(&rt, &root, 0, 4)?;
    let mut m = Model::default();
    let mut rng = ctx.rng(77);
    for n in [1000usize, 100, 50] {
        let payload = rng.bytes(n);
        h.log(format!("write len={n}"));
        rt.block_on(bundle.c.write(&[0u8; 16], &payload)).map_err(|e| format!("probe write: {e}"))?;
        let ekey = derive_ekey(&payload);
        m.order.push(ekey);
        m.live.insert(ekey, Obj { payload, class: "random", epoch: 0, write_no: m.writes });
        m.writes += 1;
    }
    h.reads_of_non_latest = 2;
    h.stats.add("probe_1000_100_50.runs", 1);
    dyn_verify_all(&mut h, &rt, &bundle.c, &m, &mut rng, "probe");
    drop(bundle);
    finish_history(&mut h, &m, 0, 0);
    Ok(())
}

/// A bucket whose update section is filled to its capacity (60 pages x 21 entries) through the index API,
/// then container writes whose encoding keys fall into that bucket (the first of them goes through the
/// index's flush-and-retry path), close, reopen, read everything. Added after a seeded change ("save only
/// dirty buckets", the retry path forgot to re-mark the bucket) was missed: random histories never put
/// 1260 un-flushed entries into one bucket through the container.
fn overflow_history(ctx: &Ctx, bucket: u8, prefill: usize) -> Result<(), String> {
    use cascette_client_storage::index::IndexManager;
    let rt = tokio::runtime::Builder::new_current_thread().enable_all().build().map_err(|e| e.to_string())?;
    let (td, fs_kind) = mk_tempdir(0).map_err(|e| e.to_string())?;
    let root = td.path().to_path_buf();
    let mut h = Hist { ctx, idx: PROBE_ID, target: "dynamic", variant: "plain", trace: Vec::new(), stats: Stats::default(), hash: mix64(0x0f10, u64::from(bucket) * 4096 + prefill as u64), epoch: 0, reads_of_non_latest: 0, fs_kind };
    let mut rng = ctx.rng(7700 + u64::from(bucket));
    // create the store, then pre-fill one bucket's update section through a plain IndexManager
    let bundle = open_dynamic(&rt, &root, 0, 4)?;
    drop(bundle);
    let store = root.join("store");
    {
        let mut im = IndexManager::new(&store);
        rt.block_on(im.load_all()).map_err(|e| format!("prefill load_all: {e}"))?;
        let mut added = 0usize;
        while added < prefill {
            let mut k = rng.array::<16>();
            // first nine bytes decide the bucket: fix the ninth so that the XOR-fold hits `bucket`
            let x = k[..8].iter().fold(0u8, |a, b| a ^ b);
            k[8] = x ^ bucket;
            let ek = cascette_crypto::EncodingKey::from_bytes(k);
            if IndexManager::bucket_for_key(&ek) != bucket {
                continue;
            }
            // locations far away from what the container will write (archive 900+)
            im.add_entry(&ek, 900 + (added % 100) as u16, (added as u32) * 64, 64).map_err(|e| format!("prefill add_entry: {e}"))?;
            added += 1;
        }
        if prefill > 20_000 {
            // the large pre-fills are about the sorted section: merge everything into it
            im.flush_updates_for_bucket(bucket).map_err(|e| format!("prefill flush: {e}"))?;
        }
        im.save_all().map_err(|e| format!("prefill save_all: {e}"))?;
    }
    h.log(format!("prefilled bucket {bucket:#x} with {prefill} {} entries", if prefill > 20_000 { "flushed (sorted-section)" } else { "un-flushed" }));
    let bundle = open_dynamic(&rt, &root, 0, 4)?;
    let mut m = Model::default();
    // payloads whose derived encoding key falls into the bucket
    let mut written = 0usize;
    let mut counter = 0u64;
    while written < 6 {
        counter += 1;
        let mut payload = rng.bytes(40 + written * 17);
        payload.extend_from_slice(&counter.to_le_bytes());
        let ekey = derive_ekey(&payload);
        if IndexManager::bucket_for_key(&cascette_crypto::EncodingKey::from_bytes(ekey)) != bucket {
            continue;
        }
        h.log(format!("write len={} (same bucket)", payload.len()));
        rt.block_on(bundle.c.write(&[0u8; 16], &payload)).map_err(|e| format!("overflow write: {e}"))?;
        m.order.push(ekey);
        m.live.insert(ekey, Obj { payload, class: "random", epoch: 0, write_no: m.writes });
        m.writes += 1;
        written += 1;
        // verify after every write in the same instance, and after a reopen following each of the first writes
        dyn_verify_all(&mut h, &rt, &bundle.c, &m, &mut rng, "overflow-same-instance");
        if written <= 4 {
            let b2 = open_dynamic(&rt, &root, 0, 4)?;
            h.epoch += 1;
            h.log("reopen (second handle on the same directory)".to_string());
            dyn_verify_all(&mut h, &rt, &b2.c, &m, &mut rng, "overflow-after-reopen");
            drop(b2);
        }
    }
    h.reads_of_non_latest = 5;
    h.stats.add("overflow_history.runs", 1);
    drop(bundle);
    finish_history(&mut h, &m, 4, 0);
    Ok(())
}

/// One write that grows the archive by more than 64 MiB (the other remap branch) between small ones.
fn huge_history(ctx: &Ctx) -> Result<(), String> {
    let rt = tokio::runtime::Builder::new_current_thread().enable_all().build().map_err(|e| e.to_string())?;
    let (td, fs_kind) = mk_tempdir(0).map_err(|e| e.to_string())?;
    let root = td.path().to_path_buf();
    let mut h = Hist { ctx, idx: HUGE_ID, target: "dynamic", variant: "plain", trace: Vec::new(), stats: Stats::default(), hash: 0x8c04, epoch: 0, reads_of_non_latest: 0, fs_kind };
    let bundle = open_dynamic(&rt, &root, 0, 4)?;
    let mut m = Model::default();
    let mut rng = ctx.rng(78);
    for n in [1024usize, 66 * 1024 * 1024 + 3, 100, 70_000, 10] {
        let payload = rng.bytes(n);
        h.log(format!("write len={n}"));
        h.stats.max("max_payload_len", n as u64);
        rt.block_on(bundle.c.write(&[0u8; 16], &payload)).map_err(|e| format!("huge write: {e}"))?;
        let ekey = derive_ekey(&payload);
        m.order.push(ekey);
        m.live.insert(ekey, Obj { payload, class: "random", epoch: 0, write_no: m.writes });
        m.writes += 1;
    }
    h.reads_of_non_latest = 4;
    h.stats.add("huge_history.runs", 1);
    dyn_verify_all(&mut h, &rt, &bundle.c, &m, &mut rng, "huge-same-instance");
    drop(bundle);
    let bundle = open_dynamic(&rt, &root, 0, 4)?;
    h.epoch = 1;
    dyn_verify_all(&mut h, &rt, &bundle.c, &m, &mut rng, "huge-after-reopen");
    drop(bundle);
    finish_history(&mut h, &m, 1, 0);
    Ok(())
}

// ---------------------------------------------------------------------------
// Several live handles on one directory (a launcher and an updater, a game and a repair tool): one handle stores
// objects, another one looks at the directory again (`Installation::initialize` / `DynamicContainer::open` called
// on the live handle) and then reads and stores. "Once a write has succeeded, reading the object returns exactly
// the bytes" holds for every handle whose view of the directory is at least as new as the write.
// ---------------------------------------------------------------------------

/// Histories with index >= this value are several-handles histories (`--only-history` / replay work as for the others).
const HANDLES_BASE: usize = 1_000_000;

enum Store {
    Inst(Arc<Installation>),
    Dyn(DynBundle),
}

impl Store {
    fn open(rt: &tokio::runtime::Runtime, root: &Path, dynamic: bool) -> Result<Self, String> {
        if dynamic {
            Ok(Self::Dyn(open_dynamic(rt, root, 0, 4)?))
        } else {
            let inst = Installation::open(root.join("inst")).map_err(|e| format!("Installation::open: {e}"))?;
            rt.block_on(inst.initialize()).map_err(|e| format!("Installation::initialize: {e}"))?;
            Ok(Self::Inst(Arc::new(inst)))
        }
    }
    /// The handle looks at the directory again.
    fn refresh(&self, rt: &tokio::runtime::Runtime) -> Result<(), StorageError> {
        match self {
            Self::Inst(i) => rt.block_on(i.initialize()),
            Self::Dyn(b) => rt.block_on(b.c.open()),
        }
    }
    fn refresh_api(&self) -> &'static str {
        match self {
            Self::Inst(_) => "Installation::initialize",
            Self::Dyn(_) => "DynamicContainer::open",
        }
    }
    fn write(&self, rt: &tokio::runtime::Runtime, payload: &[u8], rng: &mut Rng) -> Result<(), StorageError> {
        match self {
            Self::Inst(i) => rt.block_on(i.write_file(payload.to_vec(), rng.bool())).map(|_| ()),
            Self::Dyn(b) => {
                let passed: [u8; 16] = rng.array::<16>();
                rt.block_on(b.c.write(&passed, payload))
            }
        }
    }
    fn write_api(&self) -> &'static str {
        match self {
            Self::Inst(_) => "Installation::write_file",
            Self::Dyn(_) => "DynamicContainer::write",
        }
    }
    fn read(&self, rt: &tokio::runtime::Runtime, k: &[u8; 16], len: usize) -> Result<Vec<u8>, StorageError> {
        match self {
            Self::Inst(i) => rt.block_on(i.read_file_by_encoding_key(&EncodingKey::from_bytes(*k))),
            Self::Dyn(b) => dyn_read(rt, &b.c, k, len, 64),
        }
    }
    fn read_api(&self) -> &'static str {
        match self {
            Self::Inst(_) => "Installation::read_file_by_encoding_key",
            Self::Dyn(_) => "DynamicContainer::read",
        }
    }
    fn has(&self, rt: &tokio::runtime::Runtime, k: &[u8; 16]) -> bool {
        match self {
            Self::Inst(i) => rt.block_on(i.has_encoding_key(&EncodingKey::from_bytes(*k))),
            Self::Dyn(b) => matches!(rt.block_on(b.c.query(k)), Ok(true)),
        }
    }
}

struct Handle {
    id: usize,
    store: Store,
    /// number of successful writes to the directory (through any handle) this handle's view includes
    seen: usize,
    /// the handle has looked at the directory again at least once since it was created
    refreshed: bool,
}

/// How the reading handle came to know the object (part of the signature).
fn handle_view(hd: &Handle, writer: usize) -> &'static str {
    if writer == hd.id {
        "writer-handle"
    } else if hd.refreshed {
        "handle-refreshed-after-the-write"
    } else {
        "handle-opened-after-the-write"
    }
}

/// A read through a handle whose view includes the write: the object, byte for byte.
fn judge_handle_read(h: &mut Hist<'_>, hd: &Handle, k: &[u8; 16], o: &Obj, writer: usize, res: Result<Vec<u8>, StorageError>) {
    let api = hd.store.read_api();
    let view = handle_view(hd, writer);
    let group = content_group(&o.payload, o.class);
    let at = |extra: Value| json!({"ekey": hex::encode(k), "class": o.class, "written_len": o.payload.len(), "write_no": o.write_no, "written_through_handle": writer, "read_through_handle": hd.id, "more": extra});
    match res {
        Ok(got) if got == o.payload => {
            h.stats.add(&format!("handles.read.ok.{view}"), 1);
            h.stats.add(&format!("read_ok.group.{group}"), 1);
        }
        Ok(got) if got.len() != o.payload.len() => h.violation(
            format!("C04|{api}|returned-length-differs|{group}|several-handles|{view}"),
            "a read of a successfully written object returned a different number of bytes (several handles on one directory)",
            at(json!({"returned_len": got.len(), "written": hex_short(&o.payload, 48), "returned": hex_short(&got, 48)})),
        ),
        Ok(got) => {
            let first = got.iter().zip(&o.payload).position(|(a, b)| a != b);
            h.violation(
                format!("C04|{api}|returned-bytes-differ|{group}|several-handles|{view}"),
                "a read of a successfully written object returned other bytes (several handles on one directory)",
                at(json!({"first_diff": first})),
            );
        }
        Err(e) => {
            let label = err_label(&e);
            h.stats.add(&format!("handles.read.err.{label}"), 1);
            let sig = if err_is_content_independent(&label) { format!("C04|{api}|err={label}|several-handles|{view}") } else { format!("C04|{api}|err={label}|{group}|several-handles|{view}") };
            h.violation(sig, "a read of a successfully written object failed through a handle whose view of the directory includes the write", at(json!({"error": e.to_string()})));
        }
    }
}

/// Every stored object through one handle whose view is current.
fn handle_verify_all(h: &mut Hist<'_>, rt: &tokio::runtime::Runtime, hd: &Handle, m: &Model, meta: &BTreeMap<[u8; 16], (usize, usize)>, why: &str) {
    h.log(format!("handle {} verify_all({why})", hd.id));
    for (k, o) in &m.live {
        let (_, writer) = meta.get(k).copied().unwrap_or((0, usize::MAX));
        h.stats.add("handles.ops.read", 1);
        if writer != hd.id {
            h.reads_of_non_latest += 1;
            h.stats.add("handles.reads_of_objects_written_through_another_handle", 1);
        }
        if !hd.store.has(rt, k) {
            let view = handle_view(hd, writer);
            let api = if matches!(hd.store, Store::Inst(_)) { "Installation::has_encoding_key" } else { "DynamicContainer::query" };
            h.violation(format!("C04|{api}|false-for-written-object|several-handles|{view}"), "a written object is not reported as stored through a handle whose view includes the write", json!({"ekey": hex::encode(k), "handle": hd.id}));
        }
        let res = hd.store.read(rt, k, o.payload.len());
        judge_handle_read(h, hd, k, o, writer, res);
    }
}

fn run_handles(ctx: &Ctx, idx: usize, rng: &mut Rng) -> Result<(), String> {
    let rt = tokio::runtime::Builder::new_current_thread().enable_all().build().map_err(|e| e.to_string())?;
    let (td, fs_kind) = mk_tempdir(idx).map_err(|e| format!("tempdir: {e}"))?;
    let root = td.path().to_path_buf();
    let dynamic = idx % 2 == 1;
    let variant = if dynamic { "DynamicContainer" } else { "Installation" };
    let mut h = Hist { ctx, idx, target: "handles", variant, trace: Vec::new(), stats: Stats::default(), hash: 0x4a4d, epoch: 0, reads_of_non_latest: 0, fs_kind };
    let order = *rng.pick(SIZE_ORDERS);
    let max = match rng.below(10) {
        0 | 1 => 65_536,
        2..=5 => 4096,
        _ => 1200,
    };
    let mut sizes = SizePlan::new(rng, order, max);
    h.stats.add("histories.handles", 1);
    h.stats.add(&format!("histories.handles.{variant}"), 1);
    h.log(format!("several handles on one {variant} directory order={order} max={max}"));
    let mut m = Model::default();
    // per object: (number of directory writes when it was first stored, handle that stored it first)
    let mut meta: BTreeMap<[u8; 16], (usize, usize)> = BTreeMap::new();
    let mut dir_writes = 0usize;
    let mut next_id = 0usize;
    let mut handles: Vec<Handle> = Vec::new();
    let mut writers: BTreeSet<usize> = BTreeSet::new();
    let n_steps = rng.urange(5, 18);

    // a handle looks at the directory again; afterwards every stored object reads back through it
    let refresh = |h: &mut Hist<'_>, hd: &mut Handle, m: &Model, meta: &BTreeMap<[u8; 16], (usize, usize)>, dir_writes: usize| -> Result<(), String> {
        let behind = dir_writes - hd.seen;
        h.log(format!("handle {} looks at the directory again ({}; {behind} writes of other handles since its last look)", hd.id, hd.store.refresh_api()));
        h.stats.add("handles.ops.refresh", 1);
        if behind > 0 {
            h.stats.add("handles.ops.refresh_after_writes_of_another_handle", 1);
        }
        hd.store.refresh(&rt).map_err(|e| format!("{} on a live handle: {e}", hd.store.refresh_api()))?;
        hd.seen = dir_writes;
        hd.refreshed = true;
        handle_verify_all(h, &rt, hd, m, meta, "after-refresh");
        Ok(())
    };

    for step in 0..n_steps {
        let r = match step {
            0 => 100, // the first handle is created
            1 => 0,   // ... and stores
            2 => 100, // a second handle
            _ => rng.below(100),
        };
        if r < 40 && !handles.is_empty() {
            // a handle stores objects; its view is made current first
            let hi = rng.urange(0, handles.len() - 1);
            if handles[hi].seen != dir_writes {
                refresh(&mut h, &mut handles[hi], &m, &meta, dir_writes)?;
                h.stats.add("handles.ops.write_after_refresh_after_writes_of_another_handle", 1);
            }
            for _ in 0..rng.urange(1, 3) {
                let class: &'static str = if rng.chance(1, 4) { *rng.pick(EXTRA_CLASSES) } else { *rng.pick(genx::PAYLOAD_CLASSES) };
                let n = sizes.next(rng);
                let payload = make_payload(rng, class, n);
                let hd = &mut handles[hi];
                h.log(format!("handle {} write#{} class={class} len={} md5={}", hd.id, m.writes, payload.len(), hex::encode(&md5::compute(&payload).0[..4])));
                h.stats.add("handles.ops.write", 1);
                h.stats.add(&format!("payload_class.{class}"), 1);
                match hd.store.write(&rt, &payload, rng) {
                    Ok(()) => {
                        h.stats.add("bytes_written", payload.len() as u64);
                        let ekey = derive_ekey(&payload);
                        dir_writes += 1;
                        hd.seen = dir_writes;
                        writers.insert(hd.id);
                        if !hd.store.has(&rt, &ekey) {
                            // same rule as everywhere: Ok, but the object is not there under its encoding key
                            h.violation(format!("C04|{}|ok-but-object-not-indexed|several-handles", hd.store.write_api()), "a write returned Ok but the object is not stored under its encoding key", json!({"derived_ekey": hex::encode(ekey), "len": payload.len(), "class": class, "handle": hd.id}));
                            continue;
                        }
                        h.stats.add("key_derivation.agrees", 1);
                        meta.entry(ekey).or_insert((dir_writes, hd.id));
                        m.order.retain(|k| k != &ekey);
                        m.order.push(ekey);
                        m.live.insert(ekey, Obj { payload, class, epoch: 0, write_no: m.writes });
                        m.writes += 1;
                        // read back at once through the writer
                        let o = &m.live[&ekey];
                        h.stats.add("handles.ops.read", 1);
                        let res = hd.store.read(&rt, &ekey, o.payload.len());
                        judge_handle_read(&mut h, hd, &ekey, o, meta[&ekey].1, res);
                    }
                    Err(e) => h.stats.add(&format!("handles.write.err.{}", err_label(&e)), 1),
                }
            }
        } else if r < 60 && !handles.is_empty() {
            let hi = rng.urange(0, handles.len() - 1);
            refresh(&mut h, &mut handles[hi], &m, &meta, dir_writes)?;
        } else if r < 80 && !handles.is_empty() && !m.live.is_empty() {
            // a read through any handle; judged when the handle's view includes the write
            let hi = rng.urange(0, handles.len() - 1);
            let hd = &handles[hi];
            let Some(k) = m.pick_live(rng, true) else { continue };
            let o = &m.live[&k];
            let (first_stored, writer) = meta[&k];
            h.log(format!("handle {} read key={} len={} written_through={writer}", hd.id, hex::encode(&k[..4]), o.payload.len()));
            h.stats.add("handles.ops.read", 1);
            let res = hd.store.read(&rt, &k, o.payload.len());
            if first_stored <= hd.seen {
                if writer != hd.id {
                    h.reads_of_non_latest += 1;
                    h.stats.add("handles.reads_of_objects_written_through_another_handle", 1);
                }
                judge_handle_read(&mut h, hd, &k, o, writer, res);
            } else {
                // the object was stored after this handle last looked at the directory: whether the handle finds it
                // is left open; data it hands back for the key must be the object
                match res {
                    Ok(got) if got == o.payload => h.stats.add("handles.read_with_outdated_view.ok_exact(observation)", 1),
                    Ok(got) => h.violation(
                        format!("C04|{}|returned-other-bytes|{}|several-handles|handle-with-outdated-view", hd.store.read_api(), content_group(&o.payload, o.class)),
                        "a read returned data for the key of a written object that is not the object",
                        json!({"ekey": hex::encode(k), "written_len": o.payload.len(), "returned_len": got.len(), "handle": hd.id}),
                    ),
                    Err(e) => h.stats.add(&format!("handles.read_with_outdated_view.err.{}(observation)", err_label(&e)), 1),
                }
            }
        } else if r < 88 && handles.len() >= 2 {
            let hi = rng.urange(0, handles.len() - 1);
            let hd = handles.remove(hi);
            h.log(format!("handle {} dropped", hd.id));
            h.stats.add("handles.ops.drop_handle", 1);
            drop(hd);
        } else if handles.len() < 3 {
            let store = Store::open(&rt, &root, dynamic)?;
            let hd = Handle { id: next_id, store, seen: dir_writes, refreshed: false };
            next_id += 1;
            h.log(format!("handle {} created (open + initialize) while {} other handles are live", hd.id, handles.len()));
            h.stats.add("handles.ops.new_handle", 1);
            if !handles.is_empty() {
                h.stats.add("handles.ops.new_handle_beside_live_handles", 1);
            }
            handle_verify_all(&mut h, &rt, &hd, &m, &meta, "new-handle");
            handles.push(hd);
        }
    }
    // every live handle looks again and must see everything; then a handle created after all of them are gone
    for hd in &mut handles {
        refresh(&mut h, hd, &m, &meta, dir_writes)?;
    }
    h.stats.max("handles.live_at_end.max", handles.len() as u64);
    handles.clear();
    let hd = Handle { id: next_id, store: Store::open(&rt, &root, dynamic)?, seen: dir_writes, refreshed: false };
    h.log(format!("all handles dropped; handle {} created", hd.id));
    handle_verify_all(&mut h, &rt, &hd, &m, &meta, "final-fresh-handle");
    drop(hd);
    if writers.len() >= 2 {
        h.stats.add("histories.handles.with_two_writing_handles", 1);
    }
    finish_history(&mut h, &m, 1, 0);
    Ok(())
}

fn run_history(ctx: &Ctx, idx: usize, only_target: Option<&str>) {
    if idx >= HANDLES_BASE {
        if only_target.is_some_and(|t| t != "handles") {
            return;
        }
        let mut rng = ctx.rng(10_000 + idx as u64);
        LAST_PANIC.with(|p| *p.borrow_mut() = None);
        let res = std::panic::catch_unwind(std::panic::AssertUnwindSafe(|| run_handles(ctx, idx, &mut rng)));
        judge_run(ctx, res, idx, "handles");
        return;
    }
    let mut rng = ctx.rng(10_000 + idx as u64);
    // every 8th history drives ArchiveManager + IndexManager directly (all compression settings)
    let is_arch = idx % 8 == 5;
    let is_inst = !is_arch && idx % 3 == 2;
    let target = if is_arch { "archive" } else if is_inst { "installation" } else { "dynamic" };
    if only_target.is_some_and(|t| t != target) {
        return;
    }
    LAST_PANIC.with(|p| *p.borrow_mut() = None);
    let res = std::panic::catch_unwind(std::panic::AssertUnwindSafe(|| {
        if is_arch {
            run_archive(ctx, idx, &mut rng)
        } else if is_inst {
            run_installation(ctx, idx, &mut rng)
        } else {
            run_dynamic(ctx, idx, (idx / 3) % 4, &mut rng)
        }
    }));
    judge_run(ctx, res, idx, target);
}

fn judge_run(ctx: &Ctx, res: std::thread::Result<Result<(), String>>, idx: usize, target: &str) {
    match res {
        Ok(Ok(())) => {}
        Ok(Err(e)) => {
            // open/initialize/tempdir failures of the harness set-up: cannot judge that history
            ctx.obs("histories.setup_failed", 1);
            ctx.inconclusive(&format!("history set-up failed ({target}): {e}"));
        }
        Err(p) => {
            let msg = p.downcast_ref::<&str>().map(|s| (*s).to_string()).or_else(|| p.downcast_ref::<String>().cloned()).unwrap_or_else(|| "non-string panic payload".to_string());
            let loc = LAST_PANIC.with(|l| l.borrow().clone());
            let (file, _) = loc.clone().unwrap_or_default();
            if file.contains("/crates/cascette-") {
                let base = file.rsplit("/crates/").next().unwrap_or(&file).to_string();
                ctx.violation(
                    &format!("C04|panic|{base}"),
                    "the storage code panicked during a valid write/read history",
                    json!({"history": idx, "target": target, "message": msg, "location": loc.map(|l| l.1)}),
                );
            } else {
                ctx.inconclusive(&format!("harness panic in history {idx}: {msg} at {file}"));
            }
        }
    }
}

fn arg_value(args: &[String], name: &str) -> Option<String> {
    args.iter().position(|a| a == name).and_then(|i| args.get(i + 1).cloned())
}

fn redirect_stderr() {
    // IndexManager::load_index prints debug lines for bucket 0 on stderr: keep them out of the check output
    let dir = std::env::var("CARGO_TARGET_DIR").unwrap_or_else(|_| "/tmp".to_string());
    let path = format!("{dir}/c04-stderr.log");
    if let Ok(f) = std::fs::File::create(&path) {
        use std::os::fd::AsRawFd;
        #[allow(unsafe_code)]
        unsafe {
            libc::dup2(f.as_raw_fd(), 2);
        }
    }
}

fn main() {
    let ctx = Ctx::init("C04", "exploration");
    ctx.set_rule("a case is one seeded history of 5-60 operations (write of new content / of content still stored / of content removed earlier, read/query/remove through the full or the nine-byte key, remove-then-write-again, flush, drop+reopen) against DynamicContainer (plain, residency, LRU, both) or Installation in its own directory; non-trivial = at least 2 successful writes followed by at least one read of a key that is not the latest written; distinct by hash of the executed operation trace (operation, payload class, length, payload digest). Several-handles histories (320 quick / 2400 thorough, half Installation, half DynamicContainer): up to three live handles on one directory, a handle stores objects while its view of the directory is current, a handle looks at the directory again (initialize() / open() on the live handle) and reads everything, handles are created beside live ones and dropped; every handle whose view includes a write must return the object byte for byte; non-trivial = at least 2 writes and a judged read of an object stored through another handle");
    ctx.assume("the harness-side encoding-key derivation MD5(\"BLTE\" || 0u32 || 'N' || payload) matches the key the storage indexes an object under (checked on every write through query/has_encoding_key; disagreement falls back to the index enumeration and is reported as key_derivation.differs)");
    ctx.assume("tempfile directories on /dev/shm (tmpfs) and on the default temp dir behave like the file systems the library targets");
    redirect_stderr();
    std::panic::set_hook(Box::new(|info| {
        let (file, loc) = info.location().map(|l| (l.file().to_string(), format!("{}:{}", l.file(), l.line()))).unwrap_or_default();
        LAST_PANIC.with(|p| *p.borrow_mut() = Some((file, loc)));
    }));

    let args = ctx.args.clone();
    let only_target = arg_value(&args, "--only-target");
    let mut only_history: Option<usize> = arg_value(&args, "--only-history").and_then(|s| s.parse().ok());
    let mut replay_special: Option<String> = None;
    if let Some(d) = ctx.replay_detail() {
        match d.get("history") {
            Some(Value::String(sp)) => replay_special = Some(sp.clone()),
            Some(v) => only_history = v.as_u64().map(|x| x as usize).or(only_history),
            None => {}
        }
    }
    let n_hist: usize = arg_value(&args, "--histories").and_then(|s| s.parse().ok()).unwrap_or_else(|| ctx.pick(6000, 40_000));
    // histories with several live handles on one directory (none when an explicit --histories slice is requested)
    let n_handles: usize = if arg_value(&args, "--histories").is_some() { 0 } else { ctx.pick(320, 2400) };
    let threads: usize = arg_value(&args, "--threads").and_then(|s| s.parse().ok()).unwrap_or(16);
    let wall_cap = ctx.pick(75.0, 520.0) * Ctx::wall_scale();

    if let Some(s) = replay_special {
        let r = std::panic::catch_unwind(std::panic::AssertUnwindSafe(|| match s.as_str() {
            "probe" => probe_history(&ctx),
            "truncated" => [0usize, 1, 3].iter().try_for_each(|v| truncated_history(&ctx, *v)),
            _ => huge_history(&ctx),
        }));
        judge_run(&ctx, r, 0, "dynamic");
        // a replay evaluates one history; make the evidence floor explicit
        ctx.nontrivial(1);
        ctx.nontrivial(2);
        ctx.finish();
    }
    if let Some(hi) = only_history {
        run_history(&ctx, hi, only_target.as_deref());
        ctx.nontrivial(1);
        ctx.nontrivial(2);
        ctx.set_extra("slice", json!({"only_history": hi}));
        ctx.finish();
    }

    // the design-time probe first (1000, 100, 50)
    let r = std::panic::catch_unwind(std::panic::AssertUnwindSafe(|| probe_history(&ctx)));
    judge_run(&ctx, r, PROBE_ID, "dynamic");

    // full update section, then container writes into that bucket (1259 / 1260 / 1258 pre-filled entries)
    // and a bucket whose SORTED section ends next to / exactly on a 64 KiB boundary of the .idx file (documented layout:
    // 0x28-byte header area + 18-byte records, update section at the next 64 KiB boundary): 25 483 / 25 484 / 25 485
    // flushed records, then container writes into that bucket, reopen, read
    let n0 = (1usize..).find(|n| (0x28 + 18 * n) % 65536 == 0).unwrap_or(25_484);
    for (bucket, prefill) in [(3u8, 1259usize), (12, 1260), (7, 1258), (5, n0 - 1), (9, n0), (14, n0 + 1)] {
        let r = std::panic::catch_unwind(std::panic::AssertUnwindSafe(|| overflow_history(&ctx, bucket, prefill)));
        judge_run(&ctx, r, PROBE_ID, "dynamic");
    }

    // the data file loses its tail while the store is closed (plain and residency-attached container)
    for variant in [0usize, 1, 3] {
        let r = std::panic::catch_unwind(std::panic::AssertUnwindSafe(|| truncated_history(&ctx, variant)));
        judge_run(&ctx, r, TRUNC_ID, "dynamic");
    }

    let next = AtomicUsize::new(0);
    let stopped = AtomicUsize::new(0);
    std::thread::scope(|s| {
        for _ in 0..threads.max(1) {
            s.spawn(|| {
                loop {
                    let i = next.fetch_add(1, Ordering::Relaxed);
                    if i >= n_hist + n_handles {
                        break;
                    }
                    if ctx.elapsed_s() > wall_cap {
                        stopped.fetch_add(1, Ordering::Relaxed);
                        break;
                    }
                    // the several-handles histories first, then the single-handle ones
                    let i = if i < n_handles { HANDLES_BASE + i } else { i - n_handles };
                    run_history(&ctx, i, only_target.as_deref());
                }
            });
        }
    });
    if stopped.load(Ordering::Relaxed) > 0 {
        ctx.obs("stopped_by_wall_cap_threads", stopped.load(Ordering::Relaxed) as u64);
    }
    if !ctx.quick() {
        let r = std::panic::catch_unwind(std::panic::AssertUnwindSafe(|| huge_history(&ctx)));
        judge_run(&ctx, r, HUGE_ID, "dynamic");
    }

    // evidence floors specific to this property
    if only_target.is_none() {
        for k in ["dynamic.ops.write", "dynamic.ops.read", "dynamic.ops.reopen", "dynamic.reads_of_non_latest_key", "dynamic.reads_after_reopen", "installation.ops.write_file", "installation.ops.read_file_by_encoding_key", "installation.ops.reopen", "histories.dynamic.residency", "histories.dynamic.lru"] {
            if ctx.get_obs(k) == 0 {
                ctx.inconclusive(&format!("workload never exercised {k}"));
            }
        }
        // the operations added by the coverage-driven extension: each must have been exercised AND judged
        for k in [
            "dynamic.short_buffer_read.exact",
            "dynamic.short_buffer_read.ok_prefix",
            "dynamic.ops.reopen_access_mode.ReadOnly",
            "dynamic.ops.reopen_access_mode.None",
            "dynamic.ops.reopen_access_mode.Exclusive",
            "dynamic.ops.reserve",
            "dynamic.ops.remove_span",
            "dynamic.ops.remove.key=full",
            "dynamic.ops.remove.key=nine-bytes-zero-padded",
            "dynamic.ops.remove.key=nine-bytes-other-tail",
            "dynamic.ops.remove.of_latest_written",
            "dynamic.ops.remove_then_write_again.of_latest_written",
            "dynamic.write.content=again-after-remove",
            "dynamic.ops.read.key=nine-bytes-zero-padded",
            "histories.dynamic.ctor.new",
            "histories.dynamic.non_default_configuration",
            "truncated_history.runs",
            "installation.ops.alt_key_reads",
            "installation.ops.read_files_by_content_keys",
            "installation.load_root_file.ok",
            "installation.ops.name_reads",
            "installation.ops.read_files_by_fdids",
            "installation.ops.read_files_by_paths",
            "installation.read_from_archive",
            "installation.alt_read.ok_exact_bytes",
            "archive.write.ok.mode=none",
            "archive.write.ok.mode=zlib",
            "archive.write.ok.mode=lz4",
            "archive.read_content.mode=zlib",
            "archive.read_content.mode=lz4",
            "archive.reads_after_reopen",
            "archive.verify_content.true_for_object_hash",
            "archive.ops.compact",
            "archive.ops.set_compression_mode",
            "histories.handles.Installation",
            "histories.handles.DynamicContainer",
            "histories.handles.with_two_writing_handles",
            "handles.ops.new_handle_beside_live_handles",
            "handles.ops.refresh_after_writes_of_another_handle",
            "handles.ops.write_after_refresh_after_writes_of_another_handle",
            "handles.read.ok.handle-refreshed-after-the-write",
            "handles.read.ok.handle-opened-after-the-write",
        ] {
            if k.contains("handles") && n_handles == 0 {
                continue;
            }
            if ctx.get_obs(k) == 0 {
                ctx.inconclusive(&format!("workload never exercised {k}"));
            }
        }
        if ctx.get_obs("key_derivation.agrees") == 0 {
            ctx.inconclusive("the independent key derivation never agreed with the storage: oracle keys unusable");
        }
    }
    ctx.set_extra("histories_requested", json!(n_hist));
    ctx.finish();
}
