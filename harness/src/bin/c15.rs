//! C15 — what the Ribbit server emits, the Ribbit client reads back as the database says.
//!
//! Workload: generated build databases (hostile strings, numeric / non-numeric
//! `build`, optional fields on/off, 1–5 builds per product with RFC 3339
//! timestamps in mixed notations and UTC offsets) are loaded through the
//! server's own loading path (`BuildDatabase::from_file` / `AppState::new`).
//! Whatever the validator rejects is recorded and the rejected field is made
//! benign until the database is accepted. The REAL server (tcp::start_server,
//! http::start_server) is started in-process on loopback and queried by the
//! REAL clients (RibbitClient v1/v2, TactClient, RibbitTactClient) for every
//! product x {versions, cdns, bgdl} and for v1/summary.
//!
//! Oracle (independent of the server): the client-side result must be Ok and
//! every row must equal, column by column, the database record of a build of
//! the requested product whose timestamp denotes the latest *instant* (the
//! generator knows the instant of every timestamp by construction; ties are
//! allowed to resolve either way).
//!
//! Second part: hostile request lines from 8 concurrent connections while a
//! probe client keeps issuing valid requests; the probe must keep being
//! answered correctly, the server tasks must stay alive and must not panic.

use cascette_formats::bpsv::BpsvDocument;
use cascette_protocol::{CacheConfig, ClientConfig, ProtocolError, RibbitClient, RibbitTactClient, TactClient};
use cascette_ribbit::{AppState, BuildDatabase, BuildRecord, DatabaseError, ServerConfig};
use futures::StreamExt;
use serde_json::{Value, json};
use std::collections::{BTreeMap, BTreeSet};
use std::net::SocketAddr;
use std::sync::{Arc, Mutex};
use std::time::{Duration, Instant};
use tokio::io::{AsyncReadExt, AsyncWriteExt};
use tokio::net::TcpStream;
use vh::{Ctx, Rng, fnv64, mix64};

#[path = "c15/ext.rs"]
mod ext;

const DEFAULT_CDN_PATH: &str = "tpr/default";
const CDN_HOSTS: &str = "cdn.example.test edge.example.test";
const ENDPOINTS: [&str; 3] = ["versions", "cdns", "bgdl"];

// ---------------------------------------------------------------------------
// time: the generator builds timestamps from an instant, so the instant of
// every string is known by construction (no parser shared with the server).

fn civil_from_days(z: i64) -> (i64, u32, u32) {
    // Howard Hinnant's algorithm (proleptic Gregorian calendar)
    let z = z + 719_468;
    let era = z.div_euclid(146_097);
    let doe = z.rem_euclid(146_097);
    let yoe = (doe - doe / 1460 + doe / 36_524 - doe / 146_096) / 365;
    let y = yoe + era * 400;
    let doy = doe - (365 * yoe + yoe / 4 - yoe / 100);
    let mp = (5 * doy + 2) / 153;
    let d = (doy - (153 * mp + 2) / 5 + 1) as u32;
    let m = if mp < 10 { mp + 3 } else { mp - 9 } as u32;
    (if m <= 2 { y + 1 } else { y }, m, d)
}

/// Format `instant` (seconds since the epoch, UTC) + `nanos` as RFC 3339 local
/// time at `offset_min` minutes east of UTC.
fn format_rfc3339(instant_s: i64, nanos: u32, frac_digits: usize, offset_min: i32, zulu: u8) -> String {
    let local = instant_s + i64::from(offset_min) * 60;
    let days = local.div_euclid(86_400);
    let sod = local.rem_euclid(86_400);
    let (y, m, d) = civil_from_days(days);
    let mut s = format!("{y:04}-{m:02}-{d:02}T{:02}:{:02}:{:02}", sod / 3600, (sod / 60) % 60, sod % 60);
    if frac_digits > 0 {
        let full = format!("{nanos:09}");
        s.push('.');
        s.push_str(&full[..frac_digits]);
    }
    if offset_min == 0 && zulu == 1 {
        s.push('Z');
    } else if offset_min == 0 && zulu == 2 {
        s.push('z');
    } else if offset_min == 0 && zulu == 3 {
        s.push_str("-00:00");
    } else {
        let sign = if offset_min < 0 { '-' } else { '+' };
        let a = offset_min.abs();
        s.push_str(&format!("{sign}{:02}:{:02}", a / 60, a % 60));
    }
    s
}

#[derive(Clone, Debug)]
struct Stamp {
    text: String,
    /// nanoseconds since the epoch (what the text denotes)
    instant_ns: i128,
}

fn gen_stamp(rng: &mut Rng, base_s: i64, spread_s: i64, notation: u64) -> Stamp {
    let instant_s = base_s + rng.range(0, spread_s as u64) as i64;
    let (frac_digits, nanos) = match notation % 4 {
        0 | 1 => (0usize, 0u32),
        2 => {
            let digits = *rng.pick(&[1usize, 3, 6, 9]);
            let n = rng.below(1_000_000_000) as u32;
            let keep = 10u32.pow(9 - digits as u32);
            (digits, n / keep * keep)
        }
        _ => (3, 0),
    };
    let offsets: [i32; 14] = [0, 0, 60, -60, 120, 330, 345, -210, 540, -480, 840, -720, 765, -570];
    let offset_min = *rng.pick(&offsets);
    let zulu = rng.below(4) as u8;
    let text = format_rfc3339(instant_s, nanos, frac_digits, offset_min, zulu);
    Stamp { text, instant_ns: i128::from(instant_s) * 1_000_000_000 + i128::from(nanos) }
}

/// A stamp inside the second `instant_s`: a fraction written with 0-9 digits (leading and trailing zeros as they come), any offset notation.
fn gen_stamp_in_second(rng: &mut Rng, instant_s: i64) -> Stamp {
    let digits = rng.urange(0, 9);
    let nanos = if digits == 0 {
        0
    } else {
        let keep = 10u32.pow(9 - digits as u32);
        rng.below(1_000_000_000) as u32 / keep * keep
    };
    let offsets: [i32; 8] = [0, 0, 0, 60, 330, -210, 840, -720];
    let offset_min = *rng.pick(&offsets);
    let zulu = rng.below(4) as u8;
    Stamp { text: format_rfc3339(instant_s, nanos, digits, offset_min, zulu), instant_ns: i128::from(instant_s) * 1_000_000_000 + i128::from(nanos) }
}

// ---------------------------------------------------------------------------
// hostile strings

const STRING_CLASSES: [&str; 28] = [
    "non-ascii-dense",
    "pipe",
    "lf",
    "lf-lf",
    "cr",
    "crlf",
    "hash-lead",
    "hash-mid",
    "bang",
    "non-ascii",
    "lead-blank",
    "trail-blank",
    "trail-tab",
    "space-mid",
    "tab-mid",
    "long",
    "mime-lookalike",
    "checksum-lookalike",
    "boundary-lookalike",
    "slash",
    "percent",
    "question",
    "dot-segment",
    "backslash",
    "nul",
    "nbsp-lead",
    "u2028-mid",
    "seqn-lead",
];
const BUILD_CLASSES: [&str; 17] = [
    "i64-max",
    "i64-max+1",
    "u64-max",
    "u64-max+1",
    "non-numeric",
    "negative",
    "plus-sign",
    "leading-zero",
    "beyond-i64",
    "beyond-u32",
    "lead-blank",
    "trail-blank",
    "hex-like",
    "float",
    "pipe",
    "lf",
    "digits-non-ascii",
];
const KEYRING_CLASSES: [&str; 7] = ["valid-lower", "valid-upper", "non-hex-32", "short-even-hex", "odd-hex", "pipe", "empty"];
const CDN_PATH_EXTRA: [&str; 1] = ["empty"];
/// `product`, `version` and `build` left empty (coverage-driven extension: the validator's emptiness branches)
const EMPTY_FIELDS: [&str; 3] = ["product", "version", "build"];
/// Timestamps that are not RFC 3339 date-times. "Newest" is undefined for them, so they are only given to the ONLY build
/// of a product: whatever the server makes of the text, that build is the one to serve.
const TS_GARBAGE: [(&str, &str); 16] = [
    ("empty", ""),
    ("no-T", "2021-03-04 05:06:07Z"),
    ("T-and-colon-only", "T:"),
    ("no-offset", "2021-03-04T05:06:07"),
    ("month-13", "2021-13-04T05:06:07Z"),
    ("day-32", "2021-03-32T05:06:07Z"),
    ("hour-25", "2021-03-04T25:06:07Z"),
    ("second-60", "2021-03-04T23:59:60Z"),
    ("offset-99", "2021-03-04T05:06:07+99:99"),
    ("offset-no-colon", "2021-03-04T05:06:07+0530"),
    ("lowercase-t", "2021-03-04t05:06:07z"),
    ("trailing-junk", "2021-03-04T05:06:07Z and more"),
    ("digits-non-ascii", "\u{662}\u{660}\u{662}\u{661}-03-04T05:06:07Z"),
    ("year-5-digits", "12021-03-04T05:06:07Z"),
    ("fraction-only-dot", "2021-03-04T05:06:07.Z"),
    ("pipe", "2021-03-04T05:06:07Z|x"),
];

fn token(rng: &mut Rng, lo: usize, hi: usize) -> String {
    let n = rng.urange(lo, hi);
    (0..n).map(|_| *rng.pick(b"abcdefghijklmnopqrstuvwxyz0123456789_") as char).collect()
}

fn hex32(rng: &mut Rng) -> String {
    hex::encode(rng.array::<16>())
}

fn hostile_string(rng: &mut Rng, class: &str, long_len: usize) -> String {
    let a = token(rng, 2, 6);
    let b = token(rng, 1, 5);
    match class {
        "pipe" => format!("{a}|{b}"),
        "lf" => format!("{a}\n{b}"),
        "lf-lf" => format!("{a}\n\n{b}"),
        "cr" => format!("{a}\r{b}"),
        "crlf" => format!("{a}\r\n{b}"),
        "hash-lead" => format!("#{a}"),
        "hash-mid" => format!("{a}#{b}"),
        "bang" => format!("{a}!STRING:0{b}"),
        "non-ascii" => format!("w\u{f6}w-\u{30c6}\u{30b9}\u{30c8}-{a}"),
        // long run of 3-byte characters: wherever a reader cuts the reply at a fixed byte offset, it is likely inside a character
        "non-ascii-dense" => "\u{30c6}".repeat(200),
        "lead-blank" => format!(" {a}"),
        "trail-blank" => format!("{a} "),
        "trail-tab" => format!("{a}\t"),
        "space-mid" => format!("{a} {b}"),
        "tab-mid" => format!("{a}\t{b}"),
        "long" => {
            let mut s = String::new();
            while s.len() < long_len {
                s.push_str(&a);
                s.push('-');
            }
            s.truncate(long_len);
            s
        }
        "mime-lookalike" => format!("Content-Type: multipart/alternative {a}"),
        "checksum-lookalike" => format!("Checksum: {}{}", hex32(rng), hex32(rng)),
        "boundary-lookalike" => "--RibbitBoundary--".to_string(),
        "slash" => format!("{a}/{b}"),
        "percent" => format!("{a}%41{b}"),
        "question" => format!("{a}?{b}"),
        "dot-segment" => "..".to_string(),
        "backslash" => format!("{a}\\{b}"),
        "nul" => format!("{a}\0{b}"),
        "nbsp-lead" => format!("\u{a0}{a}"),
        "u2028-mid" => format!("{a}\u{2028}{b}"),
        "seqn-lead" => format!("## seqn = x{a}"),
        "empty" => String::new(),
        _ => a,
    }
}

fn hostile_build(rng: &mut Rng, class: &str) -> String {
    let n = rng.range(1, 99_999);
    match class {
        "non-numeric" => format!("b{}", token(rng, 1, 4)),
        "negative" => format!("-{n}"),
        "plus-sign" => format!("+{n}"),
        "leading-zero" => format!("00{n}"),
        "beyond-i64" => "99999999999999999999".to_string(),
        // the limits of the integer types a reader of a DEC column may use
        "i64-max" => i64::MAX.to_string(),
        "i64-max+1" => "9223372036854775808".to_string(),
        "u64-max" => u64::MAX.to_string(),
        "u64-max+1" => "18446744073709551616".to_string(),
        "beyond-u32" => "4294967296".to_string(),
        "lead-blank" => format!(" {n}"),
        "trail-blank" => format!("{n} "),
        "hex-like" => format!("0x{n:x}"),
        "float" => format!("{n}.5"),
        "pipe" => format!("{n}|1"),
        "lf" => format!("{n}\n1"),
        "digits-non-ascii" => "\u{664}\u{662}".to_string(), // Arabic-Indic digits "42"
        _ => n.to_string(),
    }
}

fn hostile_keyring(rng: &mut Rng, class: &str) -> Option<String> {
    Some(match class {
        "valid-lower" => hex32(rng),
        "valid-upper" => hex32(rng).to_uppercase(),
        "non-hex-32" => "zzzzzzzzzzzzzzzzzzzzzzzzzzzzzzzz".to_string(),
        "short-even-hex" => "abcd".to_string(),
        "odd-hex" => "abcde".to_string(),
        "pipe" => format!("{}|", &hex32(rng)[..31]),
        "empty" => String::new(),
        _ => return None,
    })
}

// ---------------------------------------------------------------------------
// database cases

#[derive(Clone, Debug)]
struct GenBuild {
    rec: BuildRecord,
    instant_ns: i128,
    /// field -> hostile class (only non-plain fields)
    cls: BTreeMap<&'static str, String>,
}

#[derive(Clone, Debug)]
struct DbCase {
    label: String,
    builds: Vec<GenBuild>,
    /// phase A: the single (field, class) under test; the product that carries it
    focus: Option<(String, String, String)>,
}

fn benign_build(rng: &mut Rng, id: u64, product: &str, stamp: Stamp) -> GenBuild {
    let n = rng.range(1, 99_999);
    GenBuild {
        rec: BuildRecord {
            id,
            product: product.to_string(),
            version: format!("{}.{}.{}.{n}", rng.range(1, 11), rng.range(0, 20), rng.range(0, 9)),
            build: n.to_string(),
            build_config: hex32(rng),
            cdn_config: hex32(rng),
            keyring: None,
            product_config: None,
            build_time: stamp.text,
            encoding_ekey: hex32(rng),
            root_ekey: hex32(rng),
            install_ekey: hex32(rng),
            download_ekey: hex32(rng),
            cdn_path: None,
        },
        instant_ns: stamp.instant_ns,
        cls: BTreeMap::new(),
    }
}

fn set_field(rng: &mut Rng, b: &mut GenBuild, field: &'static str, class: &str) {
    match field {
        "product" => b.rec.product = hostile_string(rng, class, 300),
        "version" => {
            b.rec.version = hostile_string(rng, class, 3000);
            if class == "non-ascii-dense" {
                // fixed-width build number so that the byte offset of the run is the same for every seed
                b.rec.build = format!("4{:04}", rng.range(0, 9999));
            }
        }
        "cdn_path" => b.rec.cdn_path = Some(hostile_string(rng, class, 1200)),
        "build" => b.rec.build = if class == "empty" { String::new() } else { hostile_build(rng, class) },
        "keyring" => b.rec.keyring = hostile_keyring(rng, class),
        "build_time" => b.rec.build_time = TS_GARBAGE.iter().find(|(c, _)| *c == class).map_or_else(String::new, |(_, t)| (*t).to_string()),
        _ => {}
    }
    b.cls.insert(field, class.to_string());
}

/// Replace a rejected field by a benign value (the database is then re-submitted).
fn make_benign(rng: &mut Rng, b: &mut GenBuild, field: &str, unique: u64) {
    match field {
        "product" => {
            b.rec.product = format!("prod_{unique}");
            b.cls.remove("product");
        }
        "version" => {
            b.rec.version = format!("1.0.0.{}", rng.range(1, 99_999));
            b.cls.remove("version");
        }
        "build" => {
            b.rec.build = rng.range(1, 99_999).to_string();
            b.cls.remove("build");
        }
        "keyring" => {
            b.rec.keyring = None;
            b.cls.remove("keyring");
        }
        "cdn_path" => {
            b.rec.cdn_path = None;
            b.cls.remove("cdn_path");
        }
        "build_time" => {
            b.rec.build_time = format_rfc3339((b.instant_ns / 1_000_000_000) as i64, 0, 0, 0, 0);
            b.instant_ns = b.instant_ns / 1_000_000_000 * 1_000_000_000;
            b.cls.remove("build_time");
        }
        _ => {}
    }
}

const BASE_EPOCH: i64 = 1_577_836_800; // 2020-01-01T00:00:00Z

fn phase_a_cases(rng: &mut Rng) -> Vec<DbCase> {
    let mut cases = Vec::new();
    let mut id = 1u64;
    let mut add_single = |rng: &mut Rng, field: &'static str, class: &str, cases: &mut Vec<DbCase>| {
        let mut builds = Vec::new();
        let base = BASE_EPOCH + rng.range(0, 400_000_000) as i64;
        // control product: one benign build
        let s = gen_stamp(rng, base, 1000, 0);
        builds.push(benign_build(rng, id, "control_prod", s));
        id += 1;
        // subject product: an older benign build and the newest build carrying the hostile field
        let subject = format!("subj_{}", token(rng, 3, 5));
        let s_old = Stamp { text: format_rfc3339(base, 0, 0, 0, 0), instant_ns: i128::from(base) * 1_000_000_000 };
        let mut old = benign_build(rng, id, &subject, s_old);
        id += 1;
        let s_new = Stamp { text: format_rfc3339(base + 86_400 * 40, 0, 0, 0, 0), instant_ns: i128::from(base + 86_400 * 40) * 1_000_000_000 };
        let mut new = benign_build(rng, id, &subject, s_new);
        id += 1;
        set_field(rng, &mut new, field, class);
        if field == "product" {
            // the older build belongs to the same (hostile) product name
            old.rec.product = new.rec.product.clone();
            old.cls.insert("product", class.to_string());
        }
        let subject_name = new.rec.product.clone();
        builds.push(old);
        builds.push(new);
        cases.push(DbCase { label: format!("A:{field}:{class}"), builds, focus: Some((field.to_string(), class.to_string(), subject_name)) });
    };
    for f in ["product", "version", "cdn_path"] {
        for c in STRING_CLASSES {
            add_single(rng, f, c, &mut cases);
        }
    }
    for c in CDN_PATH_EXTRA {
        add_single(rng, "cdn_path", c, &mut cases);
    }
    for c in BUILD_CLASSES {
        add_single(rng, "build", c, &mut cases);
    }
    for c in KEYRING_CLASSES {
        add_single(rng, "keyring", c, &mut cases);
    }
    for f in EMPTY_FIELDS {
        add_single(rng, f, "empty", &mut cases);
    }
    // a product whose only build carries a timestamp that is not an RFC 3339 date-time
    for (class, _) in TS_GARBAGE {
        let base = BASE_EPOCH + rng.range(0, 400_000_000) as i64;
        let s = gen_stamp(rng, base, 1000, 0);
        let control = benign_build(rng, id, "control_prod", s);
        id += 1;
        let subject = format!("subj_{}", token(rng, 3, 5));
        let s1 = Stamp { text: String::new(), instant_ns: i128::from(base) * 1_000_000_000 };
        let mut only = benign_build(rng, id, &subject, s1);
        id += 1;
        set_field(rng, &mut only, "build_time", class);
        cases.push(DbCase { label: format!("A:build_time:{class}"), builds: vec![control, only], focus: Some(("build_time".to_string(), class.to_string(), subject)) });
    }
    // timestamp pairs: the older-by-instant build is made to look newer as a string
    // a stamp is (delta_s, offset_min, zulu, fraction digits, nanoseconds)
    type PairStamp = (i64, i32, u8, usize, u32);
    let ts_pairs: [(&str, PairStamp, PairStamp); 13] = [
        // (class, newest, older)
        ("east-offset-looks-later", (3600 * 4, 0, 0, 0, 0), (3600, 540, 0, 0, 0)),
        ("west-offset-looks-earlier", (3600 * 20, -480, 0, 0, 0), (3600 * 18, 0, 0, 0, 0)),
        ("z-vs-numeric-offset", (10, 0, 0, 0, 0), (5, 0, 1, 0, 0)),
        ("fraction-vs-none", (100, 0, 1, 0, 0), (99, 0, 1, 3, 500_000_000)),
        ("day-boundary-offset", (86_400 + 600, -720, 0, 0, 0), (86_400 - 600, 840, 0, 0, 0)),
        ("same-notation-control", (7200, 0, 0, 0, 0), (3600, 0, 0, 0, 0)),
        // both builds within ONE second: only the fractional seconds decide, and a fraction is a decimal fraction however
        // many digits it is written with (.5 > .25, .3 > .050, .1 > .09)
        ("same-second|fraction-1-digit-later-than-2-digits", (10, 0, 1, 1, 500_000_000), (10, 0, 1, 2, 250_000_000)),
        ("same-second|fraction-2-digits-later-than-1-digit", (10, 0, 1, 2, 250_000_000), (10, 0, 1, 1, 100_000_000)),
        ("same-second|fraction-1-digit-later-than-3-digits-leading-zero", (10, 0, 0, 1, 300_000_000), (10, 0, 0, 3, 50_000_000)),
        ("same-second|fraction-3-digits-later-than-9-digits", (10, 0, 1, 3, 124_000_000), (10, 0, 1, 9, 123_456_789)),
        ("same-second|fraction-6-digits-leading-zeros-later-than-none", (10, 0, 1, 6, 1_000), (10, 0, 1, 0, 0)),
        ("same-second|fraction-1-digit-later-than-6-digits|offsets-differ", (10, 330, 0, 1, 700_000_000), (10, -210, 0, 6, 699_999_000)),
        ("same-second|fraction-9-digits-later-than-1-digit|offsets-differ", (10, 0, 2, 9, 400_000_001), (10, 840, 0, 1, 400_000_000)),
    ];
    // every pair once alone and once in a database in which ANOTHER product's only build carries a timestamp that is not
    // an RFC 3339 date-time: what is newest for one product must not depend on the other products in the file
    let mut pair_cases: Vec<(&str, PairStamp, PairStamp, Option<&str>)> = Vec::new();
    for (i, (class, newest, older)) in ts_pairs.iter().enumerate() {
        pair_cases.push((class, *newest, *older, None));
        pair_cases.push((class, *newest, *older, Some(TS_GARBAGE[i % TS_GARBAGE.len()].0)));
    }
    for (class, newest, older, foreign) in pair_cases {
        let mut builds = Vec::new();
        let base = BASE_EPOCH + rng.range(0, 400_000_000) as i64 / 86_400 * 86_400;
        let s = gen_stamp(rng, base, 1000, 0);
        builds.push(benign_build(rng, id, "control_prod", s));
        id += 1;
        if let Some(garbage) = foreign {
            let s1 = Stamp { text: String::new(), instant_ns: i128::from(base) * 1_000_000_000 };
            let other_name = format!("other_{}", token(rng, 3, 5));
            let mut other = benign_build(rng, id, &other_name, s1);
            id += 1;
            set_field(rng, &mut other, "build_time", garbage);
            if rng.bool() {
                builds.insert(0, other);
            } else {
                builds.push(other);
            }
        }
        let class_owned = if foreign.is_some() { format!("{class}+another-product-with-a-non-rfc3339-timestamp") } else { class.to_string() };
        let class = class_owned.as_str();
        let subject = format!("subj_{}", token(rng, 3, 5));
        let mk = |(delta, off, zulu, frac, nanos): PairStamp| {
            // the text must denote the instant exactly: no digit is cut off
            debug_assert!(if frac == 0 { nanos == 0 } else { nanos % 10u32.pow(9 - frac as u32) == 0 });
            Stamp { text: format_rfc3339(base + delta, nanos, frac, off, zulu), instant_ns: i128::from(base + delta) * 1_000_000_000 + i128::from(nanos) }
        };
        // order in the file: newest first or last, alternately
        let mut a = benign_build(rng, id, &subject, mk(newest));
        id += 1;
        let mut b = benign_build(rng, id, &subject, mk(older));
        id += 1;
        a.cls.insert("build_time", class.to_string());
        b.cls.insert("build_time", class.to_string());
        if rng.bool() {
            builds.push(a);
            builds.push(b);
        } else {
            builds.push(b);
            builds.push(a);
        }
        cases.push(DbCase { label: format!("A:build_time:{class}"), builds, focus: Some(("build_time".to_string(), class.to_string(), subject)) });
    }
    cases
}

fn phase_b_case(rng: &mut Rng, idx: usize, hostile_pct: u64) -> DbCase {
    let mut builds = Vec::new();
    let nprod = rng.urange(1, 4);
    let mut id = 1u64;
    let base = BASE_EPOCH + rng.range(0, 400_000_000) as i64;
    for p in 0..nprod {
        let nb = rng.urange(1, 5);
        let mut product = format!("p{p}_{}", token(rng, 2, 6));
        let mut pclass: Option<String> = None;
        if rng.chance(hostile_pct, 100) {
            let c = *rng.pick(&STRING_CLASSES);
            product = hostile_string(rng, c, 300);
            pclass = Some(c.to_string());
        }
        // instants close together so that notation decides the string order
        let spread = *rng.pick(&[30i64, 3600, 86_400, 86_400 * 3]);
        let notation = rng.below(4);
        let tie = nb >= 2 && rng.chance(1, 6);
        let mut stamps: Vec<Stamp> = (0..nb)
            .map(|_| {
                let n = if rng.chance(1, 3) { notation } else { rng.below(4) };
                gen_stamp(rng, base, spread, n)
            })
            .collect();
        if nb >= 2 && !tie && rng.chance(1, 4) {
            // all builds of the product within one second: only the fractional seconds (0-9 digits, any notation) tell them apart
            let second = base + rng.range(0, spread as u64) as i64;
            stamps = (0..nb).map(|_| gen_stamp_in_second(rng, second)).collect();
        }
        if tie {
            // two builds denoting the same instant in different notations
            let s0 = (stamps[0].instant_ns / 1_000_000_000) as i64;
            stamps[0] = Stamp { text: format_rfc3339(s0, 0, 0, 0, 1), instant_ns: i128::from(s0) * 1_000_000_000 };
            stamps[1] = Stamp { text: format_rfc3339(s0, 0, 0, 330, 0), instant_ns: i128::from(s0) * 1_000_000_000 };
        }
        for s in stamps {
            let mut b = benign_build(rng, id, &product, s);
            id += 1;
            if let Some(c) = &pclass {
                b.cls.insert("product", c.clone());
            }
            if rng.chance(hostile_pct, 100) {
                let c = *rng.pick(&STRING_CLASSES);
                set_field(rng, &mut b, "version", c);
            }
            if rng.chance(hostile_pct, 100) {
                let c = *rng.pick(&BUILD_CLASSES);
                set_field(rng, &mut b, "build", c);
            }
            if rng.chance(40, 100) {
                if rng.chance(hostile_pct, 100) {
                    let c = *rng.pick(&KEYRING_CLASSES);
                    set_field(rng, &mut b, "keyring", c);
                } else {
                    b.rec.keyring = Some(hex32(rng));
                }
            }
            if rng.chance(40, 100) {
                b.rec.product_config = Some(hex32(rng));
            }
            if rng.chance(40, 100) {
                if rng.chance(hostile_pct, 100) {
                    let c = *rng.pick(&STRING_CLASSES);
                    set_field(rng, &mut b, "cdn_path", c);
                } else {
                    b.rec.cdn_path = Some(format!("tpr/{}", token(rng, 2, 8)));
                }
            }
            builds.push(b);
        }
    }
    rng.shuffle(&mut builds);
    DbCase { label: format!("B:{idx}"), builds, focus: None }
}

// ---------------------------------------------------------------------------
// requestability (derived from the request grammar and the URL standard, not
// from the server): can the real client put this product into a request that
// the grammar calls well-formed?

fn tcp_requestable(product: &str) -> bool {
    // v{1,2}/products/<product>/<endpoint> CRLF  — four '/'-separated segments on one line
    !product.is_empty() && !product.contains(['/', '\r', '\n'])
}

fn http_requestable(product: &str) -> bool {
    // TactClient concatenates base + "/<product>/<endpoint>" and hands the string to the
    // URL parser: '/', '?', '#', '\\' are delimiters, '%' starts an escape, ASCII tab/newline
    // are stripped, "." / ".." are dot segments.
    !product.is_empty()
        && !product.contains(['/', '?', '#', '\\', '%', '\t', '\r', '\n'])
        && product != "."
        && product != ".."
}

// ---------------------------------------------------------------------------
// server

struct Servers {
    tcp: SocketAddr,
    http: SocketAddr,
    tcp_task: tokio::task::JoinHandle<()>,
    http_task: tokio::task::JoinHandle<()>,
    exited: Arc<Mutex<Vec<String>>>,
}

impl Drop for Servers {
    fn drop(&mut self) {
        self.tcp_task.abort();
        self.http_task.abort();
    }
}

fn free_port() -> Option<u16> {
    let l = std::net::TcpListener::bind("127.0.0.1:0").ok()?;
    l.local_addr().ok().map(|a| a.port())
}

async fn start_one(state: Arc<AppState>, http: bool, exited: Arc<Mutex<Vec<String>>>) -> Option<(SocketAddr, tokio::task::JoinHandle<()>)> {
    for _attempt in 0..20 {
        let port = free_port()?;
        let addr: SocketAddr = format!("127.0.0.1:{port}").parse().ok()?;
        let st = state.clone();
        let ex = exited.clone();
        let bound_failed = Arc::new(std::sync::atomic::AtomicBool::new(false));
        let bf = bound_failed.clone();
        let task = tokio::spawn(async move {
            let r = if http { cascette_ribbit::http::start_server(addr, st).await } else { cascette_ribbit::tcp::start_server(addr, st).await };
            // start_server only returns on failure
            let msg = match r {
                Ok(()) => "returned Ok".to_string(),
                Err(e) => e.to_string(),
            };
            if msg.contains("bind") || msg.contains("Bind") || msg.contains("in use") {
                bf.store(true, std::sync::atomic::Ordering::SeqCst);
            } else {
                ex.lock().unwrap_or_else(std::sync::PoisonError::into_inner).push(format!("{}: {msg}", if http { "http" } else { "tcp" }));
            }
        });
        // readiness: our task still runs (=> its bind succeeded) and the port accepts
        let t0 = Instant::now();
        let mut ready = false;
        while t0.elapsed() < Duration::from_secs(5) {
            tokio::time::sleep(Duration::from_millis(5)).await;
            if task.is_finished() {
                break;
            }
            if TcpStream::connect(addr).await.is_ok() {
                tokio::time::sleep(Duration::from_millis(5)).await;
                if !task.is_finished() {
                    ready = true;
                }
                break;
            }
        }
        if ready {
            return Some((addr, task));
        }
        task.abort();
        let _ = bound_failed;
    }
    None
}

async fn start_servers(state: Arc<AppState>) -> Option<Servers> {
    let exited = Arc::new(Mutex::new(Vec::new()));
    let (tcp, tcp_task) = start_one(state.clone(), false, exited.clone()).await?;
    let (http, http_task) = start_one(state, true, exited.clone()).await?;
    Some(Servers { tcp, http, tcp_task, http_task, exited })
}

fn write_db(dir: &std::path::Path, recs: &[BuildRecord]) -> Option<std::path::PathBuf> {
    let p = dir.join("builds.json");
    let bytes = serde_json::to_vec(recs).ok()?;
    std::fs::write(&p, bytes).ok()?;
    Some(p)
}

fn server_config(path: &std::path::Path) -> ServerConfig {
    ServerConfig {
        http_bind: "127.0.0.1:0".parse().unwrap_or_else(|_| SocketAddr::from(([127, 0, 0, 1], 0))),
        tcp_bind: "127.0.0.1:0".parse().unwrap_or_else(|_| SocketAddr::from(([127, 0, 0, 1], 0))),
        builds: path.to_path_buf(),
        cdn_hosts: CDN_HOSTS.to_string(),
        cdn_path: DEFAULT_CDN_PATH.to_string(),
        tls_cert: None,
        tls_key: None,
    }
}

// ---------------------------------------------------------------------------
// judging

fn err_class(e: &ProtocolError) -> String {
    match e {
        ProtocolError::Parse(_) => "client-parse-error".to_string(),
        ProtocolError::HttpStatus(s) => format!("http-status-{}", s.as_u16()),
        ProtocolError::ServerError(s) => format!("http-status-{}", s.as_u16()),
        ProtocolError::Http(_) => "http-client-error".to_string(),
        ProtocolError::Network(_) => "network-error".to_string(),
        ProtocolError::Timeout => "client-timeout".to_string(),
        ProtocolError::InvalidEndpoint(_) => "invalid-endpoint".to_string(),
        _ => "client-other-error".to_string(),
    }
}

/// `default_path` = the CDN path of the server configuration (used by builds without a path of their own)
fn expected_row_d(endpoint: &str, b: &BuildRecord, default_path: &str) -> Vec<(&'static str, String)> {
    if endpoint == "cdns" {
        let p = b.cdn_path.clone().unwrap_or_else(|| default_path.to_string());
        vec![("Path", p.clone()), ("ConfigPath", p)]
    } else {
        vec![
            ("BuildConfig", b.build_config.clone()),
            ("CDNConfig", b.cdn_config.clone()),
            ("KeyRing", b.keyring.clone().unwrap_or_default()),
            ("BuildId", b.build.clone()),
            ("VersionsName", b.version.clone()),
            ("ProductConfig", b.product_config.clone().unwrap_or_default()),
        ]
    }
}

/// None = row equals the record; Some(col) = first differing / missing column
fn row_diff(doc: &BpsvDocument, row_idx: usize, expect: &[(&'static str, String)]) -> Option<String> {
    let schema = doc.schema();
    let row = doc.get_row(row_idx)?;
    for (col, val) in expect {
        match row.get_raw_by_name(col, schema) {
            Some(got) if got == val => {}
            Some(_) => return Some((*col).to_string()),
            None => return Some(format!("{col}(missing)")),
        }
    }
    None
}

#[derive(Debug, Clone)]
struct Fail {
    outcome: String,
    detail: Value,
}

fn judge_product(doc: &BpsvDocument, endpoint: &str, all: &[&GenBuild], newest: &[&GenBuild]) -> Result<(), Fail> {
    judge_product_d(doc, endpoint, all, newest, DEFAULT_CDN_PATH)
}

fn judge_product_d(doc: &BpsvDocument, endpoint: &str, all: &[&GenBuild], newest: &[&GenBuild], default_path: &str) -> Result<(), Fail> {
    if doc.rows().is_empty() {
        return Err(Fail { outcome: "no-rows".into(), detail: json!({}) });
    }
    for i in 0..doc.row_count() {
        if newest.iter().any(|b| row_diff(doc, i, &expected_row_d(endpoint, &b.rec, default_path)).is_none()) {
            continue;
        }
        if let Some(stale) = all.iter().find(|b| row_diff(doc, i, &expected_row_d(endpoint, &b.rec, default_path)).is_none()) {
            // which build would plain string order have called the newest?
            let string_max = all.iter().max_by(|a, b| a.rec.build_time.cmp(&b.rec.build_time));
            let why = if string_max.is_some_and(|m| row_diff(doc, i, &expected_row_d(endpoint, &m.rec, default_path)).is_none()) { "string-order-differs-from-instant-order" } else { "other-order" };
            return Err(Fail {
                outcome: format!("stale-build|{why}"),
                detail: json!({"row": i, "served_build_id": stale.rec.id, "served_build_time": stale.rec.build_time,
                    "newest_build_ids": newest.iter().map(|b| b.rec.id).collect::<Vec<_>>(),
                    "newest_build_times": newest.iter().map(|b| b.rec.build_time.clone()).collect::<Vec<_>>()}),
            });
        }
        let col = row_diff(doc, i, &expected_row_d(endpoint, &newest[0].rec, default_path)).unwrap_or_default();
        let got: Vec<String> = doc.get_row(i).map(|r| r.raw_values().to_vec()).unwrap_or_default();
        return Err(Fail {
            outcome: format!("field-mismatch:{col}"),
            detail: json!({"row": i, "got_row": got, "expected": expected_row_d(endpoint, &newest[0].rec, default_path).iter().map(|(c, v)| json!({"col": c, "val": v})).collect::<Vec<_>>()}),
        });
    }
    Ok(())
}

fn judge_summary(doc: &BpsvDocument, products: &BTreeSet<String>) -> Result<(), Fail> {
    let schema = doc.schema();
    let mut got: Vec<String> = Vec::new();
    for r in doc.rows() {
        match r.get_raw_by_name("Product", schema) {
            Some(p) => got.push(p.to_string()),
            None => return Err(Fail { outcome: "field-mismatch:Product(missing)".into(), detail: json!({}) }),
        }
    }
    got.sort();
    let want: Vec<String> = products.iter().cloned().collect();
    if got == want {
        Ok(())
    } else {
        Err(Fail { outcome: "summary-products-differ".into(), detail: json!({"got": got, "want": want}) })
    }
}

// ---------------------------------------------------------------------------
// running one database

struct Clients {
    ribbit: RibbitClient,
    tact: TactClient,
    unified: RibbitTactClient,
    unified_tcp: RibbitTactClient,
}

fn make_clients(s: &Servers) -> Result<Clients, String> {
    let tcp_url = format!("tcp://127.0.0.1:{}", s.tcp.port());
    let http_url = format!("http://127.0.0.1:{}", s.http.port());
    let ribbit = RibbitClient::new(tcp_url.clone()).map_err(|e| e.to_string())?;
    let tact = TactClient::new(http_url.clone(), false).map_err(|e| e.to_string())?;
    let unified = RibbitTactClient::new(ClientConfig {
        tact_https_url: http_url,
        tact_http_url: String::new(),
        ribbit_url: tcp_url.clone(),
        cache_config: CacheConfig::memory_optimized(),
        ..ClientConfig::default()
    })
    .map_err(|e| e.to_string())?;
    let unified_tcp = RibbitTactClient::new(ClientConfig {
        tact_https_url: String::new(),
        tact_http_url: String::new(),
        ribbit_url: tcp_url,
        cache_config: CacheConfig::memory_optimized(),
        ..ClientConfig::default()
    })
    .map_err(|e| e.to_string())?;
    Ok(Clients { ribbit, tact, unified, unified_tcp })
}

#[derive(Clone, Copy, PartialEq, Eq, PartialOrd, Ord, Debug)]
enum Tr {
    TcpV1,
    TcpV2,
    Http,
    Unified,
    UnifiedTcp,
}

impl Tr {
    fn name(self) -> &'static str {
        match self {
            Tr::TcpV1 => "tcp-v1",
            Tr::TcpV2 => "tcp-v2",
            Tr::Http => "http",
            Tr::Unified => "unified-http-first",
            Tr::UnifiedTcp => "unified-tcp-only",
        }
    }
}

enum QueryOutcome {
    Doc(BpsvDocument),
    Err(ProtocolError),
    /// the client code panicked while handling the reply
    Panicked,
    /// the harness watchdog fired or the transport failed for reasons unrelated to the reply
    Unjudgeable(String),
}

async fn query(ctx: &Ctx, c: &Clients, tr: Tr, path_v1: &str, path_v2: &str) -> QueryOutcome {
    let mut last = String::new();
    for attempt in 0..3 {
        let fut = async {
            match tr {
                Tr::TcpV1 => c.ribbit.query(path_v1).await,
                Tr::TcpV2 => c.ribbit.query(path_v2).await,
                Tr::Http => c.tact.query(path_v1).await,
                Tr::Unified => c.unified.query(path_v1).await,
                Tr::UnifiedTcp => c.unified_tcp.query(path_v1).await,
            }
        };
        let fut = futures::FutureExt::catch_unwind(std::panic::AssertUnwindSafe(fut));
        let res = match tokio::time::timeout(Duration::from_secs(45), fut).await {
            Ok(Ok(r)) => Ok(r),
            Ok(Err(_panic)) => return QueryOutcome::Panicked,
            Err(e) => Err(e),
        };
        match res {
            Ok(Ok(doc)) => return QueryOutcome::Doc(doc),
            Ok(Err(e)) => {
                // transport-level trouble is retried; a deterministic answer is not
                let transient = matches!(e, ProtocolError::Network(_) | ProtocolError::Timeout | ProtocolError::Http(_));
                if !transient {
                    return QueryOutcome::Err(e);
                }
                last = format!("{}: {e}", err_class(&e));
                ctx.obs(&format!("transient.{}.{}", tr.name(), err_class(&e)), 1);
                if attempt == 2 {
                    // a persistent reqwest/io error: reported, but as an error class of its own
                    return QueryOutcome::Err(e);
                }
                tokio::time::sleep(Duration::from_millis(50 * (attempt + 1))).await;
            }
            Err(_) => {
                last = "harness watchdog (45 s)".to_string();
                ctx.obs(&format!("watchdog.{}", tr.name()), 1);
            }
        }
    }
    QueryOutcome::Unjudgeable(last)
}

/// (endpoint, cause) -> signature, learnt in phase A and used to explain phase B failures
type Implicated = Mutex<BTreeMap<(String, String, String), String>>;

struct Accepted {
    builds: Vec<GenBuild>,
    rejections: Vec<(String, String)>,
}

/// Submit the database to the server's own loader; make rejected fields benign until accepted.
fn load_with_repair(ctx: &Ctx, rng: &mut Rng, case: &DbCase, dir: &std::path::Path) -> Result<Accepted, String> {
    let mut builds = case.builds.clone();
    let mut rejections = Vec::new();
    for round in 0..200u64 {
        let recs: Vec<BuildRecord> = builds.iter().map(|b| b.rec.clone()).collect();
        let path = write_db(dir, &recs).ok_or("cannot write builds.json")?;
        match BuildDatabase::from_file(&path) {
            Ok(_) => return Ok(Accepted { builds, rejections }),
            Err(DatabaseError::InvalidField { field, build_id, .. }) => {
                let Some(b) = builds.iter_mut().find(|b| b.rec.id == build_id) else {
                    return Err(format!("validator named unknown build id {build_id}"));
                };
                let class = b.cls.get(field.as_str()).cloned().unwrap_or_else(|| "plain".to_string());
                ctx.obs(&format!("validator.rejected.{field}.{class}"), 1);
                if class == "plain" {
                    return Err(format!("validator rejected a benign {field} of build {build_id}: {:?}", b.rec));
                }
                rejections.push((field.clone(), class));
                if field == "product" {
                    // all builds of that product are renamed together
                    let old = b.rec.product.clone();
                    for (i, x) in builds.iter_mut().enumerate() {
                        if x.rec.product == old {
                            let _ = i;
                            make_benign(rng, x, "product", fnv64(old.as_bytes()) % 100_000 + round);
                        }
                    }
                } else {
                    make_benign(rng, b, &field, round);
                }
            }
            Err(e) => return Err(format!("loader error that is not a field rejection: {e}")),
        }
    }
    Err("database still rejected after 200 repairs".to_string())
}

fn cause_pairs(b: &GenBuild) -> Vec<(String, String)> {
    b.cls.iter().map(|(f, c)| ((*f).to_string(), c.clone())).collect()
}

#[allow(clippy::too_many_lines)]
async fn run_db(ctx: &Ctx, case: DbCase, implicated: &Implicated, stream: u64) {
    let mut rng = ctx.rng(stream);
    let Ok(dir) = tempfile::tempdir() else {
        ctx.inconclusive("cannot create temp dir");
        return;
    };
    let acc = match load_with_repair(ctx, &mut rng, &case, dir.path()) {
        Ok(a) => a,
        Err(e) => {
            ctx.inconclusive(&format!("database generation/repair failed: {e}"));
            return;
        }
    };
    if !acc.rejections.is_empty() {
        ctx.obs("db.accepted_after_repair", 1);
    } else {
        ctx.obs("db.accepted_as_generated", 1);
    }
    let path = dir.path().join("builds.json");
    let state = match AppState::new(&server_config(&path)) {
        Ok(s) => Arc::new(s),
        Err(e) => {
            ctx.inconclusive(&format!("AppState::new failed on a database BuildDatabase::from_file accepted: {e}"));
            return;
        }
    };
    let Some(servers) = start_servers(state).await else {
        ctx.inconclusive("could not start loopback servers");
        return;
    };
    let clients = match make_clients(&servers) {
        Ok(c) => c,
        Err(e) => {
            ctx.inconclusive(&format!("client construction failed: {e}"));
            return;
        }
    };

    // independent "newest": by instant
    let mut by_product: BTreeMap<String, Vec<&GenBuild>> = BTreeMap::new();
    for b in &acc.builds {
        by_product.entry(b.rec.product.clone()).or_default().push(b);
    }
    let products: BTreeSet<String> = by_product.keys().cloned().collect();
    let hostile_fields: usize = acc.builds.iter().map(|b| b.cls.len()).sum();
    let multi = by_product.values().any(|v| v.len() >= 2);
    let db_hash = fnv64(serde_json::to_string(&acc.builds.iter().map(|b| &b.rec).collect::<Vec<_>>()).unwrap_or_default().as_bytes());
    if hostile_fields > 0 || multi {
        ctx.eval_nontrivial(db_hash);
    } else {
        ctx.eval();
    }
    ctx.obs("db.products", products.len() as u64);
    ctx.obs("db.builds", acc.builds.len() as u64);
    ctx.obs("db.hostile_fields_accepted", hostile_fields as u64);
    for b in &acc.builds {
        for (f, c) in &b.cls {
            ctx.obs(&format!("accepted.{f}.{c}"), 1);
        }
    }
    if ctx.want_sample() && hostile_fields > 0 {
        ctx.sample(json!({"kind":"accepted database","label":case.label,"records":acc.builds.iter().map(|b| json!({"product":b.rec.product,"version":b.rec.version,"build":b.rec.build,"keyring":b.rec.keyring,"cdn_path":b.rec.cdn_path,"build_time":b.rec.build_time})).collect::<Vec<_>>() }));
    }

    let db_json = || json!(acc.builds.iter().map(|b| serde_json::to_value(&b.rec).unwrap_or(Value::Null)).collect::<Vec<_>>());

    for (product, all) in &by_product {
        let max = all.iter().map(|b| b.instant_ns).max().unwrap_or(0);
        let newest: Vec<&GenBuild> = all.iter().copied().filter(|b| b.instant_ns == max).collect();
        if newest.len() > 1 {
            ctx.obs("newest.tie_on_instant", 1);
        }
        let string_max = all.iter().max_by(|a, b| a.rec.build_time.cmp(&b.rec.build_time)).map(|b| b.instant_ns);
        if all.len() > 1 && string_max != Some(max) {
            ctx.obs("newest.string_order_differs_from_instant_order", 1);
        }
        if all.iter().any(|b| b.instant_ns != max && b.instant_ns.div_euclid(1_000_000_000) == max.div_euclid(1_000_000_000)) {
            ctx.obs("newest.decided_by_fractional_seconds", 1);
        }
        let tcp_ok = tcp_requestable(product);
        let http_ok = http_requestable(product);
        let pclass = all[0].cls.get("product").cloned().unwrap_or_else(|| "plain".to_string());
        if !tcp_ok {
            ctx.obs(&format!("unrequestable.tcp.product.{pclass}"), 1);
        }
        if !http_ok {
            ctx.obs(&format!("unrequestable.http.product.{pclass}"), 1);
        }
        for endpoint in ENDPOINTS {
            let p1 = format!("v1/products/{product}/{endpoint}");
            let p2 = format!("v2/products/{product}/{endpoint}");
            let mut results: Vec<(Tr, Result<(), Fail>)> = Vec::new();
            let mut transports: Vec<Tr> = Vec::new();
            if tcp_ok {
                transports.extend([Tr::TcpV1, Tr::TcpV2]);
            }
            if http_ok {
                transports.push(Tr::Http);
            }
            if tcp_ok && http_ok {
                transports.push(Tr::Unified);
                if endpoint == "versions" {
                    transports.push(Tr::UnifiedTcp);
                }
            }
            for tr in transports {
                ctx.obs(&format!("request.{}.{endpoint}", tr.name()), 1);
                match query(ctx, &clients, tr, &p1, &p2).await {
                    QueryOutcome::Doc(doc) => {
                        let r = judge_product(&doc, endpoint, all, &newest);
                        if r.is_ok() {
                            ctx.obs(&format!("outcome.{}.rows-equal-newest-record", tr.name()), 1);
                        }
                        results.push((tr, r));
                    }
                    QueryOutcome::Err(ProtocolError::InvalidEndpoint(m)) if matches!(tr, Tr::Unified | Tr::UnifiedTcp) => {
                        // the unified client declares this endpoint string outside its input domain
                        ctx.obs(&format!("unified.refused-endpoint.product.{pclass}"), 1);
                        let _ = m;
                    }
                    QueryOutcome::Err(e) => results.push((tr, Err(Fail { outcome: err_class(&e), detail: json!({"error": e.to_string().chars().take(400).collect::<String>()}) }))),
                    QueryOutcome::Panicked => results.push((tr, Err(Fail { outcome: "client-panic".into(), detail: json!({"panics": PANICS.lock().unwrap_or_else(std::sync::PoisonError::into_inner).iter().rev().take(1).map(|p| p.chars().take(300).collect::<String>()).collect::<Vec<_>>()}) }))),
                    QueryOutcome::Unjudgeable(why) => ctx.inconclusive(&format!("request could not be judged ({}): {why}", tr.name())),
                }
            }
            report(ctx, &case, implicated, endpoint, product, all, &newest, &results, &db_json);
        }
    }
    // a product the database does not contain: every transport, one endpoint per database (in rotation)
    ext::probe_unknown_products(ctx, &clients, &products, ENDPOINTS[(db_hash % 3) as usize], &mut rng, &db_json).await;
    // the reader's other entry points on the raw v2 reply for one product and endpoint
    if let Some((product, all)) = by_product.iter().find(|(p, _)| tcp_requestable(p)) {
        let endpoint = ENDPOINTS[((db_hash >> 8) % 3) as usize];
        let max = all.iter().map(|b| b.instant_ns).max().unwrap_or(0);
        let newest: Vec<&GenBuild> = all.iter().copied().filter(|b| b.instant_ns == max).collect();
        match tokio::time::timeout(Duration::from_secs(45), clients.ribbit.query_raw(&format!("v2/products/{product}/{endpoint}"))).await {
            Ok(Ok(reply)) => ext::reader_entry_points(ctx, &reply, endpoint, all, &newest, dir.path(), &db_json),
            _ => ctx.obs("reader.raw-reply-not-available", 1),
        }
    }
    // summary (TCP v1 only)
    {
        let mut results: Vec<(Tr, Result<(), Fail>)> = Vec::new();
        for tr in [Tr::TcpV1, Tr::UnifiedTcp] {
            ctx.obs(&format!("request.{}.summary", tr.name()), 1);
            match query(ctx, &clients, tr, "v1/summary", "v1/summary").await {
                QueryOutcome::Doc(doc) => {
                    let r = judge_summary(&doc, &products);
                    if r.is_ok() {
                        ctx.obs(&format!("outcome.{}.summary-equals-product-set", tr.name()), 1);
                    }
                    results.push((tr, r));
                }
                QueryOutcome::Err(e) => results.push((tr, Err(Fail { outcome: err_class(&e), detail: json!({"error": e.to_string().chars().take(400).collect::<String>()}) }))),
                QueryOutcome::Panicked => results.push((tr, Err(Fail { outcome: "client-panic".into(), detail: json!({}) }))),
                QueryOutcome::Unjudgeable(why) => ctx.inconclusive(&format!("summary request could not be judged: {why}")),
            }
        }
        // the cause of a summary failure can only be a product name
        let carriers: Vec<&GenBuild> = by_product.values().map(|v| v[0]).filter(|b| b.cls.contains_key("product")).collect();
        report_summary(ctx, &case, implicated, &carriers, &results, &db_json);
    }
    // the servers must still be there
    let exited = servers.exited.lock().unwrap_or_else(std::sync::PoisonError::into_inner).clone();
    if servers.tcp_task.is_finished() || servers.http_task.is_finished() || !exited.is_empty() {
        ctx.violation("C15|server|task-exited-while-serving-valid-requests", "a server accept loop terminated while only well-formed requests were issued", json!({"messages": exited, "db": db_json()}));
    }
    drop(clients);
    drop(servers);
}

fn transports_label(failing: &[Tr], attempted: usize) -> String {
    if failing.len() == attempted {
        "all-transports".to_string()
    } else {
        failing.iter().map(|t| t.name()).collect::<Vec<_>>().join("+")
    }
}

#[allow(clippy::too_many_arguments)]
fn report(ctx: &Ctx, case: &DbCase, implicated: &Implicated, endpoint: &str, product: &str, all: &[&GenBuild], newest: &[&GenBuild], results: &[(Tr, Result<(), Fail>)], db_json: &dyn Fn() -> Value) {
    // group failures by outcome
    let mut by_outcome: BTreeMap<String, (Vec<Tr>, Value)> = BTreeMap::new();
    for (tr, r) in results {
        if let Err(f) = r {
            let e = by_outcome.entry(f.outcome.clone()).or_insert_with(|| (Vec::new(), f.detail.clone()));
            e.0.push(*tr);
        }
    }
    if by_outcome.is_empty() {
        return;
    }
    // the records that may have been served legitimately carry these hostile fields
    let mut pairs: BTreeSet<(String, String)> = BTreeSet::new();
    for b in newest {
        pairs.extend(cause_pairs(b));
    }
    // cdns only carries cdn_path (+product in the request); versions/bgdl do not carry cdn_path
    let is_relevant = |f: &str| match endpoint {
        "cdns" => f == "cdn_path" || f == "product" || f == "build_time",
        _ => f != "cdn_path",
    };
    let relevant: Vec<(String, String)> = pairs.iter().filter(|(f, _)| is_relevant(f)).cloned().collect();
    // a wrong answer may stem from ANY build of the product (the server may have picked another one)
    let mut any_pairs: BTreeSet<(String, String)> = BTreeSet::new();
    for b in all {
        any_pairs.extend(cause_pairs(b));
    }
    let any_relevant: Vec<(String, String)> = any_pairs.iter().filter(|(f, _)| is_relevant(f)).cloned().collect();
    for (outcome, (trs, detail)) in by_outcome {
        let tl = transports_label(&trs, results.len());
        let is_stale = outcome.starts_with("stale-build");
        let (sig, summary) = if is_stale {
            (format!("C15|{endpoint}|{tl}|newest-build|{outcome}"), "the server answered with a build that is not the newest by instant".to_string())
        } else if let Some((f, c, subject)) = &case.focus {
            if product == subject && relevant.iter().any(|(rf, rc)| rf == f && rc == c) {
                (format!("C15|{endpoint}|{tl}|field={f}|{c}|{outcome}"), format!("accepted database with hostile {f} ({c}): client result is wrong ({outcome})"))
            } else {
                (format!("C15|{endpoint}|{tl}|benign-record|{outcome}"), format!("benign record not read back ({outcome})"))
            }
        } else {
            // phase B: explained by a single-field finding of phase A?
            let known = implicated.lock().unwrap_or_else(std::sync::PoisonError::into_inner);
            let hit = any_relevant.iter().find_map(|(f, c)| known.get(&(endpoint.to_string(), f.clone(), c.clone())).cloned());
            match hit {
                Some(sig) => {
                    ctx.obs("phaseB.failure-explained-by-single-field-finding", 1);
                    (sig, "combination database: failure explained by a single-field finding".to_string())
                }
                None if any_relevant.is_empty() => (format!("C15|{endpoint}|{tl}|benign-record|{outcome}"), format!("benign record not read back ({outcome})")),
                None => {
                    let combo = any_relevant.iter().map(|(f, c)| format!("{f}:{c}")).collect::<Vec<_>>().join("+");
                    (format!("C15|{endpoint}|{tl}|combination={combo}|{outcome}"), format!("hostile field combination not read back ({outcome})"))
                }
            }
        };
        if !is_stale {
            if let Some((f, c, subject)) = &case.focus {
                if product == subject {
                    implicated.lock().unwrap_or_else(std::sync::PoisonError::into_inner).entry((endpoint.to_string(), f.clone(), c.clone())).or_insert_with(|| sig.clone());
                }
            }
        }
        ctx.violation(&sig, &summary, json!({"label": case.label, "product": product, "endpoint": endpoint, "transports": trs.iter().map(|t| t.name()).collect::<Vec<_>>(), "outcome": outcome, "detail": detail, "db": db_json()}));
    }
}

fn report_summary(ctx: &Ctx, case: &DbCase, implicated: &Implicated, carriers: &[&GenBuild], results: &[(Tr, Result<(), Fail>)], db_json: &dyn Fn() -> Value) {
    let mut by_outcome: BTreeMap<String, (Vec<Tr>, Value)> = BTreeMap::new();
    for (tr, r) in results {
        if let Err(f) = r {
            let e = by_outcome.entry(f.outcome.clone()).or_insert_with(|| (Vec::new(), f.detail.clone()));
            e.0.push(*tr);
        }
    }
    for (outcome, (trs, detail)) in by_outcome {
        let tl = transports_label(&trs, results.len());
        let classes: BTreeSet<String> = carriers.iter().filter_map(|b| b.cls.get("product").cloned()).collect();
        let sig = if let Some((f, c, _)) = &case.focus {
            if f == "product" && classes.contains(c) {
                let s = format!("C15|summary|{tl}|field=product|{c}|{outcome}");
                implicated.lock().unwrap_or_else(std::sync::PoisonError::into_inner).entry(("summary".to_string(), "product".to_string(), c.clone())).or_insert_with(|| s.clone());
                s
            } else {
                format!("C15|summary|{tl}|benign-record|{outcome}")
            }
        } else {
            let known = implicated.lock().unwrap_or_else(std::sync::PoisonError::into_inner);
            match classes.iter().find_map(|c| known.get(&("summary".to_string(), "product".to_string(), c.clone())).cloned()) {
                Some(s) => {
                    ctx.obs("phaseB.failure-explained-by-single-field-finding", 1);
                    s
                }
                None if classes.is_empty() => format!("C15|summary|{tl}|benign-record|{outcome}"),
                None => format!("C15|summary|{tl}|combination={}|{outcome}", classes.iter().map(|c| format!("product:{c}")).collect::<Vec<_>>().join("+")),
            }
        };
        ctx.violation(&sig, "v1/summary does not list exactly the products of the database", json!({"label": case.label, "endpoint": "summary", "transports": trs.iter().map(|t| t.name()).collect::<Vec<_>>(), "outcome": outcome, "detail": detail, "db": db_json()}));
    }
}

// ---------------------------------------------------------------------------
// hostile requests

static PANICS: Mutex<Vec<String>> = Mutex::new(Vec::new());

#[derive(Debug)]
enum RawReply {
    ClosedNoData,
    Data(Vec<u8>),
    StillOpen,
    ConnectFailed(String),
}

/// Send `payload`, optionally half-close, read until the peer closes or `wait` elapses.
async fn raw_exchange(addr: SocketAddr, payload: &[u8], half_close: bool, wait: Duration) -> (RawReply, Duration) {
    let t0 = Instant::now();
    let mut s = match tokio::time::timeout(Duration::from_secs(10), TcpStream::connect(addr)).await {
        Ok(Ok(s)) => s,
        Ok(Err(e)) => return (RawReply::ConnectFailed(e.to_string()), t0.elapsed()),
        Err(_) => return (RawReply::ConnectFailed("connect timeout".into()), t0.elapsed()),
    };
    // a peer that already answered/closed may reset our remaining writes: that is a closed connection
    let mut write_failed = false;
    for chunk in payload.chunks(16 * 1024) {
        if s.write_all(chunk).await.is_err() {
            write_failed = true;
            break;
        }
    }
    if half_close && !write_failed {
        let _ = s.shutdown().await;
    }
    let mut buf = Vec::new();
    let mut tmp = [0u8; 8192];
    let deadline = tokio::time::Instant::now() + wait;
    loop {
        match tokio::time::timeout_at(deadline, s.read(&mut tmp)).await {
            Ok(Ok(0)) | Ok(Err(_)) => break,
            Ok(Ok(n)) => {
                buf.extend_from_slice(&tmp[..n]);
                if buf.len() > (4 << 20) {
                    break;
                }
            }
            Err(_) => return (RawReply::StillOpen, t0.elapsed()),
        }
    }
    if buf.is_empty() { (RawReply::ClosedNoData, t0.elapsed()) } else { (RawReply::Data(buf), t0.elapsed()) }
}

fn looks_like_data_document(buf: &[u8]) -> bool {
    let t = String::from_utf8_lossy(buf);
    t.contains("Region!STRING") || t.contains("Name!STRING") || t.contains("Product!STRING")
}

fn http_status(buf: &[u8]) -> Option<u16> {
    let t = String::from_utf8_lossy(buf);
    let mut it = t.split_whitespace();
    let v = it.next()?;
    if !v.starts_with("HTTP/") {
        return None;
    }
    it.next()?.parse().ok()
}

fn tcp_hostile_cases(rng: &mut Rng) -> Vec<(&'static str, Vec<u8>)> {
    let mut v: Vec<(&'static str, Vec<u8>)> = vec![
        ("unknown-product", b"v1/products/no_such_product/versions\r\n".to_vec()),
        ("unknown-product-v2", b"v2/products/no_such_product/cdns\r\n".to_vec()),
        ("unknown-endpoint", b"v1/products/wow/nonsense\r\n".to_vec()),
        ("unknown-endpoint-v2", b"v2/products/wow/nonsense\r\n".to_vec()),
        ("unknown-product-cdns", b"v1/products/no_such_product/cdns\r\n".to_vec()),
        ("unknown-product-bgdl-v2", b"v2/products/no_such_product/bgdl\r\n".to_vec()),
        ("known-product-other-case", b"v1/products/WOW/versions\r\n".to_vec()),
        ("summary-trailing-slash", b"v1/summary/\r\n".to_vec()),
        ("certs-not-served", b"v1/certs/5168ff90af0207753cccd9656462a212b859723b\r\n".to_vec()),
        ("ocsp-not-served", b"v1/ocsp/5168ff90af0207753cccd9656462a212b859723b\r\n".to_vec()),
        ("arity-short", b"v1/products/wow\r\n".to_vec()),
        ("arity-long", b"v1/products/wow/versions/extra\r\n".to_vec()),
        ("arity-v2-summary", b"v2/summary\r\n".to_vec()),
        ("unknown-version-prefix", b"v3/products/wow/versions\r\n".to_vec()),
        ("no-prefix", b"products/wow/versions\r\n".to_vec()),
        ("empty-line", b"\r\n".to_vec()),
        ("blank-line", b"   \t \r\n".to_vec()),
        ("only-slashes", b"v1////\r\n".to_vec()),
        ("non-utf8", vec![b'v', b'1', b'/', 0xff, 0xfe, 0x80, b'/', 0xc3, 0x28, b'\n']),
        ("nul-bytes", b"v1/products/\0\0\0/versions\n".to_vec()),
    ];
    let mut big = vec![b'A'; 64 * 1024];
    big.push(b'\n');
    v.push(("oversized-64k", big));
    let mut big2 = b"v1/products/".to_vec();
    big2.extend(std::iter::repeat_n(b'a', 64 * 1024));
    big2.extend_from_slice(b"/versions\r\n");
    v.push(("oversized-64k-product", big2));
    let mut junk = rng.bytes(300);
    for b in &mut junk {
        if *b == b'\n' {
            *b = b'x';
        }
    }
    junk.push(b'\n');
    v.push(("random-bytes", junk));
    v
}

fn http_hostile_cases() -> Vec<(&'static str, Vec<u8>, Option<u16>)> {
    let mut long = b"GET /".to_vec();
    long.extend(std::iter::repeat_n(b'a', 64 * 1024));
    long.extend_from_slice(b"/versions HTTP/1.1\r\nHost: x\r\nConnection: close\r\n\r\n");
    vec![
        ("http-unknown-product", b"GET /no_such_product/versions HTTP/1.1\r\nHost: x\r\nConnection: close\r\n\r\n".to_vec(), Some(404)),
        ("http-unknown-endpoint", b"GET /wow/nonsense HTTP/1.1\r\nHost: x\r\nConnection: close\r\n\r\n".to_vec(), Some(404)),
        ("http-unknown-product-cdns", b"GET /no_such_product/cdns HTTP/1.1\r\nHost: x\r\nConnection: close\r\n\r\n".to_vec(), Some(404)),
        ("http-unknown-product-bgdl", b"GET /no_such_product/bgdl HTTP/1.1\r\nHost: x\r\nConnection: close\r\n\r\n".to_vec(), Some(404)),
        ("http-known-product-other-case", b"GET /WOW/versions HTTP/1.1\r\nHost: x\r\nConnection: close\r\n\r\n".to_vec(), Some(404)),
        ("http-summary-not-served", b"GET /summary HTTP/1.1\r\nHost: x\r\nConnection: close\r\n\r\n".to_vec(), Some(404)),
        ("http-arity", b"GET /wow HTTP/1.1\r\nHost: x\r\nConnection: close\r\n\r\n".to_vec(), Some(404)),
        ("http-post", b"POST /wow/versions HTTP/1.1\r\nHost: x\r\nContent-Length: 0\r\nConnection: close\r\n\r\n".to_vec(), None),
        ("http-garbage", b"\x16\x03\x01\x02\x00\x01\x00\x01\xfc\x03\x03 garbage\r\n\r\n".to_vec(), None),
        ("http-ribbit-line", b"v1/products/wow/versions\r\n".to_vec(), None),
        ("http-non-utf8-path", b"GET /\xff\xfe/versions HTTP/1.1\r\nHost: x\r\nConnection: close\r\n\r\n".to_vec(), None),
        ("http-oversized-64k", long, None),
    ]
}

#[allow(clippy::too_many_lines)]
async fn hostile_part(ctx: &Ctx) {
    // benign database with two products
    let mut rng = ctx.rng(9000);
    let Ok(dir) = tempfile::tempdir() else {
        ctx.inconclusive("cannot create temp dir");
        return;
    };
    let base = BASE_EPOCH + 1_000_000;
    let mk = |rng: &mut Rng, id: u64, p: &str, t: i64| benign_build(rng, id, p, Stamp { text: format_rfc3339(t, 0, 0, 0, 0), instant_ns: i128::from(t) * 1_000_000_000 });
    let builds = vec![mk(&mut rng, 1, "wow", base), mk(&mut rng, 2, "wow", base + 86_400), mk(&mut rng, 3, "wow_classic", base + 5)];
    let recs: Vec<BuildRecord> = builds.iter().map(|b| b.rec.clone()).collect();
    let Some(path) = write_db(dir.path(), &recs) else {
        ctx.inconclusive("cannot write hostile-part database");
        return;
    };
    let state = match AppState::new(&server_config(&path)) {
        Ok(s) => Arc::new(s),
        Err(e) => {
            ctx.inconclusive(&format!("benign database rejected: {e}"));
            return;
        }
    };
    let Some(servers) = start_servers(state).await else {
        ctx.inconclusive("could not start loopback servers (hostile part)");
        return;
    };
    let clients = match make_clients(&servers) {
        Ok(c) => c,
        Err(e) => {
            ctx.inconclusive(&format!("client construction failed: {e}"));
            return;
        }
    };
    let wow: Vec<&GenBuild> = builds.iter().filter(|b| b.rec.product == "wow").collect();
    let wow_newest = vec![&builds[1]];
    let products: BTreeSet<String> = ["wow".to_string(), "wow_classic".to_string()].into_iter().collect();

    let stop = Arc::new(std::sync::atomic::AtomicBool::new(false));
    let bound = Duration::from_secs(8);

    // --- probes: valid requests, one loop per transport; each request must be answered correctly within the bound.
    // The wedge rule is kept per transport: a TCP request that goes unanswered is not forgiven because an HTTP request
    // (another accept loop) was answered in between, and vice versa.
    let (clients_r, wow_r, newest_r, products_r, stop_r) = (&clients, &wow, &wow_newest, &products, &stop);
    let probe = move |transport: &'static str| async move {
        let mut n = 0u64;
        let mut worst = Duration::ZERO;
        let mut consecutive_misses = 0u32;
        while !stop_r.load(std::sync::atomic::Ordering::SeqCst) {
            let which = n % 3;
            let t0 = Instant::now();
            let fut = async {
                match (transport, which) {
                    ("tcp", 0) => clients_r.ribbit.query("v1/products/wow/versions").await.map(|d| judge_product(&d, "versions", wow_r, newest_r).is_ok()),
                    ("tcp", 1) => clients_r.ribbit.query("v2/products/wow/cdns").await.map(|d| judge_product(&d, "cdns", wow_r, newest_r).is_ok()),
                    ("tcp", _) => clients_r.ribbit.query("v1/summary").await.map(|d| judge_summary(&d, products_r).is_ok()),
                    (_, 0) => clients_r.tact.query("v1/products/wow/bgdl").await.map(|d| judge_product(&d, "bgdl", wow_r, newest_r).is_ok()),
                    (_, 1) => clients_r.tact.query("v1/products/wow/versions").await.map(|d| judge_product(&d, "versions", wow_r, newest_r).is_ok()),
                    (_, _) => clients_r.tact.query("v1/products/wow/cdns").await.map(|d| judge_product(&d, "cdns", wow_r, newest_r).is_ok()),
                }
            };
            let r = tokio::time::timeout(bound, fut).await;
            let dt = t0.elapsed();
            worst = worst.max(dt);
            n += 1;
            match r {
                Ok(Ok(true)) => {
                    consecutive_misses = 0;
                    ctx.obs("hostile.probe.answered-correctly", 1);
                    ctx.obs(&format!("hostile.probe.{transport}.answered-correctly"), 1);
                }
                Ok(Ok(false)) => {
                    ctx.violation("C15|hostile|probe|valid-request-answered-with-wrong-rows-under-hostile-load", "probe client got rows that differ from the database while hostile clients were connected", json!({"transport": transport, "probe_kind": which}));
                }
                Ok(Err(e)) => {
                    consecutive_misses += 1;
                    ctx.obs(&format!("hostile.probe.{transport}.error.{}", err_class(&e)), 1);
                    if consecutive_misses >= 3 {
                        ctx.violation(&format!("C15|hostile|probe|{transport}|valid-request-fails-persistently-under-hostile-load"), "three consecutive valid probe requests over one transport failed while hostile clients were connected", json!({"transport": transport, "probe_kind": which, "last_error": e.to_string()}));
                        consecutive_misses = 0;
                    }
                }
                Err(_) => {
                    consecutive_misses += 1;
                    ctx.obs(&format!("hostile.probe.{transport}.not-answered-within-8s"), 1);
                    if consecutive_misses >= 3 {
                        ctx.violation(&format!("C15|hostile|probe|{transport}|server-wedged|three-consecutive-valid-requests-unanswered-for-8s"), "the server stopped answering valid clients of one transport while hostile clients were connected", json!({"transport": transport, "probe_kind": which}));
                        consecutive_misses = 0;
                    }
                }
            }
            tokio::time::sleep(Duration::from_millis(2)).await;
        }
        (n, worst)
    };

    // --- hostile clients
    // the terminated hostile requests are paced so that they span the ~10 s for which the
    // never-terminated connections are held (quick: 600 connections, thorough: 2400)
    let rounds = ctx.pick(25usize, 100usize);
    let pace = Duration::from_millis(ctx.pick(18, 5));
    let hostile = async {
        let tcp_cases = tcp_hostile_cases(&mut ctx.rng(9001));
        let http_cases = http_hostile_cases();
        // stage 1: terminated malformed requests, 8 connections at a time
        let mut jobs: Vec<(usize, bool, usize)> = Vec::new(); // (case idx, http?, round)
        for r in 0..rounds {
            for i in 0..tcp_cases.len() {
                jobs.push((i, false, r));
            }
            for i in 0..http_cases.len() {
                jobs.push((i, true, r));
            }
        }
        ctx.rng(9002).shuffle(&mut jobs);
        let tcp_cases = &tcp_cases;
        let http_cases = &http_cases;
        // stage 2 (concurrently): never-terminated requests held open
        let held = async {
            let variants: Vec<(&'static str, bool, Vec<u8>, bool)> = vec![
                ("tcp-never-terminated-partial-line", false, b"v1/products/wow/versi".to_vec(), false),
                ("tcp-never-terminated-silent", false, Vec::new(), false),
                ("tcp-never-terminated-partial-line", false, b"v2/products/wow_classic/cdn".to_vec(), false),
                ("tcp-never-terminated-trickle", false, b"v1/prod".to_vec(), true),
                ("tcp-never-terminated-partial-line", false, b"v1/summary".to_vec(), false),
                ("tcp-never-terminated-trickle", false, b"v".to_vec(), true),
                ("http-never-terminated-headers", true, b"GET /wow/versions HTTP/1.1\r\nHost: x\r\nX-Slow: ".to_vec(), false),
                ("http-never-terminated-silent", true, Vec::new(), false),
            ];
            futures::stream::iter(variants)
                .for_each_concurrent(8, |(name, http, payload, trickle)| async move {
                    let addr = if http { servers.http } else { servers.tcp };
                    let t0 = Instant::now();
                    let Ok(Ok(mut s)) = tokio::time::timeout(Duration::from_secs(10), TcpStream::connect(addr)).await else {
                        ctx.obs(&format!("hostile.{name}.connect-failed"), 1);
                        return;
                    };
                    let _ = s.write_all(&payload).await;
                    let mut tmp = [0u8; 1024];
                    let mut got = 0usize;
                    // A never-terminated TCP connection is held for longer than the probes' wedge rule needs to fire
                    // (three bounds in a row + margin): a server that stops answering others for as long as such a client
                    // stays connected is then seen as wedged, not as slow. The server's own read time-out ends these
                    // connections much earlier, so the long hold costs a well-behaved server nothing. The HTTP ones are
                    // not closed by the server at all and keep the shorter hold (budget).
                    let hold = if http { Duration::from_secs(13) } else { bound * 3 + Duration::from_secs(6) };
                    let mut closed = false;
                    while t0.elapsed() < hold {
                        if trickle {
                            let _ = s.write_all(b"x").await;
                        }
                        match tokio::time::timeout(Duration::from_millis(700), s.read(&mut tmp)).await {
                            Ok(Ok(0)) | Ok(Err(_)) => {
                                closed = true;
                                break;
                            }
                            Ok(Ok(n)) => got += n,
                            Err(_) => {}
                        }
                    }
                    ctx.eval_nontrivial(mix64(fnv64(name.as_bytes()), fnv64(&payload)));
                    if closed {
                        ctx.obs(&format!("hostile.{name}.closed-by-server"), 1);
                        ctx.obs_max(&format!("hostile.{name}.closed-after-ms(max)"), t0.elapsed().as_millis() as u64);
                    } else {
                        ctx.obs(&format!("hostile.{name}.still-open-after-{}s", hold.as_secs()), 1);
                    }
                    if got > 0 {
                        ctx.obs(&format!("hostile.{name}.reply-bytes"), got as u64);
                    }
                })
                .await;
        };
        let fast = async {
            futures::stream::iter(jobs)
                .then(|j| async move {
                    tokio::time::sleep(pace).await;
                    j
                })
                .for_each_concurrent(8, |(i, http, round)| async move {
                    let (name, payload, want_status): (&str, &[u8], Option<u16>) = if http {
                        let c = &http_cases[i];
                        (c.0, &c.1, c.2)
                    } else {
                        let c = &tcp_cases[i];
                        (c.0, &c.1, None)
                    };
                    let addr = if http { servers.http } else { servers.tcp };
                    ctx.eval_nontrivial(mix64(fnv64(name.as_bytes()), round as u64));
                    // the TCP client normally half-closes after the command; do both
                    let half_close = round % 2 == 0;
                    let mut reply = raw_exchange(addr, payload, half_close, Duration::from_secs(20)).await;
                    if matches!(reply.0, RawReply::StillOpen | RawReply::ConnectFailed(_)) {
                        ctx.obs(&format!("hostile.{name}.retry"), 1);
                        reply = raw_exchange(addr, payload, half_close, Duration::from_secs(20)).await;
                    }
                    match reply.0 {
                        RawReply::ClosedNoData => ctx.obs(&format!("hostile.{name}.closed-without-reply"), 1),
                        RawReply::Data(buf) => {
                            if http {
                                match http_status(&buf) {
                                    Some(code) if code >= 400 => {
                                        ctx.obs(&format!("hostile.{name}.http-{code}"), 1);
                                        if let Some(w) = want_status {
                                            if w != code {
                                                ctx.obs(&format!("hostile.{name}.status-other-than-{w}"), 1);
                                            }
                                        }
                                    }
                                    Some(code) => {
                                        if looks_like_data_document(&buf) {
                                            ctx.violation(&format!("C15|hostile|{name}|answered-with-data-document"), "a malformed/unknown HTTP request was answered with a data document", json!({"status": code, "reply": String::from_utf8_lossy(&buf).chars().take(300).collect::<String>()}));
                                        } else {
                                            ctx.obs(&format!("hostile.{name}.http-{code}"), 1);
                                        }
                                    }
                                    None => ctx.obs(&format!("hostile.{name}.non-http-reply"), 1),
                                }
                            } else if looks_like_data_document(&buf) {
                                ctx.violation(&format!("C15|hostile|{name}|answered-with-data-document"), "a malformed/unknown request line was answered with a data document", json!({"reply": String::from_utf8_lossy(&buf).chars().take(300).collect::<String>()}));
                            } else {
                                ctx.obs(&format!("hostile.{name}.error-reply"), 1);
                            }
                        }
                        RawReply::StillOpen => {
                            ctx.violation(&format!("C15|hostile|{name}|no-reply-and-not-closed-within-20s"), "a terminated malformed request got neither an error reply nor a closed connection (twice)", json!({"case": name}));
                        }
                        RawReply::ConnectFailed(e) => {
                            ctx.obs(&format!("hostile.{name}.connect-failed"), 1);
                            let _ = e;
                        }
                    }
                    ctx.obs_max("hostile.exchange-ms(max)", reply.1.as_millis() as u64);
                })
                .await;
        };
        futures::join!(held, fast);
        stop.store(true, std::sync::atomic::Ordering::SeqCst);
    };

    let ((probes_tcp, worst_tcp), (probes_http, worst_http), ()) = futures::join!(probe("tcp"), probe("http"), hostile);
    ctx.obs("hostile.probe.requests", probes_tcp + probes_http);
    ctx.obs("hostile.probe.tcp.requests", probes_tcp);
    ctx.obs("hostile.probe.http.requests", probes_http);
    ctx.obs_max("hostile.probe.worst-latency-ms", worst_tcp.max(worst_http).as_millis() as u64);
    ctx.obs_max("hostile.probe.tcp.worst-latency-ms", worst_tcp.as_millis() as u64);
    ctx.obs_max("hostile.probe.http.worst-latency-ms", worst_http.as_millis() as u64);
    if probes_tcp < 20 || probes_http < 20 {
        ctx.inconclusive("fewer than 20 probe requests per transport completed during the hostile phase");
    }
    // after the storm: the server must still answer, and its accept loops must be alive
    let after = tokio::time::timeout(Duration::from_secs(20), clients.ribbit.query("v1/products/wow/versions")).await;
    match after {
        Ok(Ok(d)) if judge_product(&d, "versions", &wow, &wow_newest).is_ok() => ctx.obs("hostile.after.probe-ok", 1),
        Ok(Ok(_)) => ctx.violation("C15|hostile|after|valid-request-answered-with-wrong-rows", "after the hostile phase a valid request returns wrong rows", json!({})),
        Ok(Err(e)) => ctx.violation("C15|hostile|after|valid-request-fails", "after the hostile phase a valid request fails", json!({"error": e.to_string()})),
        Err(_) => ctx.violation("C15|hostile|after|server-wedged", "after the hostile phase a valid request is not answered within 20 s", json!({})),
    }
    let exited = servers.exited.lock().unwrap_or_else(std::sync::PoisonError::into_inner).clone();
    if servers.tcp_task.is_finished() || servers.http_task.is_finished() || !exited.is_empty() {
        ctx.violation("C15|hostile|server-task-exited", "a server accept loop terminated during the hostile phase", json!({"messages": exited}));
    } else {
        ctx.obs("hostile.server-accept-loops-alive", 2);
    }
}

// ---------------------------------------------------------------------------

/// Read by the ThreadSanitizer runtime when this binary is built for the TSan layer
/// (`bin/sanitize`); an unused exported function in every other build.
///
/// TSan does not model the synchronisation that goes through the kernel when a socket is
/// registered with epoll (`epoll_ctl(ADD, ptr)` happens-before `epoll_wait` returning `ptr`), so
/// it reports the I/O driver thread's atomic accesses in `ScheduledIo::set_readiness`
/// (`tokio::runtime::io::driver::Driver::turn`) as racing with the initialisation of that
/// `ScheduledIo` by whichever thread opened the socket. Both accesses are inside
/// tokio/src/runtime/io; no access to repository data can have such a frame in its stack, so
/// the suppression cannot hide a race in /repo code.
#[unsafe(no_mangle)]
pub extern "C" fn __tsan_default_suppressions() -> *const std::ffi::c_char {
    c"race:tokio::runtime::io::scheduled_io\nrace:tokio::runtime::io::driver\nrace:tokio::runtime::io::registration\n".as_ptr()
}

fn main() {
    let ctx = Ctx::init("C15", "exploration");
    ctx.set_rule("a case is one generated build database accepted by the server's own loader (after making validator-rejected fields benign) queried over TCP v1, TCP v2, HTTP and the unified client for every product x {versions,cdns,bgdl} plus v1/summary, or one hostile connection (class x round); a database case is non-trivial when a product has >= 2 builds or a field carries a hostile class; distinct by hash of the accepted records / (hostile class, round)");
    ctx.assume("the harness knows the instant of every generated timestamp by construction; generated timestamps are restricted to RFC 3339 date-times with an explicit UTC offset (Z, z, +hh:mm, -hh:mm, optional fraction), the only notations in which 'newest' is well defined; the validator itself admits any string containing 'T' and ':'");
    ctx.assume("server-side CDN hosts/path come from ServerConfig (benign constants); only Path/ConfigPath of a cdns reply are compared (with the record's cdn_path or the configured default)");
    ctx.assume("a product name the request grammar cannot carry (contains '/', CR, LF for TCP; URL delimiters for HTTP) is recorded as unrequestable, not flagged");

    std::panic::set_hook(Box::new(|info| {
        let loc = info.location().map(|l| l.file().to_string()).unwrap_or_default();
        let msg = info.payload().downcast_ref::<&str>().map(|s| (*s).to_string()).or_else(|| info.payload().downcast_ref::<String>().cloned()).unwrap_or_default();
        let line = info.location().map(|l| l.line()).unwrap_or(0);
        eprintln!("[c15] panic at {loc}:{line}: {}", msg.chars().take(160).collect::<String>());
        PANICS.lock().unwrap_or_else(std::sync::PoisonError::into_inner).push(format!("{loc}: {msg}"));
    }));

    let rt = match tokio::runtime::Builder::new_multi_thread().worker_threads(16).enable_all().build() {
        Ok(rt) => rt,
        Err(e) => {
            ctx.inconclusive(&format!("tokio runtime: {e}"));
            ctx.finish();
        }
    };
    let implicated: Implicated = Mutex::new(BTreeMap::new());

    if let Some(detail) = ctx.replay_detail() {
        // replay: run exactly the recorded database through the same requests
        if let Some(c) = detail.get("config") {
            // a configuration finding: the recorded cdn_hosts / cdn_path (replay files keep the first 400 characters)
            let g = |k: &str| c.get(k).and_then(Value::as_str).unwrap_or("").to_string();
            println!("replaying server configuration cdn_hosts={:?} cdn_path={:?}", g("cdn_hosts"), g("cdn_path"));
            rt.block_on(async {
                ext::run_config_case(&ctx, ext::CfgCase { field: "explicit", class: "replayed", stream: 1, explicit: Some((g("cdn_hosts"), g("cdn_path"))) }).await;
                ext::shutdown_configured_servers(&ctx).await;
            });
            ctx.nontrivial(1);
            ctx.nontrivial(2);
        } else if let Some(arr) = detail.get("db").and_then(Value::as_array) {
            let recs: Vec<BuildRecord> = arr.iter().filter_map(|v| serde_json::from_value(v.clone()).ok()).collect();
            println!("replaying database with {} records; instants are re-derived from the recorded RFC 3339 texts (UTC fields as generated)", recs.len());
            let builds: Vec<GenBuild> = recs
                .into_iter()
                .map(|rec| {
                    let inst = replay_instant(&rec.build_time);
                    GenBuild { rec, instant_ns: inst, cls: BTreeMap::new() }
                })
                .collect();
            let case = DbCase { label: "replay".into(), builds, focus: None };
            rt.block_on(run_db(&ctx, case, &implicated, 1));
        } else {
            println!("replay file carries no database (hostile-part finding): re-running the hostile part");
            rt.block_on(hostile_part(&ctx));
        }
        ctx.finish();
    }

    // phase A: one hostile (field, class) at a time
    let cases_a = phase_a_cases(&mut ctx.rng(1));
    let na = cases_a.len();
    rt.block_on(async {
        futures::stream::iter(cases_a.into_iter().enumerate())
            .for_each_concurrent(8, |(i, case)| {
                let implicated = &implicated;
                let ctx = &ctx;
                async move { run_db(ctx, case, implicated, 10_000 + i as u64).await }
            })
            .await;
    });
    ctx.obs("phaseA.databases", na as u64);

    // phase B: random combinations
    let nb = ctx.pick(70usize, 3000usize);
    let mut rng_b = ctx.rng(2);
    let cases_b: Vec<DbCase> = (0..nb).map(|i| phase_b_case(&mut rng_b, i, if i % 3 == 0 { 10 } else { 30 })).collect();
    rt.block_on(async {
        futures::stream::iter(cases_b.into_iter().enumerate())
            .for_each_concurrent(8, |(i, case)| {
                let implicated = &implicated;
                let ctx = &ctx;
                async move { run_db(ctx, case, implicated, 20_000 + i as u64).await }
            })
            .await;
    });
    ctx.obs("phaseB.databases", nb as u64);

    // phase C: server configurations (hostile cdn_hosts / cdn_path through ServerConfig::validate, Server::new + run)
    let cases_c = ext::config_cases(&ctx);
    ctx.obs("phaseC.configurations", cases_c.len() as u64);
    rt.block_on(async {
        // single-field cases first: what they find explains failures of the pairs
        let (singles, pairs): (Vec<_>, Vec<_>) = cases_c.into_iter().partition(|c| c.field != "both");
        for batch in [singles, pairs] {
            futures::stream::iter(batch)
                .for_each_concurrent(8, |case| {
                    let ctx = &ctx;
                    async move { ext::run_config_case(ctx, case).await }
                })
                .await;
        }
        ext::shutdown_configured_servers(&ctx).await;
    });

    // hostile requests
    rt.block_on(hostile_part(&ctx));

    // panics anywhere in the process (server tasks included) are crashes of server code
    let panics = PANICS.lock().unwrap_or_else(std::sync::PoisonError::into_inner).clone();
    ctx.obs("process.panics", panics.len() as u64);
    for p in &panics {
        let file = p.split(':').next().unwrap_or("").rsplit("/crates/").next().unwrap_or("").to_string();
        if p.contains("/crates/cascette-ribbit/") {
            ctx.violation(&format!("C15|server|panic|{file}"), "server code panicked", json!({"panic": p}));
        } else {
            ctx.obs(&format!("panic.elsewhere.{file}"), 1);
        }
    }
    if ctx.get_obs("request.tcp-v1.versions") == 0 || ctx.get_obs("request.tcp-v2.versions") == 0 || ctx.get_obs("request.http.versions") == 0 {
        ctx.inconclusive("a transport was never exercised");
    }
    for k in ["newest.decided_by_fractional_seconds", "config.servers_started_with_Server::run", "config.request.tcp-v1.cdns", "config.request.http.cdns", "unknown-product.request.tcp-v1", "unknown-product.request.tcp-v2", "unknown-product.request.http", "reader.replies", "reader.parse_schema.agrees", "reader.from_path.agrees", "reader.trickling-reader.agrees"] {
        if ctx.get_obs(k) == 0 {
            ctx.inconclusive(&format!("a sub-workload the verdict relies on never ran or was never judged: {k}"));
        }
    }
    rt.shutdown_timeout(Duration::from_secs(2));
    ctx.finish();
}

/// Replay only: recover the instant from a recorded RFC 3339 text.
fn replay_instant(t: &str) -> i128 {
    // YYYY-MM-DDTHH:MM:SS[.f](Z|z|+hh:mm|-hh:mm)
    let b = t.as_bytes();
    if b.len() < 20 {
        return 0;
    }
    let num = |s: &str| s.parse::<i64>().unwrap_or(0);
    let (y, m, d) = (num(&t[0..4]), num(&t[5..7]), num(&t[8..10]));
    let (hh, mm, ss) = (num(&t[11..13]), num(&t[14..16]), num(&t[17..19]));
    let mut rest = &t[19..];
    let mut nanos = 0i128;
    if let Some(r) = rest.strip_prefix('.') {
        let digits: String = r.chars().take_while(char::is_ascii_digit).collect();
        let mut padded = digits.clone();
        while padded.len() < 9 {
            padded.push('0');
        }
        nanos = padded[..9].parse::<i128>().unwrap_or(0);
        rest = &r[digits.len()..];
    }
    let off_min = if rest.eq_ignore_ascii_case("z") || rest.len() < 6 {
        0
    } else {
        let sign = if rest.starts_with('-') { -1 } else { 1 };
        sign * (num(&rest[1..3]) * 60 + num(&rest[4..6]))
    };
    // days from civil
    let y2 = if m <= 2 { y - 1 } else { y };
    let era = y2.div_euclid(400);
    let yoe = y2.rem_euclid(400);
    let mp = (m + 9) % 12;
    let doy = (153 * mp + 2) / 5 + d - 1;
    let doe = yoe * 365 + yoe / 4 - yoe / 100 + doy;
    let days = era * 146_097 + doe - 719_468;
    let secs = days * 86_400 + hh * 3600 + mm * 60 + ss - off_min * 60;
    i128::from(secs) * 1_000_000_000 + nanos
}
