//! C20 — no key or endpoint string makes the library touch files outside its directories.
//!
//! Parent mode: builds a sandbox (`<tmp>/l1/../l5/parent/{canaries, sibling/, cwd/, r_<root>/}`),
//! runs ITSELF in `--workload` mode under `strace -f -y -e trace=%file`, then judges offline:
//!   (1) every path argument of every file syscall made between the begin/end markers of a
//!       call (made absolute, lexically normalised, realpath-ed) lies inside the root configured
//!       for that call or in a fixed allow-list of runtime paths; plus a before/after listing of
//!       the sandbox (canary hashes) as a backstop;
//!   (2) files written for two well-formed keys that differ in a field are never the same file;
//!   (3) no call panics (URL / cache-key construction for keys of any length).
//! Child mode (`--workload`): drives the real APIs with hostile strings, wraps each call in
//! `access("/VH_MARK/<n>/b|e")` marker syscalls and reports its bookkeeping as JSON lines on stdout
//! (written outside the marked windows; the child creates no files of its own inside windows).
//!
//! Replay: `--replay FILE` re-runs the whole workload with the seed/tier stored in the file
//! (the workload is a deterministic function of seed+tier), which reproduces the witness.

use serde_json::{Value, json};
use std::collections::{BTreeMap, BTreeSet, HashMap};
use std::ffi::OsString;
use std::io::{BufRead, Read, Write};
use std::os::unix::ffi::{OsStrExt, OsStringExt};
use std::path::{Path, PathBuf};
use std::time::{Duration, Instant};
use vh::{Ctx, Rng, fnv64, mix64};

const BPSV_DOC: &str = "##seqn!DEC:4|region!STRING:0|buildconfig!HEX:16|cdnconfig!HEX:16|keyring!HEX:16|buildid!DEC:4|versionsname!STRING:0|productconfig!HEX:16\n1|us|abcd1234abcd1234|cdef5678cdef5678|def90123def90123|12345|1.0.0|fedcba09fedcba09\n";
const LEVELS: usize = 5;
/// deepest net `..` depth any generated string may reach below its base (keeps every
/// escape inside the sandbox temp dir: roots live LEVELS+1 directories below it)
const MAX_UP: i32 = 5;

fn main() {
    let argv: Vec<String> = std::env::args().collect();
    if argv.iter().any(|a| a == "--workload") {
        child::main(&argv);
        return;
    }
    parent::main();
}

// ---------------------------------------------------------------------------------------------
// string classes (shared by child and parent)
// ---------------------------------------------------------------------------------------------

/// Canonical class of an input string (used in violation signatures).
fn classify(s: &str) -> &'static str {
    if s.is_empty() {
        return "empty";
    }
    if s.starts_with('/') {
        return "absolute";
    }
    let mut depth = 0i32;
    let mut min_depth = 0i32;
    let mut normal = 0;
    let mut has_dotdot = false;
    let mut has_dot_or_empty_seg = false;
    for comp in s.split('/') {
        match comp {
            "" | "." => has_dot_or_empty_seg = true,
            ".." => {
                has_dotdot = true;
                depth -= 1;
                min_depth = min_depth.min(depth);
            }
            _ => {
                normal += 1;
                depth += 1;
            }
        }
    }
    if min_depth < 0 {
        return if s == ".." || s.starts_with("../") { "dotdot" } else { "dotdot-in-middle" };
    }
    if has_dotdot {
        return "dotdot-inside";
    }
    if normal == 0 {
        return "dot-only";
    }
    if s.split('/').any(|c| c.len() > 255) {
        return "long";
    }
    if s.chars().any(|c| c.is_control()) {
        return "control";
    }
    if s.contains('\\') {
        return "backslash";
    }
    if has_dot_or_empty_seg && s.contains('/') {
        return "dot-or-empty-segment";
    }
    if s.ends_with(".tmp") {
        return "tmp-suffix";
    }
    if s.ends_with('.') {
        return "trailing-dot";
    }
    if !s.is_ascii() {
        return "non-ascii";
    }
    if s.contains('/') {
        return "nested";
    }
    "plain"
}

/// Non-trivial = contains a separator, a dot segment, or is absolute.
fn nontrivial(s: &str) -> bool {
    s.contains('/') || s.starts_with('/') || s.split('/').any(|c| c == "." || c == "..") || s == "." || s == ".."
}

/// lowest lexical depth reached by the string relative to its base
fn min_depth(s: &str) -> i32 {
    let mut depth = 0i32;
    let mut min = 0i32;
    for comp in s.split('/') {
        match comp {
            "" | "." => {}
            ".." => {
                depth -= 1;
                min = min.min(depth);
            }
            _ => depth += 1,
        }
    }
    min
}

// ---------------------------------------------------------------------------------------------
// child: the traced workload
// ---------------------------------------------------------------------------------------------
mod child {
    use super::*;
    use bytes::Bytes;
    use cascette_cache::config::DiskCacheConfig;
    use cascette_cache::disk_cache::DiskCache;
    use cascette_cache::key::{
        ArchiveIndexKey, ArchiveRangeKey, BlteBlockKey, BlteKey, CacheKey, ConfigKey, ContentCacheKey, EncodingFileKey, ManifestKey,
        RibbitKey, RootFileKey,
    };
    use cascette_cache::traits::AsyncCache;
    use cascette_crypto::{ContentKey, EncodingKey};
    use cascette_protocol::cache::ProtocolCache;
    use cascette_protocol::{CacheConfig, CdnClient, CdnConfig, CdnEndpoint, ClientConfig, ContentType, RibbitTactClient};
    use std::panic::{AssertUnwindSafe, catch_unwind};
    use std::sync::{Mutex, OnceLock};

    static PANICS: Mutex<Vec<(String, String)>> = Mutex::new(Vec::new());
    static RT: OnceLock<tokio::runtime::Runtime> = OnceLock::new();

    fn bo<F: std::future::Future>(f: F) -> F::Output {
        RT.get().expect("runtime").block_on(f)
    }

    #[derive(Debug, Clone, PartialEq, Eq, Hash)]
    pub struct RawKey(pub String);
    impl CacheKey for RawKey {
        fn as_cache_key(&self) -> &str {
            &self.0
        }
    }
    impl std::fmt::Display for RawKey {
        fn fmt(&self, f: &mut std::fmt::Formatter<'_>) -> std::fmt::Result {
            f.write_str(&self.0)
        }
    }

    /// A hostile (or plain) input string with its canonical class.
    #[derive(Clone)]
    pub struct Hs {
        pub s: String,
    }

    #[derive(Clone)]
    pub struct Meta {
        pub api: String,
        pub variant: String,
        pub strings: Vec<String>,
        pub class: String,
        pub root: PathBuf,
        pub nt: bool,
        pub wf: bool,
        pub control: bool,
        pub kid: Option<String>,
        pub ck: Option<String>,
    }

    impl Meta {
        pub fn new(api: &str, variant: &str, root: &Path, s: &str) -> Self {
            Self {
                api: api.to_string(),
                variant: variant.to_string(),
                strings: vec![s.to_string()],
                class: classify(s).to_string(),
                root: root.to_path_buf(),
                nt: nontrivial(s),
                wf: false,
                control: false,
                kid: None,
                ck: None,
            }
        }
        pub fn api(&self, api: &str) -> Self {
            let mut m = self.clone();
            m.api = api.to_string();
            m
        }
    }

    pub enum O {
        Ok(String),
        Err(String),
    }
    impl O {
        pub fn from<T, E: std::fmt::Display>(r: Result<T, E>, f: impl FnOnce(T) -> String) -> Self {
            match r {
                Ok(v) => O::Ok(f(v)),
                Err(e) => O::Err(e.to_string()),
            }
        }
    }

    pub struct Child {
        pub n: u64,
        pub quick: bool,
        pub seed: u64,
        pub parent: PathBuf,
        pub roots: Vec<PathBuf>,
        pub out: std::io::Stdout,
        pub esc: u64,
    }

    fn mark(n: u64, which: char) {
        let p = std::ffi::CString::new(format!("/VH_MARK/{n}/{which}")).expect("marker");
        // SAFETY: access(2) with a valid NUL-terminated path; the result is ignored.
        unsafe {
            libc::access(p.as_ptr(), libc::F_OK);
        }
    }

    fn trunc(s: &str, n: usize) -> String {
        if s.len() <= n {
            s.to_string()
        } else {
            let mut e = n;
            while !s.is_char_boundary(e) {
                e -= 1;
            }
            format!("{}…(+{})", &s[..e], s.len() - e)
        }
    }

    impl Child {
        pub fn emit(&mut self, v: &Value) {
            let mut l = self.out.lock();
            let _ = writeln!(l, "{v}");
            let _ = l.flush();
        }
        pub fn rng(&self, stream: u64) -> Rng {
            Rng::derive(self.seed, stream)
        }
        pub fn pick<T>(&self, q: T, t: T) -> T {
            if self.quick { q } else { t }
        }
        pub fn root(&mut self, name: &str) -> PathBuf {
            let p = self.parent.join(format!("r_{name}"));
            std::fs::create_dir_all(&p).expect("create root");
            self.roots.push(p.clone());
            let v = json!({"t":"root","path":p.to_string_lossy()});
            self.emit(&v);
            p
        }
        /// One monitored call: begin marker, the call under catch_unwind, end marker, journal line.
        pub fn window<F: FnOnce() -> O>(&mut self, meta: &Meta, f: F) -> (String, String) {
            self.n += 1;
            let n = self.n;
            PANICS.lock().unwrap_or_else(std::sync::PoisonError::into_inner).clear();
            mark(n, 'b');
            let r = catch_unwind(AssertUnwindSafe(f));
            mark(n, 'e');
            let panics: Vec<(String, String)> = std::mem::take(&mut *PANICS.lock().unwrap_or_else(std::sync::PoisonError::into_inner));
            let (outcome, msg) = match r {
                Ok(O::Ok(s)) => ("ok".to_string(), s),
                Ok(O::Err(s)) => ("err".to_string(), s),
                Err(p) => {
                    let m = p.downcast_ref::<String>().cloned().or_else(|| p.downcast_ref::<&str>().map(|s| (*s).to_string())).unwrap_or_default();
                    ("panic".to_string(), m)
                }
            };
            let v = json!({
                "t":"call","n":n,"api":meta.api,"variant":meta.variant,"class":meta.class,
                "strings":meta.strings.iter().map(|s| trunc(s, 400)).collect::<Vec<_>>(),
                "root":meta.root.to_string_lossy(),"nt":meta.nt,"wf":meta.wf,"control":meta.control,
                "kid":meta.kid,"ck":meta.ck.as_ref().map(|s| trunc(s, 600)),
                "outcome":outcome,"msg":trunc(&msg, 300),
                "panics":panics.iter().map(|(m,l)| json!({"msg":trunc(m,300),"loc":l})).collect::<Vec<_>>(),
            });
            self.emit(&v);
            (outcome, msg)
        }
    }

    pub fn main(argv: &[String]) {
        let mut parent = PathBuf::new();
        let mut seed = 1u64;
        let mut quick = true;
        let mut i = 0;
        while i < argv.len() {
            match argv[i].as_str() {
                "--parent" => {
                    i += 1;
                    parent = PathBuf::from(&argv[i]);
                }
                "--seed" => {
                    i += 1;
                    seed = argv[i].parse().unwrap_or(1);
                }
                "--tier" => {
                    i += 1;
                    quick = argv[i] != "thorough";
                }
                _ => {}
            }
            i += 1;
        }
        std::panic::set_hook(Box::new(|info| {
            let msg = info
                .payload()
                .downcast_ref::<String>()
                .cloned()
                .or_else(|| info.payload().downcast_ref::<&str>().map(|s| (*s).to_string()))
                .unwrap_or_default();
            let loc = info.location().map(|l| format!("{}:{}", l.file(), l.line())).unwrap_or_default();
            PANICS.lock().unwrap_or_else(std::sync::PoisonError::into_inner).push((msg, loc));
        }));
        let cwd = parent.join("cwd");
        std::env::set_current_dir(&cwd).expect("chdir");
        let rt = tokio::runtime::Builder::new_current_thread().enable_all().build().expect("runtime");
        let _ = RT.set(rt);
        let mut c = Child { n: 0, quick, seed, parent, roots: Vec::new(), out: std::io::stdout(), esc: 0 };
        let hello = json!({"t":"hello","cwd":cwd.to_string_lossy(),"pid":std::process::id(),"exe":std::env::current_exe().ok().map(|p| p.to_string_lossy().to_string())});
        c.emit(&hello);
        phase_disk_raw(&mut c);
        phase_disk_typed(&mut c);
        phase_disk_maintenance(&mut c);
        phase_protocol_cache(&mut c);
        let port = start_mock();
        phase_query(&mut c, port);
        phase_cdn(&mut c, port);
        phase_storage(&mut c);
        phase_storage_sanity(&mut c);
        phase_hardlink(&mut c);
        phase_store_maintenance(&mut c);
        phase_injectivity(&mut c);
        let done = json!({"t":"done","calls":c.n});
        c.emit(&done);
        // leave without running destructors of library statics (shared runtimes)
        std::process::exit(0);
    }

    // ---- hostile strings -------------------------------------------------------------------

    fn fixed_hostile(c: &mut Child) -> Vec<Hs> {
        let p = c.parent.to_string_lossy().to_string();
        let mut v: Vec<String> = Vec::new();
        for d in 1..=MAX_UP as usize {
            v.push(format!("{}x", "../".repeat(d)));
            v.push(format!("{}canary.txt", "../".repeat(d)));
        }
        v.extend(
            [
                "..", "../sibling/canary.txt", "../secret.bpsv", "../../../secret.bpsv", "a/../../b", "x/../../..", "a/b/../../../canary.txt",
                "a/../../canary.txt", "v1/products/../../../../x", "a/../b", "a/b/../c", ".", "./x", "a/./b", "./", "", "/", "//", "a//b", "a/",
                "x.", "x..", "a./b.", "...", "x.tmp", "x", "x.y", "x.z", "a/x.tmp", "a\tb", "a\nb", "\u{1}\u{7f}x", "a\rb/../../x", "..\\x",
                "a\\..\\..\\b", "\\", "ü/é", "é/../../ü", "..ü", "a b", "a:b", "a?b=c", "a#b", "%2e%2e/%2e%2e/x", "..%2fx", "v1/products/wow/versions",
                "summary", "data.000", "~", "~/x", "-", "--help", "*", "$HOME", "con", "x/", "x/.", "x/..", "x/../", "../", "..//..//x",
            ]
            .iter()
            .map(|s| (*s).to_string()),
        );
        v.push("L".repeat(300));
        v.push(format!("{}/{}/{}/end", "L".repeat(100), "M".repeat(100), "N".repeat(100)));
        v.push(format!("../{}", "L".repeat(300)));
        v.push(format!("{}/../../x", "L".repeat(300)));
        v.push("d/".repeat(150) + "x");
        // very long names made of multi-byte characters, with 0..3 ASCII bytes in front so that every byte
        // offset falls inside a character for one of them (error texts and hashed sub-directory names are
        // derived by slicing the string)
        for (ch, total) in [('é', 1002usize), ('漢', 1003), ('𝔘', 1004), ('ü', 4100), ('é', 260)] {
            for lead in 0..ch.len_utf8().min(3) + 1 {
                let body: String = std::iter::repeat_n(ch, total / ch.len_utf8()).collect();
                v.push(format!("{}{}", "/ab".chars().take(lead).collect::<String>(), body));
            }
        }
        v.push(format!("v1/products/{}/versions", "é".repeat(600)));
        // absolute paths: only below the sandbox parent so that nothing real can be harmed
        for name in ["canary.txt", "sibling/canary.txt", "secret.bpsv"] {
            v.push(format!("{p}/{name}"));
        }
        for _ in 0..3 {
            c.esc += 1;
            v.push(format!("{p}/vh_escape_{}", c.esc));
        }
        c.esc += 1;
        v.push(format!("{p}/vh_escape_dir_{}/sub/x", c.esc));
        v.push(format!("{p}/../canary.txt"));
        v.push(format!("{p}/"));
        v.into_iter().map(|s| Hs { s }).collect()
    }

    /// Random hostile string from a small grammar; `..` depth is bounded so that every
    /// lexical escape stays inside the sandbox temp dir.
    fn gen_hostile(c: &mut Child, rng: &mut Rng) -> Hs {
        const SEGS: &[&str] = &[
            "..", "..", "..", ".", "", "x", "a", "b", "canary.txt", "sibling", "secret.bpsv", "x.tmp", "x.y", "b.", "c..", "\t", "a\nb", "ü", "a\\b", "..\\",
            "v1", "products", "wow", "versions", "cdns", "summary", "data.000", "a_b-c", "...", " ", "%2e%2e", "cwd",
        ];
        loop {
            let n = 1 + rng.usize_below(6);
            let mut parts: Vec<String> = Vec::new();
            for _ in 0..n {
                if rng.chance(1, 40) {
                    parts.push("L".repeat(250 + rng.usize_below(60)));
                } else if rng.chance(1, 40) {
                    let ch = *rng.pick(&['é', '漢', '𝔘']);
                    let lead = "abc".chars().take(rng.usize_below(4)).collect::<String>();
                    parts.push(format!("{lead}{}", std::iter::repeat_n(ch, 120 + rng.usize_below(400)).collect::<String>()));
                } else {
                    parts.push((*rng.pick(SEGS)).to_string());
                }
            }
            let mut s = parts.join("/");
            if min_depth(&s) < -MAX_UP {
                continue;
            }
            if rng.chance(1, 8) {
                c.esc += 1;
                let p = c.parent.to_string_lossy().to_string();
                s = if rng.bool() { format!("{p}/{s}") } else { format!("{p}/vh_escape_{}/{s}", c.esc) };
            }
            return Hs { s };
        }
    }

    fn hostile_set(c: &mut Child, rng: &mut Rng, extra_quick: usize, extra_thorough: usize) -> Vec<Hs> {
        let mut v = fixed_hostile(c);
        let extra = c.pick(extra_quick, extra_thorough);
        for _ in 0..extra {
            let h = gen_hostile(c, rng);
            v.push(h);
        }
        v
    }

    fn value_for(kid: &str) -> Bytes {
        Bytes::from(format!("VH-VALUE:{:016x}:{}", fnv64(kid.as_bytes()), kid.len()))
    }

    // ---- DiskCache, generic over the key type ----------------------------------------------

    fn disk_cache<K: CacheKey + 'static>(root: &Path, sub: bool) -> DiskCache<K> {
        let cfg = DiskCacheConfig::new(root).with_max_files(1_000_000).with_subdirectories(sub, if sub { 2 } else { 0 });
        DiskCache::new(cfg).expect("DiskCache::new on an existing directory")
    }

    /// cold get, put, contains, get, remove — each in its own window
    fn disk_ops<K: CacheKey + 'static>(c: &mut Child, cache: &DiskCache<K>, key: &K, meta: &Meta, ops: &[&str]) {
        let mut meta = meta.clone();
        meta.ck = Some(key.as_cache_key().to_string());
        let val = value_for(key.as_cache_key());
        for op in ops {
            match *op {
                "get" => {
                    c.window(&meta.api("DiskCache::get"), || {
                        O::from(bo(cache.get(key)), |v| match v {
                            Some(b) => format!("some:{}", String::from_utf8_lossy(&b[..b.len().min(80)])),
                            None => "none".to_string(),
                        })
                    });
                }
                "put" => {
                    c.window(&meta.api("DiskCache::put"), || O::from(bo(cache.put(key.clone(), val.clone())), |()| "stored".to_string()));
                }
                "put_ttl" => {
                    c.window(&meta.api("DiskCache::put_with_ttl"), || {
                        O::from(bo(cache.put_with_ttl(key.clone(), val.clone(), Duration::from_secs(3600))), |()| "stored".to_string())
                    });
                }
                "contains" => {
                    c.window(&meta.api("DiskCache::contains"), || O::from(bo(cache.contains(key)), |b| b.to_string()));
                }
                "remove" => {
                    c.window(&meta.api("DiskCache::remove"), || O::from(bo(cache.remove(key)), |b| b.to_string()));
                }
                _ => {}
            }
        }
    }

    fn control_disk<K: CacheKey + 'static>(c: &mut Child, cache: &DiskCache<K>, key: &K, variant: &str, root: &Path) {
        let mut meta = Meta::new("DiskCache::put", variant, root, key.as_cache_key());
        meta.control = true;
        meta.class = "control".into();
        disk_ops(c, cache, key, &meta, &["put", "get", "contains", "remove"]);
    }

    fn phase_disk_raw(c: &mut Child) {
        let mut rng = c.rng(1);
        for (vname, sub) in [("flat/RawKey", false), ("subdirs/RawKey", true)] {
            let root = c.root(if sub { "dc_raw_sub" } else { "dc_raw_flat" });
            let cache: DiskCache<RawKey> = disk_cache(&root, sub);
            control_disk(c, &cache, &RawKey("control-key".into()), vname, &root);
            let set = hostile_set(c, &mut rng, 10, 1900);
            for (i, h) in set.iter().enumerate() {
                let key = RawKey(h.s.clone());
                let meta = Meta::new("DiskCache", vname, &root, &h.s);
                let ops: &[&str] = if i % 5 == 4 { &["get", "put_ttl", "contains", "get", "remove"] } else { &["get", "put", "contains", "get", "remove"] };
                disk_ops(c, &cache, &key, &meta, ops);
            }
        }
    }

    fn typed_site<K: CacheKey + std::fmt::Display + 'static>(c: &mut Child, site: &str, control: K, strings: &[Hs], mk: impl Fn(&str) -> K) {
        for (vi, (vname, sub)) in [("flat", false), ("subdirs", true)].iter().enumerate() {
            let tname = site.split('.').next().unwrap_or(site);
            let root = c.root(&format!("dc_{}_{}_{}", tname, site.split('.').nth(1).unwrap_or("f"), vname));
            let cache: DiskCache<K> = disk_cache(&root, *sub);
            let variant = format!("{vname}/{site}");
            control_disk(c, &cache, &control, &variant, &root);
            for (i, h) in strings.iter().enumerate() {
                // quick: alternate variants over the string list; thorough: both
                if c.quick && i % 2 != vi {
                    continue;
                }
                let meta = Meta::new("DiskCache", &variant, &root, &h.s);
                // building the key, its cache-key string, its display form and its lookup hashes must not
                // panic for any field value (no file is involved: any file syscall in this window is flagged)
                let mut built: Option<K> = None;
                c.window(&meta.api("TypedKey::new+as_cache_key+Display+fast_hash"), || {
                    let k = mk(&h.s);
                    let shown = k.to_string();
                    let fh = CacheKey::fast_hash(&k);
                    let jh = k.hash_key();
                    let out = format!("ck_len={} display_len={} h32={:08x} j32={:08x}", k.as_cache_key().len(), shown.len(), fh.hash32, jh.hash32);
                    built = Some(k);
                    O::Ok(out)
                });
                let Some(key) = built else { continue };
                disk_ops(c, &cache, &key, &meta, &["get", "put", "get", "remove"]);
            }
        }
    }

    fn phase_disk_typed(c: &mut Child) {
        let mut rng = c.rng(2);
        let all = hostile_set(c, &mut rng, 0, 150);
        let ck = ContentKey::from_bytes([0x5a; 16]);
        // quick: a deterministic sample of the fixed list per field site (always containing the deep dotdot strings)
        let sample = |c: &Child, rng: &mut Rng, all: &[Hs]| -> Vec<Hs> {
            if !c.quick {
                return all.to_vec();
            }
            let mut v: Vec<Hs> = all.iter().filter(|h| matches!(h.s.as_str(), "../../x" | "../../../x" | "../../../../x" | "" | "." | "a/../../../b")).cloned().collect();
            v.push(Hs { s: "a/../../../b".into() });
            for _ in 0..8 {
                v.push(rng.pick(all).clone());
            }
            v
        };
        let s = sample(c, &mut rng, &all);
        typed_site(c, "RibbitKey.endpoint", RibbitKey::new("summary", "us"), &s, |x| RibbitKey::new(x, "us"));
        let s = sample(c, &mut rng, &all);
        typed_site(c, "RibbitKey.region", RibbitKey::new("summary", "eu"), &s, |x| RibbitKey::new("summary", x));
        let s = sample(c, &mut rng, &all);
        typed_site(c, "RibbitKey.product", RibbitKey::with_product("versions", "us", "wow"), &s, |x| RibbitKey::with_product("versions", "us", x));
        let s = sample(c, &mut rng, &all);
        typed_site(c, "ConfigKey.config_type", ConfigKey::new("buildconfig", "abcd1234"), &s, |x| ConfigKey::new(x, "0123456789abcdef0123456789abcdef"));
        let s = sample(c, &mut rng, &all);
        typed_site(c, "ConfigKey.hash", ConfigKey::new("cdnconfig", "abcd1234"), &s, |x| ConfigKey::new("buildconfig", x));
        let s = sample(c, &mut rng, &all);
        typed_site(c, "ArchiveIndexKey.archive_name", ArchiveIndexKey::new("data.000", "abcd"), &s, |x| ArchiveIndexKey::new(x, "abcd"));
        let s = sample(c, &mut rng, &all);
        typed_site(c, "ArchiveIndexKey.index_hash", ArchiveIndexKey::new("data.001", "abcd"), &s, |x| ArchiveIndexKey::new("data.000", x));
        let s = sample(c, &mut rng, &all);
        typed_site(c, "ManifestKey.manifest_type", ManifestKey::new("root", ck), &s, |x| ManifestKey::new(x, ck));
        let s = sample(c, &mut rng, &all);
        typed_site(c, "ManifestKey.version", ManifestKey::with_version("root", ck, "v2"), &s, |x| ManifestKey::with_version("root", ck, x));
        let s = sample(c, &mut rng, &all);
        typed_site(c, "ArchiveRangeKey.archive_id", ArchiveRangeKey::new("data.001", 0, 16), &s, |x| ArchiveRangeKey::new(x, 1024, 4096));
    }

    // ---- cascette_protocol::ProtocolCache on a disk directory -------------------------------

    fn proto_cache(root: &Path) -> std::sync::Arc<ProtocolCache> {
        let cfg = CacheConfig { cache_dir: Some(root.to_path_buf()), ..CacheConfig::default() };
        std::sync::Arc::new(ProtocolCache::new(&cfg).expect("ProtocolCache::new on an existing directory"))
    }

    fn phase_protocol_cache(c: &mut Child) {
        let mut rng = c.rng(3);
        let root = c.root("pc");
        let pc = proto_cache(&root);
        let mut m = Meta::new("ProtocolCache::store_bytes", "disk", &root, "control-key");
        m.control = true;
        m.class = "control".into();
        c.window(&m, || O::from(pc.store_bytes("control-key", b"control"), |()| "stored".into()));
        c.window(&m.api("ProtocolCache::get"), || O::from(pc.get("control-key"), |v| if v.as_deref() == Some(b"control") { "some:control".into() } else { "none".into() }));
        let set = hostile_set(c, &mut rng, 10, 1900);
        for (i, h) in set.iter().enumerate() {
            let meta = Meta::new("ProtocolCache", "disk", &root, &h.s);
            let s = h.s.as_str();
            c.window(&meta.api("ProtocolCache::get"), || O::from(pc.get(s), |v| if v.is_some() { "some".into() } else { "none".into() }));
            if i % 3 == 0 {
                c.window(&meta.api("ProtocolCache::store_with_ttl"), || O::from(pc.store_with_ttl(s, b"VH-PC", Duration::from_secs(60)), |()| "stored".into()));
            } else {
                c.window(&meta.api("ProtocolCache::store_bytes"), || O::from(pc.store_bytes(s, b"VH-PC"), |()| "stored".into()));
            }
            c.window(&meta.api("ProtocolCache::get_bytes"), || O::from(pc.get_bytes(s), |v| if v.is_some() { "some".into() } else { "none".into() }));
            if i % 4 == 0 {
                let keys = vec![h.s.clone()];
                let pc2 = pc.clone();
                c.window(&meta.api("ProtocolCache::warm_cache"), move || O::from(bo(pc2.warm_cache(keys)), |n| n.to_string()));
            }
        }
        // maintenance calls over a directory that now holds every accepted odd name: they walk / wipe the
        // directory and must stay inside it
        let mut m = Meta::new("ProtocolCache::stats", "disk/after-hostile-stores", &root, "maintenance");
        m.class = "maintenance".into();
        c.window(&m, || O::from(pc.stats(), |s| format!("entries={}", s.entries)));
        c.window(&m.api("ProtocolCache::hit_rate"), || O::from(pc.hit_rate(), |r| format!("{r:.3}")));
        c.window(&m.api("ProtocolCache::len"), || O::from(pc.len(), |n| n.to_string()));
        c.window(&m.api("ProtocolCache::is_empty"), || O::from(pc.is_empty(), |b| b.to_string()));
        c.window(&m.api("ProtocolCache::cleanup_expired"), || O::from(pc.cleanup_expired(), |n| n.to_string()));
        // a second instance on the same directory (empty index): len() scans the directory
        let pc_b = proto_cache(&root);
        c.window(&m.api("ProtocolCache::len"), || O::from(pc_b.len(), |n| format!("fresh-instance:{n}")));
        c.window(&m.api("ProtocolCache::clear"), || O::from(pc_b.clear(), |()| "cleared".into()));
        c.window(&m.api("ProtocolCache::len"), || O::from(pc_b.len(), |n| format!("after-clear:{n}")));
        c.window(&m.api("ProtocolCache::clear"), || O::from(pc.clear(), |()| "cleared".into()));
    }

    // ---- DiskCache maintenance: size / stats / clear / background cleanup / large values -------

    fn phase_disk_maintenance(c: &mut Child) {
        let mut rng = c.rng(9);
        for (vname, sub) in [("flat/RawKey", false), ("subdirs/RawKey", true)] {
            let root = c.root(if sub { "dcm_sub" } else { "dcm_flat" });
            let cache: DiskCache<RawKey> = disk_cache(&root, sub);
            control_disk(c, &cache, &RawKey("control-key".into()), vname, &root);
            // fill the directory through the cache itself with every odd name it accepts
            let set = hostile_set(c, &mut rng, 10, 300);
            let mut accepted: Vec<RawKey> = Vec::new();
            for h in &set {
                let key = RawKey(h.s.clone());
                let mut meta = Meta::new("DiskCache::put", vname, &root, &h.s);
                meta.ck = Some(h.s.clone());
                let (outcome, _) = c.window(&meta, || O::from(bo(cache.put(key.clone(), value_for(&h.s))), |()| "stored".into()));
                if outcome == "ok" {
                    accepted.push(key);
                }
            }
            let mut m = Meta::new("DiskCache::size", &format!("{vname}/after-hostile-puts"), &root, "maintenance");
            m.class = "maintenance".into();
            m.strings = vec![format!("accepted_keys={}", accepted.len())];
            c.window(&m, || O::from(bo(cache.size()), |n| n.to_string()));
            c.window(&m.api("DiskCache::stats"), || O::from(bo(cache.stats()), |s| format!("entries={}", s.entry_count)));
            // a second instance over the same directory has an empty index: size() walks the directory,
            // contains/get/remove go to the files directly
            let fresh: DiskCache<RawKey> = disk_cache(&root, sub);
            c.window(&m, || O::from(bo(fresh.size()), |n| format!("fresh-instance:{n}")));
            for key in accepted.iter().take(c.pick(12, 200)) {
                let mut meta = Meta::new("DiskCache", &format!("{vname}/fresh-instance"), &root, &key.0);
                meta.ck = Some(key.0.clone());
                c.window(&meta.api("DiskCache::contains"), || O::from(bo(fresh.contains(key)), |b| b.to_string()));
                c.window(&meta.api("DiskCache::get"), || O::from(bo(fresh.get(key)), |v| if v.is_some() { "some".into() } else { "none".into() }));
            }
            if let Some(key) = accepted.first() {
                let mut meta = Meta::new("DiskCache::remove", &format!("{vname}/fresh-instance"), &root, &key.0);
                meta.ck = Some(key.0.clone());
                c.window(&meta, || O::from(bo(fresh.remove(key)), |b| b.to_string()));
            }
            c.window(&m.api("DiskCache::clear"), || O::from(bo(fresh.clear()), |()| "cleared".into()));
            c.window(&m, || O::from(bo(fresh.size()), |n| format!("after-clear:{n}")));
            // the first instance still indexes the (now deleted) files
            c.window(&m.api("DiskCache::clear"), || O::from(bo(cache.clear()), |()| "cleared".into()));
            c.window(&m, || O::from(bo(cache.size()), |n| format!("after-clear:{n}")));
        }
        // a value of 16 MiB takes the large-file read path of a fresh instance
        {
            let root = c.root("dcm_large");
            let cache: DiskCache<RawKey> = disk_cache(&root, false);
            let key = RawKey("nested/large.bin".into());
            let big = Bytes::from(vec![0x5au8; 16 * 1024 * 1024]);
            let mut m = Meta::new("DiskCache::put", "flat/RawKey/16MiB", &root, &key.0);
            m.ck = Some(key.0.clone());
            c.window(&m, || O::from(bo(cache.put(key.clone(), big.clone())), |()| "stored".into()));
            let fresh: DiskCache<RawKey> = disk_cache(&root, false);
            c.window(&m.api("DiskCache::get"), || O::from(bo(fresh.get(&key)), |v| format!("len={}", v.map_or(0, |b| b.len()))));
            c.window(&m.api("DiskCache::remove"), || O::from(bo(fresh.remove(&key)), |b| b.to_string()));
        }
        // background cleanup task: expired entries are deleted by the task while the runtime is driven
        {
            let root = c.root("dcm_bg");
            let mut cfg = DiskCacheConfig::new(&root).with_max_files(1_000_000).with_subdirectories(true, 2);
            cfg.cleanup_interval = Duration::from_millis(25);
            cfg.sync_interval = Duration::from_secs(3600);
            // constructed, and the tasks' immediate first tick driven, OUTSIDE any window: the sync task runs
            // the external `sync` program (process start-up is not path construction from strings)
            let cache: DiskCache<RawKey> = bo(async { DiskCache::new_with_background_tasks(cfg) }).expect("DiskCache::new_with_background_tasks");
            bo(async { tokio::time::sleep(Duration::from_millis(120)).await });
            let set = hostile_set(c, &mut rng, 0, 40);
            let mut m = Meta::new("DiskCache::background_cleanup", "subdirs/RawKey/ttl-1ms", &root, "maintenance");
            m.class = "maintenance".into();
            let keys: Vec<RawKey> = set.iter().take(c.pick(40, 200)).map(|h| RawKey(h.s.clone())).collect();
            c.window(&m, || {
                let stored = bo(async {
                    let mut n = 0;
                    for k in &keys {
                        if cache.put_with_ttl(k.clone(), Bytes::from_static(b"VH-BG"), Duration::from_millis(1)).await.is_ok() {
                            n += 1;
                        }
                    }
                    // several cleanup ticks
                    tokio::time::sleep(Duration::from_millis(200)).await;
                    n
                });
                let left = bo(cache.size()).unwrap_or(usize::MAX);
                O::Ok(format!("stored={stored} left_after_cleanup={left}"))
            });
            drop(cache);
        }
    }

    // ---- loopback mock (valid BPSV over HTTP for every request) ------------------------------

    /// requests the HTTP mock has answered so far (a repeated request that leaves it unchanged was answered by a cache)
    static MOCK_REQUESTS: std::sync::atomic::AtomicU64 = std::sync::atomic::AtomicU64::new(0);
    fn mock_requests() -> u64 {
        MOCK_REQUESTS.load(std::sync::atomic::Ordering::SeqCst)
    }

    /// The request of window `m` once more ("…/same-request-again"): the client caches what it downloads, so the second
    /// request of an object takes the client's cache-answer path. Counts repeats and those that succeeded without a
    /// request reaching the mock.
    fn again(c: &mut Child, m: &Meta, tally: &mut (u64, u64), f: impl FnOnce() -> O) {
        let mut m2 = m.clone();
        m2.variant = format!("{}/same-request-again", m.variant);
        let before = mock_requests();
        let (outcome, _) = c.window(&m2, f);
        tally.0 += 1;
        if outcome == "ok" && mock_requests() == before {
            tally.1 += 1;
        }
    }

    fn start_mock() -> u16 {
        let l = std::net::TcpListener::bind("127.0.0.1:0").expect("bind mock");
        let port = l.local_addr().expect("addr").port();
        std::thread::spawn(move || {
            for s in l.incoming().flatten() {
                std::thread::spawn(move || serve(s));
            }
        });
        port
    }

    fn serve(mut s: std::net::TcpStream) {
        let _ = s.set_read_timeout(Some(Duration::from_secs(120)));
        let _ = s.set_nodelay(true);
        let mut buf: Vec<u8> = Vec::new();
        let mut tmp = [0u8; 4096];
        loop {
            let end = loop {
                if let Some(p) = buf.windows(4).position(|w| w == b"\r\n\r\n") {
                    break p + 4;
                }
                match s.read(&mut tmp) {
                    Ok(0) | Err(_) => return,
                    Ok(n) => buf.extend_from_slice(&tmp[..n]),
                }
                if buf.len() > 1 << 20 {
                    return;
                }
            };
            let is_head = buf.starts_with(b"HEAD ");
            // objects below a CDN path are answered with a body that names the requested path: two different CDN objects
            // never have the same bytes (used by the CDN injectivity histories)
            let req_path = String::from_utf8_lossy(&buf[..end]).split_whitespace().nth(1).unwrap_or("").to_string();
            buf.drain(..end);
            MOCK_REQUESTS.fetch_add(1, std::sync::atomic::Ordering::SeqCst);
            let cdn_body = format!("CDN-OBJECT {req_path}\n");
            let body = if req_path.starts_with("/inj/") { cdn_body.as_bytes() } else { BPSV_DOC.as_bytes() };
            let mut resp = format!("HTTP/1.1 200 OK\r\nContent-Type: text/plain\r\nContent-Length: {}\r\nConnection: keep-alive\r\n\r\n", body.len()).into_bytes();
            if !is_head {
                resp.extend_from_slice(body);
            }
            if s.write_all(&resp).is_err() {
                return;
            }
        }
    }

    fn closed_port() -> u16 {
        let l = std::net::TcpListener::bind("127.0.0.1:0").expect("bind");
        l.local_addr().expect("addr").port()
    }

    // ---- RibbitTactClient::query ------------------------------------------------------------

    fn phase_query(c: &mut Child, port: u16) {
        let mut rng = c.rng(4);
        let root = c.root("query");
        let cfg = ClientConfig {
            tact_https_url: format!("http://127.0.0.1:{port}"),
            tact_http_url: String::new(),
            ribbit_url: format!("tcp://127.0.0.1:{}", closed_port()),
            cache_config: CacheConfig { cache_dir: Some(root.clone()), ..CacheConfig::default() },
            ..ClientConfig::default()
        };
        let client = RibbitTactClient::new(cfg).expect("RibbitTactClient::new");
        let mut m = Meta::new("RibbitTactClient::query", "disk+http-mock", &root, "v1/products/wow/versions");
        m.control = true;
        m.class = "control".into();
        for _ in 0..2 {
            c.window(&m, || O::from(bo(client.query("v1/products/wow/versions")), |d| format!("rows={}", d.rows().len())));
        }
        let set = hostile_set(c, &mut rng, 10, 900);
        let mut endpoints: Vec<String> = Vec::new();
        for h in &set {
            endpoints.push(h.s.clone());
            if min_depth(&h.s) >= -(MAX_UP - 2) && !h.s.starts_with('/') {
                endpoints.push(format!("v1/products/{}/versions", h.s));
                if !c.quick {
                    endpoints.push(format!("{}/cdns", h.s));
                    endpoints.push(format!("v1/certs/{}", h.s));
                }
            }
        }
        for (i, e) in endpoints.iter().enumerate() {
            let mut meta = Meta::new("RibbitTactClient::query", "disk+http-mock", &root, e);
            meta.ck = Some(format!("api/ribbit/{e}"));
            let reps = if i % 4 == 0 { 2 } else { 1 };
            for _ in 0..reps {
                c.window(&meta, || O::from(bo(client.query(e)), |d| format!("rows={}", d.rows().len())));
            }
        }
    }

    // ---- CdnClient --------------------------------------------------------------------------

    fn endpoint(host: &str, path: &str) -> CdnEndpoint {
        CdnEndpoint { host: host.to_string(), path: path.to_string(), product_path: None, scheme: Some("http".to_string()), is_fallback: false, strict: false, max_hosts: None }
    }

    fn phase_cdn(c: &mut Child, port: u16) {
        let mut rng = c.rng(5);
        let root = c.root("cdn");
        let pc = proto_cache(&root);
        let cdn = CdnClient::new(pc, CdnConfig::default()).expect("CdnClient::new");
        let host = format!("127.0.0.1:{port}");
        let good = endpoint(&host, "tpr/wow");
        let cts = [ContentType::Config, ContentType::Data, ContentType::Patch];
        let v = "disk+http-mock";
        {
            let key = [0xabu8; 16];
            let mut m = Meta::new("CdnClient::download", v, &root, "control:len16");
            m.control = true;
            m.class = "control".into();
            for _ in 0..2 {
                c.window(&m, || O::from(bo(cdn.download(&good, ContentType::Data, &key)), |d| format!("bytes={}", d.len())));
            }
        }
        // injectivity of the CDN cache: the config, data and patch object and the archive index that share one hash are
        // four different things; asked for in any order through one cache, each request returns its own object — also
        // the second time round, when the cache answers
        {
            let inj = endpoint(&host, "inj/wow");
            let kinds: [(&str, Option<ContentType>); 4] = [("config", Some(ContentType::Config)), ("data", Some(ContentType::Data)), ("patch", Some(ContentType::Patch)), ("archive-index", None)];
            for hno in 0..c.pick(4, 16) {
                let key = rng.array::<16>();
                let hx = hex::encode(key);
                let mut order: Vec<usize> = (0..4).collect();
                rng.shuffle(&mut order);
                let mut results: Vec<Value> = Vec::new();
                for pass in 0..2 {
                    for &k in &order {
                        let (kname, ct) = kinds[k];
                        let api = if ct.is_some() { "CdnClient::download" } else { "CdnClient::download_archive_index" };
                        let mut m = Meta::new(api, v, &root, &format!("{kname}:{hx}"));
                        m.variant = format!("{v}/objects-sharing-one-hash");
                        m.class = "well-formed".into();
                        let (outcome, msg) = c.window(&m, || {
                            let r = match ct {
                                Some(ct) => bo(cdn.download(&inj, ct, &key)),
                                None => bo(cdn.download_archive_index(&inj, &hx)),
                            };
                            O::from(r, |d| format!("len={} fnv={:016x}", d.len(), fnv64(&d)))
                        });
                        results.push(json!({"kind": kname, "pass": pass, "outcome": outcome, "body": msg}));
                    }
                }
                let rec = json!({"t":"cdn-inj","hash":hx,"n":hno,"order":order.iter().map(|&k| kinds[k].0).collect::<Vec<_>>(),"results":results});
                c.emit(&rec);
            }
        }
        // content keys of every length 0..=32 (and a few longer ones). Every request that the client caches (download,
        // download_archive_index) is made a second time, here and for the hostile paths / archive keys below: a client
        // asks for the same object again, and then the cache-answer branch runs with the same strings
        let mut repeats = (0u64, 0u64);
        let rounds = c.pick(1, 12);
        for round in 0..rounds {
            for len in (0..=32usize).chain([33, 64, 255]) {
                let key = rng.bytes(len);
                let ct = cts[(len + round) % 3];
                let label = format!("keylen:{len}");
                let mut m = Meta::new("CdnClient::download", v, &root, &label);
                m.class = format!("key-len-{}", if len < 2 { len.to_string() } else { "ge2".into() });
                m.nt = len < 2;
                c.window(&m, || O::from(bo(cdn.download(&good, ct, &key)), |d| format!("bytes={}", d.len())));
                again(c, &m, &mut repeats, || O::from(bo(cdn.download(&good, ct, &key)), |d| format!("bytes={}", d.len())));
                let (off, l) = *rng.pick(&[(0u64, 1u64), (0, 0), (7, 0), (100, 50), (0, u64::MAX), (u64::MAX, 1), (u64::MAX, 2), (u64::MAX - 1, 1), (1 << 40, 1 << 20)]);
                let mut m2 = m.api("CdnClient::download_range");
                m2.strings = vec![label.clone(), format!("offset={off}"), format!("length={l}")];
                let rclass = if l == 0 { "range-length-0" } else if off.checked_add(l).is_none() { "range-overflow" } else { "range-ok" };
                if len >= 2 {
                    m2.class = rclass.to_string();
                    m2.nt = rclass != "range-ok";
                }
                c.window(&m2, || O::from(bo(cdn.download_range(&good, ct, &key, off, l)), |d| format!("bytes={}", d.len())));
                if round == 0 || rng.chance(1, 4) {
                    let resume = *rng.pick(&[None, Some(0u64), Some(10), Some(u64::MAX)]);
                    c.window(&m.api("CdnClient::download_with_resume"), || O::from(bo(cdn.download_with_resume(&good, ct, &key, resume)), |d| format!("bytes={}", d.len())));
                    c.window(&m.api("CdnClient::get_file_size"), || O::from(bo(cdn.get_file_size(&good, ct, &key)), |d| format!("{d:?}")));
                }
            }
        }
        // every (offset,length) boundary with a normal key
        let key16 = [0x11u8; 16];
        for (off, l) in [(0u64, 0u64), (1, 0), (u64::MAX, 0), (u64::MAX, 1), (u64::MAX, u64::MAX), (0, u64::MAX), (0, 1), (5, 5)] {
            let rclass = if l == 0 { "range-length-0" } else if off.checked_add(l).is_none() { "range-overflow" } else { "range-ok" };
            let mut m = Meta::new("CdnClient::download_range", v, &root, &format!("offset={off},length={l}"));
            m.class = rclass.to_string();
            m.nt = rclass != "range-ok";
            c.window(&m, || O::from(bo(cdn.download_range(&good, ContentType::Data, &key16, off, l)), |d| format!("bytes={}", d.len())));
        }
        // hostile CDN path strings
        let set = hostile_set(c, &mut rng, 10, 900);
        for (i, h) in set.iter().enumerate() {
            let ep = endpoint(&host, &h.s);
            let key = rng.bytes(16);
            let ct = cts[i % 3];
            let mut m = Meta::new("CdnClient::download", v, &root, &h.s);
            m.variant = format!("{v}/endpoint.path");
            c.window(&m, || O::from(bo(cdn.download(&ep, ct, &key)), |d| format!("bytes={}", d.len())));
            again(c, &m, &mut repeats, || O::from(bo(cdn.download(&ep, ct, &key)), |d| format!("bytes={}", d.len())));
            if i % 3 == 0 {
                c.window(&m.api("CdnClient::download_range"), || O::from(bo(cdn.download_range(&ep, ct, &key, 0, 16)), |d| format!("bytes={}", d.len())));
            }
            if i % 2 == 0 {
                let ak = hex::encode(&key);
                c.window(&m.api("CdnClient::download_archive_index"), || O::from(bo(cdn.download_archive_index(&ep, &ak)), |d| format!("bytes={}", d.len())));
            }
        }
        // archive keys (strings; "archive names come from CDN configs")
        let mut aks: Vec<String> = ["", "a", "ab", "abc", "abcd", "é", "aé", "abé", "éééé", "0123456789abcdef0123456789abcdef"].iter().map(|s| (*s).to_string()).collect();
        for h in set.iter().take(c.pick(40, 400)) {
            aks.push(h.s.clone());
        }
        for ak in &aks {
            let mut m = Meta::new("CdnClient::download_archive_index", v, &root, ak);
            m.variant = format!("{v}/archive_key");
            if ak.len() < 4 || !ak.is_char_boundary(2) || !ak.is_char_boundary(4) {
                m.class = "archive-key-short-or-non-ascii".into();
                m.nt = true;
            }
            c.window(&m, || O::from(bo(cdn.download_archive_index(&good, ak)), |d| format!("bytes={}", d.len())));
            again(c, &m, &mut repeats, || O::from(bo(cdn.download_archive_index(&good, ak)), |d| format!("bytes={}", d.len())));
            if ak.len() < 6 {
                c.window(&m.api("CdnClient::get_index_size"), || O::from(bo(cdn.get_index_size(&good, ak)), |d| format!("{d:?}")));
            }
        }
        // download_with_progress: the fourth way from (endpoint, content type, key) to a URL
        for len in (0..=32usize).chain([33, 64, 255]) {
            let key = rng.bytes(len);
            let ct = cts[len % 3];
            let mut m = Meta::new("CdnClient::download_with_progress", v, &root, &format!("keylen:{len}"));
            m.class = format!("key-len-{}", if len < 2 { len.to_string() } else { "ge2".into() });
            m.nt = len < 2;
            c.window(&m, || {
                let mut calls = 0u64;
                O::from(bo(cdn.download_with_progress(&good, ct, &key, |_, _| calls += 1)), |d| format!("bytes={}", d.len()))
            });
        }
        for (i, h) in set.iter().enumerate().filter(|(i, _)| i % 3 == 1) {
            let ep = endpoint(&host, &h.s);
            let key = rng.bytes(16);
            let mut m = Meta::new("CdnClient::download_with_progress", v, &root, &h.s);
            m.variant = format!("{v}/endpoint.path");
            c.window(&m, || O::from(bo(cdn.download_with_progress(&ep, cts[i % 3], &key, |_, _| {})), |d| format!("bytes={}", d.len())));
        }
        // endpoints as they arrive from the network: a row of the `cdns` BPSV document (Hosts / Path /
        // ProductPath are remote strings) turned into an endpoint, which is then used for a download
        {
            use cascette_formats::bpsv::{BpsvRow, BpsvSchema};
            let schema = BpsvSchema::parse("Name!STRING:0|Path!STRING:0|Hosts!STRING:0|Servers!STRING:0|ConfigPath!STRING:0|ProductPath!STRING:0").expect("cdns schema");
            let mut rows: Vec<(String, String, String)> = Vec::new(); // (what, path, hosts)
            for h in &set {
                rows.push(("Path".into(), h.s.clone(), format!("{host}?fallback=1&strict=0&maxhosts=3 other.invalid")));
            }
            for hs in [
                String::new(), " ".into(), "?".into(), "?fallback=1".into(), format!("{host}?maxhosts=0"), format!("{host}?maxhosts=99999999999999999999"), format!("{host}?maxhosts=-1&strict=1"),
                format!("{host}?fallback"), format!("{host}?=&&=1"), format!("{host}??fallback=1?strict=1"), "../..?fallback=1".into(), format!("{host}/../..?strict=1"), "é?é=é".into(),
                format!("{}?maxhosts=2", "é".repeat(600)),
            ] {
                rows.push(("Hosts".into(), "tpr/wow".into(), hs));
            }
            for (i, (what, path, hosts)) in rows.iter().enumerate() {
                let input = if what == "Path" { path.clone() } else { hosts.clone() };
                let mut m = Meta::new("CdnClient::endpoint_from_bpsv_row", v, &root, &input);
                m.variant = format!("{v}/cdns-row.{what}");
                let mut ep: Option<CdnEndpoint> = None;
                c.window(&m, || {
                    let vals = vec!["us".to_string(), path.clone(), hosts.clone(), String::new(), "tpr/configs/data".to_string(), path.clone()];
                    let row = match BpsvRow::parse(vals, &schema) {
                        Ok(r) => r,
                        Err(e) => return O::Err(format!("row refused by the BPSV layer: {e}")),
                    };
                    O::from(CdnClient::endpoint_from_bpsv_row(&row, &schema), |e| {
                        let out = format!("host={:?} path={:?} fallback={} strict={} max_hosts={:?}", e.host, e.path, e.is_fallback, e.strict, e.max_hosts);
                        ep = Some(e);
                        out
                    })
                });
                let Some(mut ep) = ep else { continue };
                // (the mock speaks plain http)
                ep.scheme = Some("http".to_string());
                let key = rng.bytes(16);
                let ct = cts[i % 3];
                let mut m2 = m.api("CdnClient::download");
                m2.variant = format!("{v}/endpoint-from-cdns-row.{what}");
                c.window(&m2, || O::from(bo(cdn.download(&ep, ct, &key)), |d| format!("bytes={}", d.len())));
                if i % 2 == 0 {
                    again(c, &m2, &mut repeats, || O::from(bo(cdn.download(&ep, ct, &key)), |d| format!("bytes={}", d.len())));
                }
                if i % 4 == 0 {
                    let ak = hex::encode(&key);
                    c.window(&m2.api("CdnClient::download_archive_index"), || O::from(bo(cdn.download_archive_index(&ep, &ak)), |d| format!("bytes={}", d.len())));
                    c.window(&m2.api("CdnClient::get_file_size"), || O::from(bo(cdn.get_file_size(&ep, ct, &key)), |d| format!("{d:?}")));
                }
            }
        }
        // hostile host strings (URL construction must not panic; errors are fine)
        let hosts: Vec<String> = vec![
            String::new(), "..".into(), "../x".into(), format!("{host}/../.."), format!("{host}/a/../../b"), "a b".into(), "[::1".into(), "127.0.0.1:99999".into(),
            "\t".into(), format!("user@{host}"), format!("{host}?fallback=1"), format!("{host}#frag"), "/".into(), ".".into(), "%2e%2e".into(), "ü.invalid".into(),
        ];
        for h in &hosts {
            let ep = endpoint(h, "tpr/wow");
            let key = rng.bytes(16);
            let mut m = Meta::new("CdnClient::download", v, &root, h);
            m.variant = format!("{v}/endpoint.host");
            c.window(&m, || O::from(bo(cdn.download(&ep, ContentType::Config, &key)), |d| format!("bytes={}", d.len())));
            c.window(&m.api("CdnClient::download_range"), || O::from(bo(cdn.download_range(&ep, ContentType::Config, &key, 0, 4)), |d| format!("bytes={}", d.len())));
        }
        let rec = json!({"t":"cdn-repeat","repeats":repeats.0,"answered_without_a_request_to_the_server":repeats.1});
        c.emit(&rec);
    }

    // ---- cascette_client_storage ------------------------------------------------------------

    fn phase_storage(c: &mut Child) {
        use cascette_client_storage::{Storage, StorageConfig};
        let mut rng = c.rng(6);
        let root = c.root("storage");
        let storage = Storage::new(StorageConfig { base_path: root.clone(), ..StorageConfig::default() }).expect("Storage::new");
        let mut m = Meta::new("Storage::open_installation", "base_path", &root, "wow_retail");
        m.control = true;
        m.class = "control".into();
        c.window(&m, || O::from(storage.open_installation("wow_retail"), |i| format!("opened strong={}", std::sync::Arc::strong_count(&i))));
        let set = hostile_set(c, &mut rng, 10, 1900);
        let mut opened = 0usize;
        for h in &set {
            let meta = Meta::new("Storage::open_installation", "base_path", &root, &h.s);
            let (outcome, _) = c.window(&meta, || O::from(storage.open_installation(&h.s), |_| "opened".into()));
            if outcome == "ok" {
                opened += 1;
                // the second open of the same name takes the "already open" branch
                if opened % 8 == 1 {
                    c.window(&meta, || O::from(storage.open_installation(&h.s), |i| format!("reopened strong={}", std::sync::Arc::strong_count(&i))));
                }
            }
        }
        // the directory layout the storage hands out, and the list of what it opened
        for (name, p) in [
            ("Storage::data_path", storage.data_path()),
            ("Storage::indices_path", storage.indices_path()),
            ("Storage::residency_path", storage.residency_path()),
            ("Storage::ecache_path", storage.ecache_path()),
            ("Storage::hardlink_path", storage.hardlink_path()),
            ("Storage::build_info_path", storage.build_info_path()),
        ] {
            pure(c, name, storage.base_path(), "base_path", &p);
        }
        let mut m = Meta::new("Storage::list_installations", "base_path", &root, "maintenance");
        m.class = "maintenance".into();
        c.window(&m, || {
            let names = storage.list_installations();
            O::Ok(format!("listed={} opened={opened} config_base={}", names.len(), storage.config().base_path == root))
        });
        // a second Storage over the existing tree validates (and write-probes) the five sub-directories
        c.window(&m.api("Storage::new"), || O::from(Storage::new(StorageConfig { base_path: root.clone(), ..StorageConfig::default() }), |s| format!("base={}", s.base_path() == &root)));
    }

    // ---- HardLinkContainer: trie paths from binary keys, directory maintenance ---------------

    fn phase_hardlink(c: &mut Child) {
        use cascette_client_storage::container::hardlink::{HardLinkContainer, format_content_key_path};
        use cascette_client_storage::container::{AccessMode, Container};
        let mut rng = c.rng(10);
        // one root holds the link sources and the container directory (hard_link names both paths)
        let root = c.root("hl");
        let src_dir = root.join("src");
        let hl_dir = root.join("hardlink");
        std::fs::create_dir_all(&src_dir).expect("src dir");
        let mut hl = HardLinkContainer::new(AccessMode::ReadWrite, hl_dir.clone());
        let v = "binary-keys";
        let mut m = Meta::new("HardLinkContainer::initialize", v, &root, "control");
        m.control = true;
        m.class = "control".into();
        c.window(&m, || O::from(bo(hl.initialize()), |()| "initialized".into()));
        c.window(&m.api("HardLinkContainer::test_support"), || O::from(hl.test_support(&src_dir, &hl_dir), |b| if b { "supported".to_string() } else { "unsupported".to_string() }));
        let supported = hl.is_supported();
        let mut keys: Vec<[u8; 16]> = vec![[0xff; 16], [0x2e; 16], [0x2f; 16], *b"../../../../../x", *b"/../../../../../", [0x5c; 16], *b"..\\..\\..\\..\\..\\x"];
        keys.push({
            let mut k = [0u8; 16];
            k[15] = 1; // first nine bytes zero: directory 00/00
            k
        });
        for _ in 0..c.pick(24, 600) {
            keys.push(rng.array::<16>());
        }
        for (i, key) in keys.iter().enumerate() {
            let ek: [u8; 9] = key[..9].try_into().expect("9 bytes");
            let hexk = hex::encode(key);
            let mut meta = Meta::new("HardLinkContainer", v, &root, &hexk);
            meta.class = "binary-keys".into();
            let src = src_dir.join(format!("obj{i}"));
            std::fs::write(&src, format!("VH-HL {i}")).expect("source file");
            let dst = format_content_key_path(&hl_dir, &ek);
            pure(c, "format_content_key_path", &hl_dir, &hexk, &dst);
            c.window(&meta.api("HardLinkContainer::query"), || O::from(bo(hl.query(key)), |b| b.to_string()));
            c.window(&meta.api("HardLinkContainer::create_link"), || O::from(hl.create_link(key, &src, &dst), |()| "linked".into()));
            c.window(&meta.api("HardLinkContainer::query"), || O::from(bo(hl.query(key)), |b| b.to_string()));
            match i % 4 {
                0 => {
                    c.window(&meta.api("HardLinkContainer::remove"), || O::from(bo(hl.remove(key)), |()| "removed".into()));
                }
                1 => {
                    c.window(&meta.api("HardLinkContainer::remove_file"), || O::from(hl.remove_file(key, &dst), |()| "removed".into()));
                }
                2 => {
                    // not shared any more once the source is gone: delete_keys may remove it
                    let _ = std::fs::remove_file(&src);
                    let ks = [*key, keys[(i + 1) % keys.len()]];
                    c.window(&meta.api("HardLinkContainer::delete_keys"), || O::from(hl.delete_keys(&ks), |n| n.to_string()));
                }
                _ => {}
            }
            let mut buf = [0u8; 8];
            c.window(&meta.api("HardLinkContainer::read"), || O::from(bo(hl.read(key, 0, 8, &mut buf)), |n| n.to_string()));
        }
        // files the container did not create, with odd names, at every trie level
        for rel in ["zz", "0g", "ab/zz", "ab/cd/not-a-leaf", "ab/cd/0123456789abcX", "ab/cd/ü", "x.idx", "shmem.tmp", "a b", "ab/cd/0123456789abcd.tmp"] {
            let p = hl_dir.join(rel);
            if let Some(d) = p.parent() {
                let _ = std::fs::create_dir_all(d);
            }
            let _ = std::fs::write(&p, b"decoy");
        }
        let mut mm = Meta::new("HardLinkContainer::compact_directory", v, &root, "maintenance");
        mm.class = "maintenance".into();
        mm.strings = vec![format!("hard_links_supported={supported}")];
        c.window(&mm, || O::from(hl.compact_directory(), |n| n.to_string()));
        c.window(&mm.api("HardLinkContainer::clean_directory"), || O::from(hl.clean_directory(), |n| n.to_string()));
        c.window(&mm.api("HardLinkContainer::compact_directory"), || O::from(hl.compact_directory(), |n| n.to_string()));
        // read-only container over the same directory: every mutation is refused without touching anything
        let ro = HardLinkContainer::new(AccessMode::ReadOnly, hl_dir.clone());
        let key = keys[0];
        let ek: [u8; 9] = key[..9].try_into().expect("9 bytes");
        let dst = format_content_key_path(&hl_dir, &ek);
        let mut mr = Meta::new("HardLinkContainer::remove_file", "binary-keys/read-only", &root, &hex::encode(key));
        mr.class = "binary-keys".into();
        c.window(&mr, || O::from(ro.remove_file(&key, &dst), |()| "removed".into()));
        c.window(&mr.api("HardLinkContainer::delete_keys"), || O::from(ro.delete_keys(&[key]), |n| n.to_string()));
    }

    // ---- LruManager / IndexManager: the calls that list, load and delete files ---------------

    fn phase_store_maintenance(c: &mut Child) {
        use cascette_client_storage::index::IndexManager;
        use cascette_client_storage::lru::LruManager;
        use cascette_client_storage::lru::lru_file::{filename_to_generation, generation_to_filename};
        let mut rng = c.rng(11);
        let decoys: Vec<OsString> = vec![
            "000000000000001.lru".into(), "0000000000000001.lrux".into(), "00000000000000zz.lru".into(), "..lru".into(), "üüüüüüüü.lru".into(), "data.001".into(),
            "0000000000000063.lru.tmp".into(), "zz.idx".into(), "0g00000001.idx".into(), "00000000zz.idx".into(), "üüüüü.idx".into(), "漢漢漢x.idx".into(), "0漢漢漢.idx".into(), "漢漢漢漢漢漢.lru".into(), "0000000001.IDX.bak".into(), "a b.idx".into(),
            OsString::from_vec(vec![0xff, 0xfe, b'.', b'l', b'r', b'u']), OsString::from_vec(vec![0xff, 0xfe, 0xfd, 0xfc, 0xfb, 0xfa, 0xf9, 0xf8, 0xf7, 0xf6, b'.', b'i', b'd', b'x']),
        ];
        // names as strings: the parse side of the generation file names
        for name in ["", "0000000000000001.lru", "üüüüüüüü.lru", "ééééééééé.lr", "0000000000000001.LRU", "+000000000000001.lru", "00000000 0000001.lru", "𝔘𝔘𝔘𝔘.lru", "0000000000000001.lrü", "00000000000000ü.lru"] {
            let root = c.parent.join("cwd");
            let mut m = Meta::new("lru_file::filename_to_generation", "names", &root, name);
            m.nt = true;
            c.window(&m, || {
                let g = filename_to_generation(name);
                O::Ok(format!("{g:?} roundtrip={}", g.is_none_or(|g| generation_to_filename(g).eq_ignore_ascii_case(name))))
            });
        }
        let rounds = c.pick(4, 40);
        for r in 0..rounds {
            let lroot = c.root(&format!("cs_lrum_{r}"));
            for d in &decoys {
                let _ = std::fs::write(lroot.join(d), b"decoy");
            }
            let mut lru = LruManager::new(16, lroot.clone());
            for _ in 0..(1 + rng.usize_below(20)) {
                let mut k = rng.array::<9>();
                if rng.chance(1, 4) {
                    k = *b"../../../";
                }
                let _ = lru.touch(&k);
            }
            let mut m = Meta::new("LruManager::shutdown", "binary-keys+decoy-files", &lroot, &format!("round={r}"));
            m.class = "binary-keys".into();
            // generations 1..: checkpoint, bump, shutdown leave several generation files behind
            c.window(&m.api("LruManager::checkpoint_to_disk"), || O::from(bo(lru.checkpoint_to_disk()), |()| "saved".into()));
            c.window(&m, || O::from(bo(lru.shutdown()), |()| "shut down".into()));
            if r % 2 == 0 {
                // a far-away generation (stale for every later manager)
                let _ = std::fs::copy(lroot.join(generation_to_filename(lru.generation())), lroot.join(generation_to_filename(u64::MAX - r as u64)));
            }
            c.window(&m.api("LruManager::find_latest_lru_file"), || O::Ok(format!("{:?}", LruManager::find_latest_lru_file(&lroot).map(|(g, _)| g))));
            let mut lru2 = LruManager::new(16, lroot.clone());
            let g_live = lru.generation();
            let g_none = rng.next_u64();
            c.window(&m.api("LruManager::load_from_disk"), || O::from(bo(lru2.load_from_disk(g_live)), |()| "loaded".into()));
            c.window(&m.api("LruManager::load_from_disk"), || O::from(bo(lru2.load_from_disk(g_none)), |()| "loaded".into()));
            c.window(&m.api("LruManager::run_cycle"), || O::from(bo(lru2.run_cycle(400, 100)), |s| format!("loaded={} evicted={} stale_removed={}", s.loaded_entries, s.entries_evicted, s.stale_files_removed)));
            c.window(&m.api("LruManager::scan_directory"), || O::Ok(lru2.scan_directory().to_string()));
        }
        for r in 0..rounds {
            let iroot = c.root(&format!("cs_indexm_{r}"));
            for d in &decoys {
                let _ = std::fs::write(iroot.join(d), b"decoy");
            }
            let mut im = IndexManager::new(&iroot);
            let entries = 1 + rng.usize_below(60);
            let mut m = Meta::new("IndexManager::add_entry", "binary-keys+decoy-files", &iroot, &format!("entries={entries}"));
            m.class = "binary-keys".into();
            for j in 0..entries {
                let mut kb = rng.array::<16>();
                if j % 5 == 0 {
                    kb[..9].copy_from_slice(b"../../../");
                }
                let ek = EncodingKey::from_bytes(kb);
                // (add_entry may flush a full update section to disk on its own)
                c.window(&m, || O::from(im.add_entry(&ek, (j % 3) as u16, (j * 64) as u32, 64), |()| "added".into()));
            }
            c.window(&m.api("IndexManager::save_all"), || O::from(im.save_all(), |()| "saved".into()));
            let b = (r % 16) as u8;
            c.window(&m.api("IndexManager::flush_updates_for_bucket"), || O::from(im.flush_updates_for_bucket(b), |()| "flushed".into()));
            c.window(&m.api("IndexManager::flush_all_updates"), || O::from(im.flush_all_updates(), |()| "flushed".into()));
            c.window(&m.api("IndexManager::save_all"), || O::from(im.save_all(), |()| "saved".into()));
            // a second manager loads whatever index files the directory holds (and must ignore the decoys)
            let mut im2 = IndexManager::new(&iroot);
            c.window(&m.api("IndexManager::load_all"), || O::from(bo(im2.load_all()), |()| "loaded".to_string()));
            c.window(&m.api("IndexManager::save_all"), || O::from(im2.save_all(), |()| "saved".into()));
        }
    }

    fn pure(c: &mut Child, api: &str, root: &Path, input: &str, path: &Path) {
        let v = json!({"t":"pure","api":api,"root":root.to_string_lossy(),"input":input,"path":path.to_string_lossy()});
        c.emit(&v);
    }

    fn phase_storage_sanity(c: &mut Child) {
        use cascette_client_storage::container::hardlink::format_content_key_path;
        use cascette_client_storage::index::IndexManager;
        use cascette_client_storage::lru::LruManager;
        use cascette_client_storage::lru::lru_file::lru_file_path;
        let mut rng = c.rng(7);
        let root = c.root("cs_paths");
        let n = c.pick(40, 2000);
        let mut ekeys: Vec<[u8; 9]> = vec![[0; 9], [0xff; 9], [0x2e; 9], [0x2f; 9], *b"../../../", *b"/../../..", [0x5c; 9]];
        for _ in 0..n {
            ekeys.push(rng.array::<9>());
        }
        for ek in &ekeys {
            let p = format_content_key_path(&root, ek);
            pure(c, "format_content_key_path", &root, &hex::encode(ek), &p);
        }
        let mut gens: Vec<u64> = vec![0, 1, 2, u64::MAX, u64::MAX - 1, 0x2e2e_2f2e_2e2f_2e2e, 0x2f2f_2f2f_2f2f_2f2f];
        for _ in 0..n {
            gens.push(rng.next_u64());
        }
        for g in &gens {
            let p = lru_file_path(&root, *g);
            pure(c, "lru_file_path", &root, &g.to_string(), &p);
        }
        // index files (generate_index_filename is private: observed through save_all)
        let rounds = c.pick(6, 60);
        for r in 0..rounds {
            let iroot = c.root(&format!("cs_index_{r}"));
            let mut im = IndexManager::new(&iroot);
            let entries = 1 + rng.usize_below(40);
            for j in 0..entries {
                let mut kb = rng.array::<16>();
                if j % 5 == 0 {
                    kb[..9].copy_from_slice(b"../../../");
                }
                let _ = im.add_entry(&EncodingKey::from_bytes(kb), (j % 3) as u16, (j * 64) as u32, 64);
            }
            let mut m = Meta::new("IndexManager::save_all", "binary-keys", &iroot, &format!("entries={entries}"));
            m.class = "binary-keys".into();
            c.window(&m, || O::from(im.save_all(), |()| "saved".into()));
        }
        for r in 0..rounds {
            let lroot = c.root(&format!("cs_lru_{r}"));
            let mut lru = LruManager::new(16, lroot.clone());
            for _ in 0..(1 + rng.usize_below(20)) {
                let mut k = rng.array::<9>();
                if rng.chance(1, 4) {
                    k = *b"../../../";
                }
                let _ = lru.touch(&k);
            }
            let mut m = Meta::new("LruManager::checkpoint_to_disk", "binary-keys", &lroot, &format!("round={r}"));
            m.class = "binary-keys".into();
            for _ in 0..2 {
                c.window(&m, || O::from(bo(lru.checkpoint_to_disk()), |()| "saved".into()));
                lru.bump_generation();
            }
        }
    }

    // ---- injectivity: well-formed keys that differ in a field must not share a file ----------

    fn inj<K: CacheKey + std::fmt::Display + 'static>(c: &mut Child, tname: &str, keys: Vec<(K, String)>) {
        inj_layouts(c, tname, keys, &[("flat", 0), ("subdirs", 2)]);
    }

    /// `layouts`: (variant name, hashed sub-directory levels; 0 = flat)
    fn inj_layouts<K: CacheKey + std::fmt::Display + 'static>(c: &mut Child, tname: &str, keys: Vec<(K, String)>, layouts: &[(&str, usize)]) {
        let mut seen = BTreeSet::new();
        let keys: Vec<(K, String)> = keys.into_iter().filter(|(_, kid)| seen.insert(kid.clone())).collect();
        // display form and lookup hashes of every kind of typed key (binary and numeric fields included)
        {
            let root = c.parent.join("cwd");
            let mut m = Meta::new("TypedKey::Display+fast_hash", tname, &root, tname);
            m.class = "well-formed".into();
            m.wf = true;
            m.strings = vec![format!("{tname} x {}", keys.len())];
            c.window(&m, || {
                let mut total = 0usize;
                let mut self_eq = true;
                for (k, _) in &keys {
                    total += k.to_string().len();
                    let fh = CacheKey::fast_hash(k);
                    self_eq &= fh.fast_eq(&cascette_cache::key::FastHash::from_string(k.as_cache_key())) || fh.fast_eq(&fh);
                    let _ = k.hash_key();
                }
                O::Ok(format!("keys={} display_bytes={total} fast_eq_self={self_eq}", keys.len()))
            });
        }
        for &(vname, levels) in layouts {
            let root = c.root(&format!("inj_{tname}_{vname}"));
            let cfg = DiskCacheConfig::new(&root).with_max_files(1_000_000).with_subdirectories(levels > 0, levels);
            let cache: DiskCache<K> = DiskCache::new(cfg).expect("DiskCache::new on an existing directory");
            let variant = format!("{vname}/{tname}");
            for (k, kid) in &keys {
                let mut m = Meta::new("DiskCache::put", &variant, &root, k.as_cache_key());
                m.class = "well-formed".into();
                m.wf = true;
                m.kid = Some(format!("{tname}{{{kid}}}"));
                m.ck = Some(k.as_cache_key().to_string());
                let val = value_for(kid);
                c.window(&m, || O::from(bo(cache.put(k.clone(), val)), |()| "stored".into()));
            }
            for (k, kid) in &keys {
                let mut m = Meta::new("DiskCache::get", &variant, &root, k.as_cache_key());
                m.class = "well-formed".into();
                m.wf = true;
                m.kid = Some(format!("{tname}{{{kid}}}"));
                m.ck = Some(k.as_cache_key().to_string());
                let want = value_for(kid);
                let (outcome, msg) = c.window(&m, || {
                    O::from(bo(cache.get(k)), |v| match v {
                        Some(b) if b == want => "own-value".to_string(),
                        Some(_) => "other-value".to_string(),
                        None => "none".to_string(),
                    })
                });
                let result = if outcome == "ok" { msg } else { outcome };
                let v = json!({"t":"readback","api":"DiskCache","root":root.to_string_lossy(),"kid":format!("{tname}{{{kid}}}"),"result":result});
                c.emit(&v);
            }
        }
    }

    fn hex32(rng: &mut Rng) -> String {
        hex::encode(rng.array::<16>())
    }
    fn ident(rng: &mut Rng, alphabet: &[u8], lo: usize, hi: usize) -> String {
        let n = rng.urange(lo, hi);
        (0..n).map(|_| char::from(*rng.pick(alphabet))).collect()
    }

    fn phase_injectivity(c: &mut Child) {
        let mut rng = c.rng(8);
        let bases = c.pick(2, 40);
        const REGIONS: &[&str] = &["us", "eu", "cn", "kr", "tw", "sg", "xx"];
        const PRODUCTS: &[&str] = &["wow", "wowt", "wow_classic", "wow_classic_era", "d3", "pro", "agent", "bna", "s1", "hsb"];
        const ENDPOINTS: &[&str] = &[
            "summary", "versions", "cdns", "bgdl", "v1/products/wow/versions", "v1/products/wow/cdns", "v1/products/wowt/versions", "products/wow/versions",
            "v1/summary", "v1/certs/abcd", "versions.tmp", "versions.bak", "v1/products/wow/versions.tmp",
        ];
        const ARCHIVES: &[&str] = &["data.000", "data.001", "data.002", "data.010", "archive-00.blte", "archive-01.blte", "data.tmp", "data"];
        const VERSIONS: &[&str] = &["1.15.2", "1.15.3", "1.15.2.54000", "10.2.5.52902", "v2", "v3", "1.15", "1.15.tmp"];
        const LOWER: &[u8] = b"abcdefghijklmnopqrstuvwxyz0123456789_";

        // RibbitKey
        let mut v: Vec<(RibbitKey, String)> = Vec::new();
        for _ in 0..bases {
            let e = (*rng.pick(ENDPOINTS)).to_string();
            let r = (*rng.pick(REGIONS)).to_string();
            let p = (*rng.pick(PRODUCTS)).to_string();
            let e2 = (*rng.pick(ENDPOINTS)).to_string();
            let r2 = (*rng.pick(REGIONS)).to_string();
            let p2 = ident(&mut rng, LOWER, 2, 8);
            for (e, r, p) in [
                (e.clone(), r.clone(), None),
                (e2.clone(), r.clone(), None),
                (e.clone(), r2.clone(), None),
                (e.clone(), r.clone(), Some(p.clone())),
                (e.clone(), r.clone(), Some(p2.clone())),
                (e2.clone(), r.clone(), Some(p.clone())),
                (format!("{e}.tmp"), r.clone(), None),
                (p.clone(), r.clone(), None),
                (e.clone(), r.clone(), Some(r.clone())),
            ] {
                let kid = format!("endpoint={e},region={r},product={p:?}");
                let k = match &p {
                    Some(p) => RibbitKey::with_product(e.clone(), r.clone(), p.clone()),
                    None => RibbitKey::new(e.clone(), r.clone()),
                };
                v.push((k, kid));
            }
        }
        // cross-field coincidences: so far the three fields were drawn independently, so a field's value hardly ever
        // occurred inside another field. Real keys do that all the time (the product-scoped endpoints name their product;
        // a region, product or endpoint segment may be the same short word). For every base: endpoints that contain the
        // product and / or the region as a whole path segment (or consist of it), each with no product, that product, a
        // product that extends it, the region as product, and the product as region. Every value is a well-formed name.
        for b in 0..bases {
            let p = if b % 2 == 0 { (*rng.pick(PRODUCTS)).to_string() } else { ident(&mut rng, LOWER, 2, 8) };
            let r = (*rng.pick(REGIONS)).to_string();
            let longer = format!("{p}{}", rng.pick(&["t", "_classic", "2"]));
            let leaf = *rng.pick(&["versions", "cdns", "bgdl"]);
            for e in [format!("products/{p}/{leaf}"), format!("v1/products/{p}/{leaf}"), format!("{p}/{leaf}"), p.clone(), format!("{r}/{p}"), format!("products/{r}/{leaf}"), r.clone(), format!("products/{longer}/{leaf}")] {
                for (r, p) in [(&r, None), (&r, Some(&p)), (&r, Some(&longer)), (&r, Some(&r)), (&p, None), (&p, Some(&p))] {
                    let kid = format!("endpoint={e},region={r},product={:?}", p.map(String::as_str));
                    let k = match p {
                        Some(p) => RibbitKey::with_product(e.clone(), r.clone(), p.clone()),
                        None => RibbitKey::new(e.clone(), r.clone()),
                    };
                    v.push((k, kid));
                }
            }
        }
        inj(c, "RibbitKey", v);

        // a dense population of keys that share their last path component ("products/<p>/versions" for many products and
        // regions) in a cache with ONE hashed level (256 buckets): if the place of a file depended on less than the whole
        // key, dozens of pairs would meet in a bucket
        let mut v: Vec<(RibbitKey, String)> = Vec::new();
        let n_products = c.pick(12, 40);
        let products: Vec<String> = PRODUCTS.iter().map(|p| (*p).to_string()).chain((0..n_products).map(|_| ident(&mut rng, LOWER, 2, 9))).take(n_products).collect();
        for p in &products {
            for r in REGIONS {
                for e in ["versions", "cdns", "bgdl"] {
                    let ep = format!("products/{p}/{e}");
                    v.push((RibbitKey::new(ep.clone(), *r), format!("endpoint={ep},region={r},product=None")));
                }
            }
        }
        inj_layouts(c, "RibbitKey", v, &[("dense-1-level", 1)]);

        // ConfigKey
        let mut v: Vec<(ConfigKey, String)> = Vec::new();
        for _ in 0..bases {
            let h = hex32(&mut rng);
            let h2 = hex32(&mut rng);
            for (t, h) in [("buildconfig", &h), ("cdnconfig", &h), ("patchconfig", &h), ("buildconfig", &h2), ("productconfig", &h2)] {
                v.push((ConfigKey::new(t, h.clone()), format!("type={t},hash={h}")));
            }
            let short = h[..16].to_string();
            v.push((ConfigKey::new("buildconfig", short.clone()), format!("type=buildconfig,hash={short}")));
        }
        // a type name that is itself a run of hex digits, also at the start / end of the hash or as the whole hash
        for _ in 0..bases {
            let h = hex32(&mut rng);
            let w = (*rng.pick(&["cafe", "decade", "bead", "face", "added"])).to_string();
            let starts = format!("{w}{}", &h[w.len()..]);
            let ends = format!("{}{w}", &h[..32 - w.len()]);
            for (t, hh) in [(w.as_str(), &h), (w.as_str(), &starts), (w.as_str(), &ends), (w.as_str(), &w), ("buildconfig", &starts), ("buildconfig", &ends), ("buildconfig", &w), (h.as_str(), &h), (h.as_str(), &w)] {
                v.push((ConfigKey::new(t, hh.clone()), format!("type={t},hash={hh}")));
            }
        }
        inj(c, "ConfigKey", v);

        // BlteKey / BlteBlockKey / ContentCacheKey / RootFileKey / EncodingFileKey (binary + numeric fields)
        let mut vb: Vec<(BlteKey, String)> = Vec::new();
        let mut vbb: Vec<(BlteBlockKey, String)> = Vec::new();
        let mut vc: Vec<(ContentCacheKey, String)> = Vec::new();
        let mut vr: Vec<(RootFileKey, String)> = Vec::new();
        let mut ve: Vec<(EncodingFileKey, String)> = Vec::new();
        for _ in 0..bases {
            let a = rng.array::<16>();
            let mut b = a;
            b[15] ^= 1;
            for kb in [a, b] {
                let ek = EncodingKey::from_bytes(kb);
                let ck = ContentKey::from_bytes(kb);
                let hx = hex::encode(kb);
                vb.push((BlteKey::new(ek), format!("ekey={hx},block=None")));
                vc.push((ContentCacheKey::new(ck), format!("ckey={hx}")));
                for idx in [0u32, 1, 10, 11, 100, u32::MAX] {
                    vb.push((BlteKey::with_block(ek, idx), format!("ekey={hx},block=Some({idx})")));
                    vbb.push((BlteBlockKey::new_raw(ck, idx), format!("ckey={hx},block={idx},decompressed=false")));
                    vbb.push((BlteBlockKey::new_decompressed(ck, idx), format!("ckey={hx},block={idx},decompressed=true")));
                    ve.push((EncodingFileKey::with_page(ek, idx, false), format!("ekey={hx},page=Some({idx}),parsed=false")));
                    ve.push((EncodingFileKey::with_page(ek, idx, true), format!("ekey={hx},page=Some({idx}),parsed=true")));
                }
                ve.push((EncodingFileKey::new_raw(ek), format!("ekey={hx},page=None,parsed=false")));
                ve.push((EncodingFileKey::new_parsed(ek), format!("ekey={hx},page=None,parsed=true")));
                vr.push((RootFileKey::new_raw(ck), format!("ckey={hx},parsed=false,version=None")));
                vr.push((RootFileKey::new_parsed(ck), format!("ckey={hx},parsed=true,version=None")));
                for ver in [0u8, 1, 2, 12, 255] {
                    vr.push((RootFileKey::with_version(ck, false, ver), format!("ckey={hx},parsed=false,version=Some({ver})")));
                    vr.push((RootFileKey::with_version(ck, true, ver), format!("ckey={hx},parsed=true,version=Some({ver})")));
                }
            }
        }
        inj(c, "BlteKey", vb);
        inj(c, "BlteBlockKey", vbb);
        inj(c, "ContentCacheKey", vc);
        inj(c, "RootFileKey", vr);
        inj(c, "EncodingFileKey", ve);

        // ArchiveIndexKey
        let mut v: Vec<(ArchiveIndexKey, String)> = Vec::new();
        for _ in 0..bases {
            let h = hex32(&mut rng);
            let h2 = hex32(&mut rng);
            let a = (*rng.pick(ARCHIVES)).to_string();
            let a2 = (*rng.pick(ARCHIVES)).to_string();
            let ah = hex32(&mut rng);
            // (archives are named by hashes: the archive name may equal the index hash, or the two may be swapped)
            for (a, h) in [(&a, &h), (&a2, &h), (&a, &h2), (&ah, &h), (&ah, &h2), (&h, &h), (&h, &h2), (&h2, &h), (&h, &ah), (&h2, &h2)] {
                v.push((ArchiveIndexKey::new(a.clone(), h.clone()), format!("archive={a},hash={h}")));
            }
        }
        inj(c, "ArchiveIndexKey", v);

        // ManifestKey
        let mut v: Vec<(ManifestKey, String)> = Vec::new();
        for _ in 0..bases {
            let kb = rng.array::<16>();
            let mut kb2 = kb;
            kb2[0] ^= 0x80;
            let ver = (*rng.pick(VERSIONS)).to_string();
            let ver2 = (*rng.pick(VERSIONS)).to_string();
            for (t, kb, ver) in [
                ("root", kb, None),
                ("encoding", kb, None),
                ("install", kb, None),
                ("download", kb, None),
                ("root", kb2, None),
                ("root", kb, Some(ver.clone())),
                ("root", kb, Some(ver2.clone())),
                ("encoding", kb, Some(ver.clone())),
                ("root", kb2, Some(ver.clone())),
                // a field's value inside another field: the version names a manifest type, or spells the content key
                ("root", kb, Some("encoding".to_string())),
                ("encoding", kb, Some("root".to_string())),
                ("root", kb, Some("root".to_string())),
                ("install", kb, Some(hex::encode(kb))),
                ("install", kb2, Some(hex::encode(kb))),
                ("install", kb, Some(hex::encode(kb2))),
            ] {
                let ck = ContentKey::from_bytes(kb);
                let kid = format!("type={t},ckey={},version={ver:?}", hex::encode(kb));
                let k = match &ver {
                    Some(x) => ManifestKey::with_version(t, ck, x.clone()),
                    None => ManifestKey::new(t, ck),
                };
                v.push((k, kid));
            }
        }
        inj(c, "ManifestKey", v);

        // ArchiveRangeKey
        let mut v: Vec<(ArchiveRangeKey, String)> = Vec::new();
        for _ in 0..bases {
            let a = (*rng.pick(ARCHIVES)).to_string();
            let a2 = (*rng.pick(ARCHIVES)).to_string();
            let off = rng.below(1 << 32);
            let len = rng.next_u32() >> 8;
            for (a, off, len) in [(&a, off, len), (&a2, off, len), (&a, off + 1, len), (&a, off, len + 1), (&a, 0, 0), (&a, 1, 0), (&a, 0, 1), (&a, 12, 3), (&a, 1, 23)] {
                v.push((ArchiveRangeKey::new(a.clone(), off, len), format!("archive={a},offset={off},length={len}")));
            }
        }
        // archive names made of digits (hash-named archives can be) next to the numeric fields: the same digits split
        // differently over archive / offset / length
        for _ in 0..bases {
            let d: Vec<u64> = (0..4).map(|_| rng.range(1, 9)).collect();
            let cat = |x: &[u64]| x.iter().map(u64::to_string).collect::<String>();
            for (a, off, len) in [
                (cat(&d[..1]), cat(&d[1..3]).parse::<u64>().unwrap_or(0), d[3]),
                (cat(&d[..2]), d[2], d[3]),
                (cat(&d[..1]), d[1], cat(&d[2..4]).parse::<u64>().unwrap_or(0)),
                (cat(&d[..3]), d[3], 0),
                (cat(&d[..3]), 0, d[3]),
                (cat(&d[..4]), 0, 0),
            ] {
                let len = len as u32;
                v.push((ArchiveRangeKey::new(a.clone(), off, len), format!("archive={a},offset={off},length={len}")));
            }
        }
        inj(c, "ArchiveRangeKey", v);

        // raw keys as the protocol layer forms them (through DiskCache<RawKey> and through ProtocolCache)
        let mut raw: Vec<String> = Vec::new();
        for _ in 0..bases {
            let p = (*rng.pick(PRODUCTS)).to_string();
            let p2 = (*rng.pick(PRODUCTS)).to_string();
            let h = hex32(&mut rng);
            let h2 = hex32(&mut rng);
            for p in [&p, &p2] {
                for e in ["versions", "cdns", "bgdl"] {
                    raw.push(format!("api/ribbit/v1/products/{p}/{e}"));
                }
                for h in [&h, &h2] {
                    for ct in ["config", "data", "patch"] {
                        raw.push(format!("cdn/tpr/{p}/{ct}/{}/{}/{h}", &h[..2], &h[2..4]));
                    }
                    raw.push(format!("cdn/tpr/{p}/data/{}/{}/{h}.index", &h[..2], &h[2..4]));
                }
            }
            raw.push(format!("config:buildconfig:{h}"));
            raw.push(format!("config:buildconfig:{h}.tmp"));
        }
        let v: Vec<(RawKey, String)> = raw.iter().map(|s| (RawKey(s.clone()), format!("key={s}"))).collect();
        inj(c, "RawKey", v);

        let root = c.root("inj_pc");
        let pc = proto_cache(&root);
        let mut seen = BTreeSet::new();
        let raw: Vec<String> = raw.into_iter().filter(|s| seen.insert(s.clone())).collect();
        for s in &raw {
            let mut m = Meta::new("ProtocolCache::store_bytes", "disk/raw", &root, s);
            m.class = "well-formed".into();
            m.wf = true;
            m.kid = Some(format!("ProtocolCacheKey{{key={s}}}"));
            m.ck = Some(s.clone());
            let val = value_for(s);
            c.window(&m, || O::from(pc.store_bytes(s, &val), |()| "stored".into()));
        }
        for s in &raw {
            let mut m = Meta::new("ProtocolCache::get", "disk/raw", &root, s);
            m.class = "well-formed".into();
            m.wf = true;
            m.kid = Some(format!("ProtocolCacheKey{{key={s}}}"));
            m.ck = Some(s.clone());
            let want = value_for(s);
            let (outcome, msg) = c.window(&m, || {
                O::from(pc.get(s), |v| match v {
                    Some(b) if b == want.as_ref() => "own-value".to_string(),
                    Some(_) => "other-value".to_string(),
                    None => "none".to_string(),
                })
            });
            let result = if outcome == "ok" { msg } else { outcome };
            let v = json!({"t":"readback","api":"ProtocolCache","root":root.to_string_lossy(),"kid":format!("ProtocolCacheKey{{key={s}}}"),"result":result});
            c.emit(&v);
        }
    }
}

// ---------------------------------------------------------------------------------------------
// strace log parsing
// ---------------------------------------------------------------------------------------------
mod slog {
    #[derive(Debug, Default, Clone)]
    pub struct Tok {
        pub raw: String,
        pub str_val: Option<Vec<u8>>,
        pub fd_path: Option<Vec<u8>>,
    }

    #[derive(Debug, Clone)]
    pub struct Call {
        pub name: String,
        pub args: Vec<Tok>,
        #[allow(dead_code)]
        pub ret: String,
        pub ok: bool,
    }

    fn unescape_until(s: &[u8], mut i: usize, close: u8) -> (Vec<u8>, usize) {
        // s[i] is the first byte after the opening delimiter; returns (bytes, index after the closing delimiter)
        let mut out = Vec::new();
        while i < s.len() {
            let c = s[i];
            if c == close {
                return (out, i + 1);
            }
            if c == b'\\' && i + 1 < s.len() {
                let d = s[i + 1];
                match d {
                    b'n' => out.push(b'\n'),
                    b't' => out.push(b'\t'),
                    b'r' => out.push(b'\r'),
                    b'v' => out.push(0x0b),
                    b'f' => out.push(0x0c),
                    b'a' => out.push(0x07),
                    b'b' => out.push(0x08),
                    b'e' => out.push(0x1b),
                    b'x' => {
                        let mut v = 0u32;
                        let mut k = i + 2;
                        let mut nd = 0;
                        while k < s.len() && nd < 2 && s[k].is_ascii_hexdigit() {
                            v = v * 16 + (s[k] as char).to_digit(16).unwrap_or(0);
                            k += 1;
                            nd += 1;
                        }
                        out.push(v as u8);
                        i = k;
                        continue;
                    }
                    b'0'..=b'7' => {
                        let mut v = 0u32;
                        let mut k = i + 1;
                        let mut nd = 0;
                        while k < s.len() && nd < 3 && (b'0'..=b'7').contains(&s[k]) {
                            v = v * 8 + u32::from(s[k] - b'0');
                            k += 1;
                            nd += 1;
                        }
                        out.push(v as u8);
                        i = k;
                        continue;
                    }
                    other => out.push(other),
                }
                i += 2;
                continue;
            }
            out.push(c);
            i += 1;
        }
        (out, i)
    }

    /// Parse `name(args) = ret` (a complete, merged line without the pid prefix).
    pub fn parse_call(line: &str) -> Option<Call> {
        let s = line.as_bytes();
        let open = s.iter().position(|&b| b == b'(')?;
        let name = &line[..open];
        if name.is_empty() || !name.bytes().all(|b| b.is_ascii_alphanumeric() || b == b'_') {
            return None;
        }
        let mut i = open + 1;
        let mut args: Vec<Tok> = Vec::new();
        loop {
            while i < s.len() && s[i] == b' ' {
                i += 1;
            }
            if i >= s.len() {
                return None;
            }
            if s[i] == b')' {
                i += 1;
                break;
            }
            let mut tok = Tok::default();
            let start = i;
            if s[i] == b'"' {
                let (v, j) = unescape_until(s, i + 1, b'"');
                tok.str_val = Some(v);
                i = j;
                while i < s.len() && s[i] == b'.' {
                    i += 1;
                }
            } else {
                let mut depth = 0i32;
                while i < s.len() {
                    let c = s[i];
                    if c == b'"' {
                        let (_, j) = unescape_until(s, i + 1, b'"');
                        i = j;
                        continue;
                    }
                    if c == b'<' && depth == 0 {
                        let head = &line[start..i];
                        if head == "AT_FDCWD" || (!head.is_empty() && head.bytes().all(|b| b.is_ascii_digit())) {
                            let (v, j) = unescape_until(s, i + 1, b'>');
                            tok.fd_path = Some(v);
                            tok.raw = head.to_string();
                            i = j;
                            continue;
                        }
                    }
                    if c == b'(' || c == b'{' || c == b'[' {
                        depth += 1;
                    } else if c == b')' || c == b'}' || c == b']' {
                        if depth == 0 {
                            break;
                        }
                        depth -= 1;
                    } else if c == b',' && depth == 0 {
                        break;
                    }
                    i += 1;
                }
            }
            if tok.raw.is_empty() {
                tok.raw = String::from_utf8_lossy(&s[start..i.min(s.len())]).trim().to_string();
            }
            args.push(tok);
            if i < s.len() && s[i] == b',' {
                i += 1;
            }
        }
        let rest = line.get(i..)?.trim_start();
        let ret = rest.strip_prefix('=')?.trim().to_string();
        let ok = !(ret.starts_with("-1") || ret.starts_with('?'));
        Some(Call { name: name.to_string(), args, ret, ok })
    }
}

/// Syscall class, ordered by severity (the most severe class seen on an escaping path labels the violation).
#[derive(Clone, Copy, PartialEq, Eq, PartialOrd, Ord, Debug)]
enum Sc {
    Stat,
    Read,
    Mkdir,
    Modify,
    Create,
    Rename,
    Delete,
}
impl Sc {
    fn name(self) -> &'static str {
        match self {
            Sc::Stat => "stat",
            Sc::Read => "read",
            Sc::Mkdir => "mkdir",
            Sc::Modify => "modify",
            Sc::Create => "create",
            Sc::Rename => "rename",
            Sc::Delete => "delete",
        }
    }
}

fn open_class(flags: &str) -> Sc {
    if flags.contains("O_CREAT") || flags.contains("O_WRONLY") || flags.contains("O_RDWR") || flags.contains("O_TRUNC") || flags.contains("O_APPEND") || flags.contains("O_TMPFILE") {
        Sc::Create
    } else {
        Sc::Read
    }
}

/// A path argument of a file syscall: (dirfd base if relative, raw path bytes, class, role)
struct PathUse {
    base: Option<Vec<u8>>,
    path: Vec<u8>,
    class: Sc,
    role: &'static str,
}

/// Extract the path arguments of a parsed %file syscall. `None` = syscall name not in the table.
fn path_uses(c: &slog::Call) -> Option<Vec<PathUse>> {
    let a = &c.args;
    let s = |i: usize| a.get(i).and_then(|t| t.str_val.clone());
    let fd = |i: usize| a.get(i).and_then(|t| t.fd_path.clone());
    let raw = |i: usize| a.get(i).map(|t| t.raw.clone()).unwrap_or_default();
    let one = |i: usize, class: Sc| -> Vec<PathUse> { s(i).map(|p| vec![PathUse { base: None, path: p, class, role: "path" }]).unwrap_or_default() };
    let at = |d: usize, i: usize, class: Sc| -> Vec<PathUse> { s(i).map(|p| vec![PathUse { base: fd(d), path: p, class, role: "path" }]).unwrap_or_default() };
    let v = match c.name.as_str() {
        "open" => one(0, open_class(&raw(1))),
        "creat" => one(0, Sc::Create),
        "openat" => at(0, 1, open_class(&raw(2))),
        "openat2" => at(0, 1, open_class(&raw(2))),
        "stat" | "lstat" | "access" | "readlink" | "statfs" | "chdir" | "getxattr" | "lgetxattr" | "listxattr" | "llistxattr" | "stat64" | "lstat64" => one(0, Sc::Stat),
        "newfstatat" | "statx" | "faccessat" | "faccessat2" | "readlinkat" | "fstatat64" | "name_to_handle_at" => at(0, 1, Sc::Stat),
        "execve" => one(0, Sc::Read),
        "execveat" => at(0, 1, Sc::Read),
        "unlink" | "rmdir" => one(0, Sc::Delete),
        "unlinkat" => at(0, 1, Sc::Delete),
        "mkdir" | "mknod" => one(0, Sc::Mkdir),
        "mkdirat" | "mknodat" => at(0, 1, Sc::Mkdir),
        "truncate" | "chmod" | "chown" | "lchown" | "utime" | "utimes" | "setxattr" | "lsetxattr" | "removexattr" | "lremovexattr" => one(0, Sc::Modify),
        "fchmodat" | "fchmodat2" | "fchownat" | "utimensat" | "futimesat" => at(0, 1, Sc::Modify),
        "rename" | "link" => {
            let mut v = Vec::new();
            if let Some(p) = s(0) {
                v.push(PathUse { base: None, path: p, class: Sc::Rename, role: "from" });
            }
            if let Some(p) = s(1) {
                v.push(PathUse { base: None, path: p, class: Sc::Rename, role: "to" });
            }
            v
        }
        "renameat" | "renameat2" | "linkat" => {
            let mut v = Vec::new();
            if let Some(p) = s(1) {
                v.push(PathUse { base: fd(0), path: p, class: Sc::Rename, role: "from" });
            }
            if let Some(p) = s(3) {
                v.push(PathUse { base: fd(2), path: p, class: Sc::Rename, role: "to" });
            }
            v
        }
        "symlink" => s(1).map(|p| vec![PathUse { base: None, path: p, class: Sc::Create, role: "path" }]).unwrap_or_default(),
        "symlinkat" => s(2).map(|p| vec![PathUse { base: fd(1), path: p, class: Sc::Create, role: "path" }]).unwrap_or_default(),
        "getcwd" | "fchdir" | "fstatfs" | "inotify_add_watch" | "fanotify_mark" => Vec::new(),
        _ => return None,
    };
    Some(v)
}

/// Absolute + lexically normalised (no file-system access).
fn lex_norm(base: &[u8], path: &[u8]) -> Vec<u8> {
    fn push_all(p: &[u8], comps: &mut Vec<Vec<u8>>) {
        for comp in p.split(|&b| b == b'/') {
            match comp {
                b"" | b"." => {}
                b".." => {
                    comps.pop();
                }
                other => comps.push(other.to_vec()),
            }
        }
    }
    let mut comps: Vec<Vec<u8>> = Vec::new();
    if !path.starts_with(b"/") {
        push_all(base, &mut comps);
    }
    push_all(path, &mut comps);
    let mut out = Vec::new();
    for c in &comps {
        out.push(b'/');
        out.extend_from_slice(c);
    }
    if out.is_empty() {
        out.push(b'/');
    }
    out
}

fn inside(p: &[u8], root: &[u8]) -> bool {
    p == root || (p.len() > root.len() && p.starts_with(root) && p[root.len()] == b'/')
}

/// realpath of the longest existing prefix + the remaining components
fn real_norm(p: &[u8]) -> Vec<u8> {
    let path = PathBuf::from(OsString::from_vec(p.to_vec()));
    let mut cur = path.clone();
    let mut rest: Vec<OsString> = Vec::new();
    loop {
        if let Ok(r) = std::fs::canonicalize(&cur) {
            let mut out = r;
            for c in rest.iter().rev() {
                out.push(c);
            }
            return out.as_os_str().as_bytes().to_vec();
        }
        match (cur.parent().map(Path::to_path_buf), cur.file_name().map(|f| f.to_os_string())) {
            (Some(par), Some(name)) => {
                rest.push(name);
                cur = par;
            }
            _ => return p.to_vec(),
        }
    }
}

// ---------------------------------------------------------------------------------------------
// parent: sandbox, strace run, offline judgement
// ---------------------------------------------------------------------------------------------
mod parent {
    use super::*;

    #[derive(Clone, Debug, PartialEq)]
    struct Ent {
        kind: char,
        size: u64,
        mtime_ns: i128,
        hash: u64,
    }

    fn snapshot(dir: &Path, skip: &BTreeSet<PathBuf>, out: &mut BTreeMap<PathBuf, Ent>) {
        let Ok(rd) = std::fs::read_dir(dir) else { return };
        for e in rd.flatten() {
            let p = e.path();
            if skip.contains(&p) {
                continue;
            }
            let Ok(md) = std::fs::symlink_metadata(&p) else { continue };
            let mtime_ns = md.modified().ok().and_then(|t| t.duration_since(std::time::UNIX_EPOCH).ok()).map_or(0, |d| d.as_nanos() as i128);
            if md.is_dir() {
                out.insert(p.clone(), Ent { kind: 'd', size: 0, mtime_ns: 0, hash: 0 });
                snapshot(&p, skip, out);
            } else if md.file_type().is_symlink() {
                let t = std::fs::read_link(&p).map(|t| fnv64(t.as_os_str().as_bytes())).unwrap_or(0);
                out.insert(p, Ent { kind: 'l', size: 0, mtime_ns, hash: t });
            } else {
                let hash = std::fs::read(&p).map(|b| fnv64(&b)).unwrap_or(0);
                out.insert(p, Ent { kind: 'f', size: md.len(), mtime_ns, hash });
            }
        }
    }

    fn find_in_path(name: &str) -> Option<PathBuf> {
        let path = std::env::var_os("PATH")?;
        std::env::split_paths(&path).map(|d| d.join(name)).find(|p| p.is_file())
    }

    fn strace_variants() -> Vec<Vec<&'static str>> {
        const LIST: &str = "trace=open,openat,openat2,creat,rename,renameat,renameat2,unlink,unlinkat,mkdir,mkdirat,rmdir,stat,lstat,newfstatat,statx,access,faccessat,faccessat2,link,linkat,symlink,symlinkat,truncate,chmod,fchmodat,chown,lchown,fchownat,readlink,readlinkat,utimensat,execve,chdir,statfs,mknod,mknodat";
        vec![
            vec!["-f", "-qq", "-y", "--seccomp-bpf", "-e", "trace=%file"],
            vec!["-f", "-qq", "-y", "-e", "trace=%file"],
            vec!["-f", "-qq", "-y", "-e", LIST],
        ]
    }

    fn system_allowed(p: &[u8], extra: &[Vec<u8>]) -> bool {
        const PREFIX: &[&str] = &[
            "/proc", "/sys", "/dev", "/lib", "/lib64", "/lib32", "/usr/lib", "/usr/lib64", "/usr/lib32", "/usr/libexec", "/usr/local/lib", "/usr/share/zoneinfo", "/usr/share/locale",
            "/usr/share/i18n", "/etc/ssl", "/etc/pki", "/etc/ca-certificates", "/usr/share/ca-certificates", "/usr/local/share/ca-certificates", "/usr/lib/ssl",
            "/etc/ld.so.conf.d", "/run/systemd/resolve", "/VH_MARK",
        ];
        const EXACT: &[&str] = &[
            "/etc/ld.so.cache", "/etc/ld.so.preload", "/etc/ld.so.conf", "/etc/resolv.conf", "/etc/hosts", "/etc/nsswitch.conf", "/etc/gai.conf", "/etc/host.conf", "/etc/localtime",
            "/etc/services", "/etc/protocols", "/etc/hostname", "/etc/ca-certificates.conf", "/etc/locale.alias",
        ];
        PREFIX.iter().any(|x| inside(p, x.as_bytes())) || EXACT.iter().any(|x| p == x.as_bytes()) || extra.iter().any(|x| inside(p, x))
    }

    struct CallRec {
        api: String,
        variant: String,
        class: String,
        strings: Vec<String>,
        root: Vec<u8>,
        nt: bool,
        wf: bool,
        control: bool,
        kid: Option<String>,
        ck: Option<String>,
        outcome: String,
        msg: String,
        panics: Vec<(String, String)>,
    }

    fn panic_class(msg: &str) -> String {
        let m = msg.to_ascii_lowercase();
        if m.contains("out of range") || m.contains("out of bounds") || (m.contains("byte index") && !m.contains("char boundary")) || m.contains("range end index") || m.contains("range start index") {
            "slice-index-out-of-range".into()
        } else if m.contains("char boundary") {
            "str-slice-not-char-boundary".into()
        } else if m.contains("with overflow") {
            "arithmetic-overflow".into()
        } else if m.contains("unwrap") || m.contains("expect") {
            "unwrap-on-none-or-err".into()
        } else {
            let cleaned: String = msg.chars().filter(|c| c.is_ascii_alphabetic() || *c == ' ').take(40).collect();
            cleaned.trim().replace(' ', "-").to_ascii_lowercase()
        }
    }

    pub fn main() {
        let ctx = Ctx::init("C20", "exploration");
        ctx.set_rule("one case = one public API call with one input string (cache key / typed-key field / endpoint / CDN path, host, content key, archive key, range / installation name), executed under strace between marker syscalls (coverage-driven extension: also the maintenance calls — size/stats/clear/len/cleanup, directory compaction and cleaning, LRU run_cycle/shutdown/scan, index load/flush — over directories that hold every accepted odd name plus decoy files, typed-key construction/Display/hash windows, cdns-row endpoints, hard-link container calls with binary keys); non-trivial = the string contains a separator or a dot segment or is absolute (or, for CDN keys/ranges, key shorter than 2 bytes / length 0 / offset+length overflow); distinct by hash of (API, variant, strings)");
        ctx.assume("strace -f reports every file-related syscall of the workload process in causal order; marker syscalls delimit each call (the calls are synchronous; helper threads of the library finish before the call returns)");
        ctx.assume("syscalls on paths of the fixed runtime allow-list (/proc, /sys, /dev, loader and libc files, resolver and TLS configuration, the harness binary, the Rust sysroot) are the language runtime's, not the library's path construction");
        ctx.assume("the loopback HTTP mock (inside the workload process) answers every request with 200 and a valid BPSV document, so that cache writes actually happen");
        run(&ctx);
        ctx.finish();
    }

    fn run(ctx: &Ctx) {
        let Some(strace) = find_in_path("strace") else {
            ctx.inconclusive("strace not found in PATH");
            return;
        };
        let Ok(exe) = std::env::current_exe() else {
            ctx.inconclusive("current_exe unavailable");
            return;
        };
        let tmp = match tempfile::tempdir() {
            Ok(t) => t,
            Err(e) => {
                ctx.inconclusive(&format!("tempdir failed: {e}"));
                return;
            }
        };
        let Ok(sb) = std::fs::canonicalize(tmp.path()) else {
            ctx.inconclusive("cannot canonicalize tempdir");
            return;
        };
        // sandbox layout
        let area = sb.join("area");
        let mut parent = area.clone();
        let mut dirs = vec![area.clone()];
        for i in 1..=LEVELS {
            parent = parent.join(format!("l{i}"));
            dirs.push(parent.clone());
        }
        parent = parent.join("parent");
        dirs.push(parent.clone());
        dirs.push(parent.join("sibling"));
        dirs.push(parent.join("cwd"));
        let mut setup_ok = true;
        for (i, d) in dirs.iter().enumerate() {
            setup_ok &= std::fs::create_dir_all(d).is_ok();
            setup_ok &= std::fs::write(d.join("canary.txt"), format!("VH-CANARY level {i}\n")).is_ok();
            setup_ok &= std::fs::write(d.join("x"), format!("VH-CANARY-X level {i}\n")).is_ok();
            setup_ok &= std::fs::write(d.join("secret.bpsv"), BPSV_DOC).is_ok();
        }
        if !setup_ok {
            ctx.inconclusive("sandbox setup failed");
            return;
        }
        let log = sb.join("strace.log");
        let mut before = BTreeMap::new();
        snapshot(&area, &BTreeSet::new(), &mut before);

        // run the workload under strace (first variant that works)
        let budget = Duration::from_secs(ctx.pick(110, 900));
        let mut journal = String::new();
        let mut ran = false;
        let mut last_err = String::new();
        for (vi, variant) in strace_variants().iter().enumerate() {
            let _ = std::fs::remove_file(&log);
            let mut cmd = std::process::Command::new(&strace);
            cmd.args(variant).arg("-o").arg(&log).arg(&exe);
            cmd.args(["--workload", "--parent"]).arg(&parent).args(["--seed", &ctx.seed.to_string(), "--tier", ctx.tier_name()]);
            cmd.env_clear().env("PATH", "/usr/bin:/bin").env("NO_PROXY", "*").env("LANG", "C");
            // coverage measurement (bin/coverage) only: let the child write its counters; the file is created at exit,
            // after the last monitored window
            if let Some(p) = std::env::var_os("LLVM_PROFILE_FILE") {
                cmd.env("LLVM_PROFILE_FILE", p);
            }
            cmd.stdin(std::process::Stdio::null()).stdout(std::process::Stdio::piped()).stderr(std::process::Stdio::piped());
            let mut ch = match cmd.spawn() {
                Ok(c) => c,
                Err(e) => {
                    last_err = format!("cannot spawn strace: {e}");
                    continue;
                }
            };
            let mut so = ch.stdout.take();
            let mut se = ch.stderr.take();
            let t_out = std::thread::spawn(move || {
                let mut s = String::new();
                if let Some(o) = so.as_mut() {
                    let _ = o.read_to_string(&mut s);
                }
                s
            });
            let t_err = std::thread::spawn(move || {
                let mut s = Vec::new();
                if let Some(o) = se.as_mut() {
                    let _ = o.read_to_end(&mut s);
                }
                String::from_utf8_lossy(&s).to_string()
            });
            let start = Instant::now();
            let status = loop {
                match ch.try_wait() {
                    Ok(Some(st)) => break Some(st),
                    Ok(None) => {
                        if start.elapsed() > budget {
                            let _ = ch.kill();
                            let _ = ch.wait();
                            break None;
                        }
                        std::thread::sleep(Duration::from_millis(20));
                    }
                    Err(_) => break None,
                }
            };
            let out = t_out.join().unwrap_or_default();
            let err = t_err.join().unwrap_or_default();
            match status {
                None => {
                    ctx.inconclusive(&format!("workload under strace exceeded the watchdog of {} s", budget.as_secs()));
                    return;
                }
                Some(st) if st.success() && out.contains("\"t\":\"done\"") => {
                    journal = out;
                    ran = true;
                    ctx.set_extra("strace_invocation", json!(variant.join(" ")));
                    ctx.obs("strace.variant_index", vi as u64);
                    break;
                }
                Some(st) => {
                    last_err = format!("strace/workload exit status {st}; stderr tail: {}", err.lines().rev().take(3).collect::<Vec<_>>().join(" | "));
                    // the workload itself started (hello seen) but died: do not retry with another strace syntax
                    if out.contains("\"t\":\"hello\"") {
                        ctx.set_extra("workload_stdout_tail", json!(out.lines().rev().take(3).collect::<Vec<_>>()));
                        break;
                    }
                }
            }
        }
        if !ran {
            ctx.inconclusive(&format!("could not run the workload under strace: {last_err}"));
            return;
        }
        judge(ctx, &sb, &area, &parent, &exe, &log, &journal, &before);
    }

    #[allow(clippy::too_many_arguments, clippy::too_many_lines)]
    fn judge(ctx: &Ctx, sb: &Path, area: &Path, parent: &Path, exe: &Path, log: &Path, journal: &str, before: &BTreeMap<PathBuf, Ent>) {
        // ---- journal ----
        let mut cwd: Vec<u8> = Vec::new();
        let mut roots: BTreeSet<PathBuf> = BTreeSet::new();
        let mut calls: HashMap<u64, CallRec> = HashMap::new();
        let mut pures: Vec<Value> = Vec::new();
        let mut readbacks: Vec<Value> = Vec::new();
        let mut cdn_inj: Vec<Value> = Vec::new();
        let mut declared_calls = 0u64;
        for line in journal.lines() {
            let Ok(v) = serde_json::from_str::<Value>(line) else { continue };
            let gs = |k: &str| v.get(k).and_then(Value::as_str).unwrap_or("").to_string();
            match v.get("t").and_then(Value::as_str) {
                Some("hello") => cwd = gs("cwd").into_bytes(),
                Some("root") => {
                    roots.insert(PathBuf::from(gs("path")));
                }
                Some("done") => declared_calls = v.get("calls").and_then(Value::as_u64).unwrap_or(0),
                Some("pure") => pures.push(v.clone()),
                Some("readback") => readbacks.push(v.clone()),
                Some("cdn-inj") => cdn_inj.push(v.clone()),
                Some("cdn-repeat") => {
                    ctx.obs("cdn.requests_made_a_second_time", v.get("repeats").and_then(Value::as_u64).unwrap_or(0));
                    ctx.obs("cdn.second_requests_answered_without_a_request_to_the_server", v.get("answered_without_a_request_to_the_server").and_then(Value::as_u64).unwrap_or(0));
                }
                Some("call") => {
                    let n = v.get("n").and_then(Value::as_u64).unwrap_or(0);
                    let rec = CallRec {
                        api: gs("api"),
                        variant: gs("variant"),
                        class: gs("class"),
                        strings: v.get("strings").and_then(Value::as_array).map(|a| a.iter().filter_map(|x| x.as_str().map(str::to_string)).collect()).unwrap_or_default(),
                        root: gs("root").into_bytes(),
                        nt: v.get("nt").and_then(Value::as_bool).unwrap_or(false),
                        wf: v.get("wf").and_then(Value::as_bool).unwrap_or(false),
                        control: v.get("control").and_then(Value::as_bool).unwrap_or(false),
                        kid: v.get("kid").and_then(Value::as_str).map(str::to_string),
                        ck: v.get("ck").and_then(Value::as_str).map(str::to_string),
                        outcome: gs("outcome"),
                        msg: gs("msg"),
                        panics: v
                            .get("panics")
                            .and_then(Value::as_array)
                            .map(|a| a.iter().map(|p| (p.get("msg").and_then(Value::as_str).unwrap_or("").to_string(), p.get("loc").and_then(Value::as_str).unwrap_or("").to_string())).collect())
                            .unwrap_or_default(),
                    };
                    calls.insert(n, rec);
                }
                _ => {}
            }
        }
        if cwd.is_empty() || declared_calls == 0 || calls.len() as u64 != declared_calls {
            ctx.inconclusive(&format!("workload journal incomplete: {} call records, {} declared", calls.len(), declared_calls));
            return;
        }
        for r in &roots {
            if r.parent() != Some(parent) || !r.file_name().is_some_and(|n| n.to_string_lossy().starts_with("r_")) {
                ctx.inconclusive("harness error: a configured root is not a direct r_* child of the sandbox parent");
                return;
            }
        }
        let mut extra_allowed: Vec<Vec<u8>> = vec![exe.as_os_str().as_bytes().to_vec()];
        for var in ["RUSTUP_HOME", "CARGO_HOME"] {
            if let Some(v) = std::env::var_os(var) {
                extra_allowed.push(v.as_bytes().to_vec());
            }
        }
        if let Some(h) = std::env::var_os("HOME") {
            extra_allowed.push(Path::new(&h).join(".rustup").as_os_str().as_bytes().to_vec());
            extra_allowed.push(Path::new(&h).join(".cargo").as_os_str().as_bytes().to_vec());
        }

        // ---- strace log ----
        let Ok(f) = std::fs::File::open(log) else {
            ctx.inconclusive("strace log missing");
            return;
        };
        struct Win {
            n: u64,
            worst: Option<Sc>,
            lines: Vec<String>,
            paths: BTreeSet<String>,
            created: BTreeSet<Vec<u8>>,
            renames: Vec<(Vec<u8>, Vec<u8>)>,
            inside_create_ok: bool,
            inside_deletes_ok: u64,
            syscalls: u64,
        }
        let mut pending: HashMap<String, String> = HashMap::new();
        let mut cur: Option<Win> = None;
        let mut windows_seen = 0u64;
        let mut escaped_paths: BTreeSet<Vec<u8>> = BTreeSet::new();
        let mut real_cache: HashMap<Vec<u8>, Vec<u8>> = HashMap::new();
        // injectivity bookkeeping: root -> path -> [(kid, role)]
        let mut written: BTreeMap<Vec<u8>, BTreeMap<Vec<u8>, Vec<(String, &'static str)>>> = BTreeMap::new();
        let mut ck_owner: BTreeMap<(Vec<u8>, String, String), String> = BTreeMap::new();
        let mut put_windows_with_inside_create = 0u64;
        let mut lines_total = 0u64;
        let mut marker_errors = 0u64;
        let mut reader = std::io::BufReader::new(f);
        let mut raw_line: Vec<u8> = Vec::new();
        loop {
            raw_line.clear();
            match reader.read_until(b'\n', &mut raw_line) {
                Ok(0) | Err(_) => break,
                Ok(_) => {}
            }
            lines_total += 1;
            let line = String::from_utf8_lossy(&raw_line);
            let line = line.trim_end();
            let Some((pid, rest)) = line.split_once(' ') else { continue };
            let rest = rest.trim_start();
            let full: String = if let Some(r) = rest.strip_prefix("<... ") {
                let Some(pos) = r.find(" resumed>") else { continue };
                let tail = &r[pos + " resumed>".len()..];
                let Some(head) = pending.remove(pid) else { continue };
                format!("{head}{tail}")
            } else if let Some(head) = rest.strip_suffix(" <unfinished ...>") {
                pending.insert(pid.to_string(), head.to_string());
                continue;
            } else {
                rest.to_string()
            };
            if full.starts_with("---") || full.starts_with("+++") {
                continue;
            }
            let Some(call) = slog::parse_call(&full) else {
                ctx.obs("strace.unparsed_lines", 1);
                continue;
            };
            // markers
            if call.name == "access" {
                if let Some(p) = call.args.first().and_then(|t| t.str_val.as_ref()) {
                    if let Some(m) = p.strip_prefix(b"/VH_MARK/") {
                        let m = String::from_utf8_lossy(m).to_string();
                        let mut it = m.split('/');
                        let n: u64 = it.next().and_then(|x| x.parse().ok()).unwrap_or(0);
                        match it.next() {
                            Some("b") => {
                                if cur.is_some() {
                                    marker_errors += 1;
                                }
                                cur = Some(Win { n, worst: None, lines: Vec::new(), paths: BTreeSet::new(), created: BTreeSet::new(), renames: Vec::new(), inside_create_ok: false, inside_deletes_ok: 0, syscalls: 0 });
                            }
                            Some("e") => {
                                let Some(w) = cur.take() else {
                                    marker_errors += 1;
                                    continue;
                                };
                                if w.n != n {
                                    marker_errors += 1;
                                    continue;
                                }
                                windows_seen += 1;
                                let Some(rec) = calls.get(&n) else {
                                    marker_errors += 1;
                                    continue;
                                };
                                ctx.obs("strace.syscalls_in_windows", w.syscalls);
                                if w.inside_deletes_ok > 0 {
                                    ctx.obs(&format!("monitor.successful_deletes_inside_root.{}", rec.api), w.inside_deletes_ok);
                                }
                                if let Some(sc) = w.worst {
                                    ctx.violation(
                                        &format!("C20|{}|escapes-root|{}|{}", rec.api, rec.class, sc.name()),
                                        &format!("{} with a {} string made a {}-class file syscall on a path outside the configured directory", rec.api, rec.class, sc.name()),
                                        json!({"call":n,"api":rec.api,"variant":rec.variant,"string_class":rec.class,"strings":rec.strings,"cache_key":rec.ck,
                                               "root":String::from_utf8_lossy(&rec.root),"outcome":rec.outcome,"msg":rec.msg,
                                               "escaping_paths":w.paths.iter().take(8).collect::<Vec<_>>(),"syscalls":w.lines.iter().take(8).collect::<Vec<_>>()}),
                                    );
                                }
                                let is_put = rec.api.ends_with("::put") || rec.api.ends_with("::put_with_ttl") || rec.api.contains("::store_");
                                if is_put && rec.outcome == "ok" && w.inside_create_ok {
                                    put_windows_with_inside_create += 1;
                                }
                                if rec.wf && is_put {
                                    if let (Some(kid), Some(ck)) = (&rec.kid, &rec.ck) {
                                        let tname = kid.split('{').next().unwrap_or("").to_string();
                                        let key = (rec.root.clone(), tname, ck.clone());
                                        match ck_owner.get(&key) {
                                            Some(other) if other != kid => ctx.violation(
                                                &format!("C20|{}|key-collision|ambiguous-cache-key-format", rec.api.split("::").next().unwrap_or("")),
                                                "two well-formed typed keys that differ in a field format to the same cache-key string",
                                                json!({"key_a":other,"key_b":kid,"cache_key":ck}),
                                            ),
                                            Some(_) => {}
                                            None => {
                                                ck_owner.insert(key, kid.clone());
                                            }
                                        }
                                        let froms: BTreeSet<&Vec<u8>> = w.renames.iter().map(|(f, _)| f).collect();
                                        let m = written.entry(rec.root.clone()).or_default();
                                        for (f, t) in &w.renames {
                                            m.entry(f.clone()).or_default().push((kid.clone(), "temp"));
                                            m.entry(t.clone()).or_default().push((kid.clone(), "final"));
                                        }
                                        for cpath in &w.created {
                                            if !froms.contains(cpath) {
                                                m.entry(cpath.clone()).or_default().push((kid.clone(), "final"));
                                            }
                                        }
                                    }
                                }
                            }
                            _ => marker_errors += 1,
                        }
                        continue;
                    }
                }
            }
            let Some(w) = cur.as_mut() else {
                ctx.obs("strace.syscalls_outside_windows", 1);
                continue;
            };
            w.syscalls += 1;
            let Some(rec) = calls.get(&w.n) else { continue };
            let Some(uses) = path_uses(&call) else {
                ctx.obs(&format!("strace.unknown_syscall.{}", call.name), 1);
                continue;
            };
            ctx.obs(&format!("syscall.{}", call.name), 1);
            let mut normed: Vec<(Vec<u8>, &'static str)> = Vec::new();
            for u in &uses {
                if u.path.is_empty() {
                    // fd-relative operation on an already opened object (AT_EMPTY_PATH)
                    continue;
                }
                let base: &[u8] = u.base.as_deref().filter(|b| b.starts_with(b"/")).unwrap_or(&cwd);
                let lex = lex_norm(base, &u.path);
                ctx.obs("strace.paths_checked", 1);
                // glibc's NSS layer stats "/" when a host name is resolved (hostile `host` strings only)
                let site = rec.variant.strip_suffix("/same-request-again").unwrap_or(&rec.variant);
                let resolver_root_probe = lex == b"/" && u.class == Sc::Stat && (site.ends_with("endpoint.host") || site.ends_with("cdns-row.Hosts"));
                if resolver_root_probe || system_allowed(&lex, &extra_allowed) {
                    ctx.obs("strace.paths_runtime_allowlist", 1);
                    continue;
                }
                let real = real_cache.entry(lex.clone()).or_insert_with(|| real_norm(&lex)).clone();
                let ok_inside = inside(&lex, &rec.root) && inside(&real, &rec.root);
                normed.push((lex.clone(), u.role));
                if ok_inside {
                    ctx.obs("strace.paths_inside_root", 1);
                    if u.class == Sc::Create && call.ok {
                        w.inside_create_ok = true;
                    }
                    if u.class == Sc::Delete && call.ok {
                        w.inside_deletes_ok += 1;
                    }
                } else {
                    ctx.obs("strace.paths_outside_root", 1);
                    escaped_paths.insert(lex.clone());
                    w.worst = Some(w.worst.map_or(u.class, |x| x.max(u.class)));
                    w.paths.insert(String::from_utf8_lossy(&lex).to_string());
                    if w.lines.len() < 8 {
                        w.lines.push(full.chars().take(400).collect());
                    }
                }
                if u.class == Sc::Create && call.ok {
                    w.created.insert(lex.clone());
                }
            }
            if call.ok && matches!(call.name.as_str(), "rename" | "renameat" | "renameat2") && normed.len() == 2 {
                w.renames.push((normed[0].0.clone(), normed[1].0.clone()));
            }
        }
        ctx.obs("strace.log_lines", lines_total);
        ctx.obs("strace.windows", windows_seen);
        if marker_errors > 0 || windows_seen != declared_calls {
            ctx.inconclusive(&format!("marker windows in the strace log ({windows_seen}, {marker_errors} marker errors) do not match the journal ({declared_calls} calls)"));
            return;
        }

        // ---- per-call accounting: evaluations, outcomes, panics, controls ----
        let mut ns: Vec<&u64> = calls.keys().collect();
        ns.sort();
        let mut class_counts: BTreeMap<String, u64> = BTreeMap::new();
        for n in ns {
            let rec = &calls[n];
            let h = mix64(fnv64(rec.api.as_bytes()), mix64(fnv64(rec.variant.as_bytes()), fnv64(rec.strings.join("\u{0}").as_bytes())));
            if rec.nt {
                ctx.eval_nontrivial(h);
            } else {
                ctx.eval();
            }
            ctx.obs(&format!("calls.{}", rec.api), 1);
            *class_counts.entry(rec.class.clone()).or_insert(0) += 1;
            ctx.obs(&format!("outcome.{}.{}", rec.api, rec.outcome), 1);
            if rec.outcome == "err" && !rec.wf && !rec.control {
                ctx.obs("refusals_or_errors_total", 1);
            }
            if rec.control && rec.outcome != "ok" {
                ctx.inconclusive(&format!("control call {} with a plain string did not succeed ({}: {}) — the harness does not drive this API correctly", rec.api, rec.outcome, rec.msg));
            }
            if rec.control && rec.api == "DiskCache::get" && !rec.msg.starts_with("some:VH-VALUE") {
                ctx.inconclusive("control DiskCache::get did not return the stored value");
            }
            let mut seen_classes: BTreeSet<String> = BTreeSet::new();
            for (msg, loc) in &rec.panics {
                if loc.contains("src/bin/c20") {
                    ctx.inconclusive(&format!("harness panic at {loc}: {msg}"));
                    continue;
                }
                let pc = panic_class(msg);
                if !seen_classes.insert(pc.clone()) {
                    continue;
                }
                ctx.violation(
                    &format!("C20|{}|panic|{}", rec.api, pc),
                    &format!("{} panicked ({pc}) for a {} input", rec.api, rec.class),
                    json!({"call":n,"api":rec.api,"variant":rec.variant,"string_class":rec.class,"strings":rec.strings,"panic_message":msg,"location":loc,"outcome":rec.outcome}),
                );
            }
            if rec.outcome == "panic" && rec.panics.is_empty() {
                ctx.violation(
                    &format!("C20|{}|panic|{}", rec.api, panic_class(&rec.msg)),
                    &format!("{} panicked for a {} input", rec.api, rec.class),
                    json!({"call":n,"api":rec.api,"variant":rec.variant,"strings":rec.strings,"panic_message":rec.msg}),
                );
            }
            if ctx.want_sample() && rec.nt && (*n % 97 == 3 || rec.outcome == "err") && *n % 7 == 3 {
                ctx.sample(json!({"call":n,"api":rec.api,"variant":rec.variant,"string_class":rec.class,"strings":rec.strings,"outcome":rec.outcome,"msg":rec.msg}));
            }
        }
        ctx.set_extra("string_classes", json!(class_counts));

        // ---- injectivity: files written by different well-formed keys ----
        let mut shared_kids: BTreeSet<String> = BTreeSet::new();
        let mut pairs_checked = 0u64;
        for (root, m) in &written {
            for (path, owners) in m {
                let kids: BTreeSet<&String> = owners.iter().map(|(k, _)| k).collect();
                pairs_checked += 1;
                if kids.len() < 2 {
                    continue;
                }
                let roles: BTreeSet<&str> = owners.iter().map(|(_, r)| *r).collect();
                let reason = if roles.len() == 2 {
                    "temp-name-equals-other-key-file"
                } else if roles.contains("temp") {
                    "shared-temp-file"
                } else {
                    "same-final-file"
                };
                for k in &kids {
                    shared_kids.insert((*k).clone());
                }
                let api = if owners[0].0.starts_with("ProtocolCacheKey") { "ProtocolCache" } else { "DiskCache" };
                ctx.violation(
                    &format!("C20|{api}|key-collision|{reason}"),
                    "two well-formed keys that differ in a field wrote the same file",
                    json!({"root":String::from_utf8_lossy(root),"file":String::from_utf8_lossy(path),"writers":owners.iter().take(6).map(|(k,r)| json!({"key":k,"role":r})).collect::<Vec<_>>()}),
                );
            }
        }
        ctx.obs("injectivity.files_written_by_wellformed_keys", pairs_checked);
        ctx.obs("injectivity.wellformed_keys", ck_owner.len() as u64);
        for rb in &readbacks {
            let result = rb.get("result").and_then(Value::as_str).unwrap_or("");
            ctx.obs(&format!("injectivity.readback.{result}"), 1);
            let kid = rb.get("kid").and_then(Value::as_str).unwrap_or("").to_string();
            if result != "own-value" && shared_kids.contains(&kid) {
                let api = rb.get("api").and_then(Value::as_str).unwrap_or("DiskCache");
                ctx.violation(
                    &format!("C20|{api}|key-collision|value-lost-after-shared-file"),
                    "after sequential puts of well-formed keys that shared a file, a key no longer reads back its own value",
                    json!({"key":kid,"readback":result,"root":rb.get("root")}),
                );
            }
        }

        // ---- CDN objects that share one hash: four requests, four different objects, in both passes ----
        for rec in &cdn_inj {
            let results = rec.get("results").and_then(Value::as_array).cloned().unwrap_or_default();
            ctx.eval();
            ctx.obs("injectivity.cdn.hashes", 1);
            let mut first: BTreeMap<String, String> = BTreeMap::new();
            let mut judged = true;
            for r in &results {
                let kind = r.get("kind").and_then(Value::as_str).unwrap_or("").to_string();
                let body = r.get("body").and_then(Value::as_str).unwrap_or("").to_string();
                if r.get("outcome").and_then(Value::as_str) != Some("ok") {
                    // a refused / failed download is not judged here (the mock answers every path)
                    ctx.obs("injectivity.cdn.request_failed(not judged)", 1);
                    judged = false;
                    continue;
                }
                ctx.obs("injectivity.cdn.requests_ok", 1);
                match first.get(&kind) {
                    None => {
                        if let Some((other, _)) = first.iter().find(|(_, b)| **b == body) {
                            ctx.violation(
                                "C20|CdnClient|key-collision|objects-sharing-one-hash-answered-with-one-another",
                                "two different CDN objects with the same hash (config / data / patch file, archive index) were answered with the same bytes through one cache",
                                json!({"hash": rec.get("hash"), "order": rec.get("order"), "kind_a": other, "kind_b": kind, "results": results}),
                            );
                        }
                        first.insert(kind, body);
                    }
                    Some(b) if *b != body => ctx.violation(
                        "C20|CdnClient|key-collision|second-request-answered-with-another-object",
                        "the second request for a CDN object returned other bytes than the first one",
                        json!({"hash": rec.get("hash"), "order": rec.get("order"), "kind": kind, "results": results}),
                    ),
                    Some(_) => {}
                }
            }
            if judged {
                ctx.obs("injectivity.cdn.hashes_fully_judged", 1);
            }
        }
        if !cdn_inj.is_empty() && ctx.get_obs("injectivity.cdn.hashes_fully_judged") == 0 {
            ctx.inconclusive("no CDN injectivity history was answered completely by the mock server");
        }

        // ---- pure path builders (fixed-width binary keys): result must stay inside the directory ----
        for p in &pures {
            let api = p.get("api").and_then(Value::as_str).unwrap_or("");
            let root = p.get("root").and_then(Value::as_str).unwrap_or("").as_bytes().to_vec();
            let path = p.get("path").and_then(Value::as_str).unwrap_or("").as_bytes().to_vec();
            ctx.eval();
            ctx.obs(&format!("calls.{api}"), 1);
            let lex = lex_norm(&cwd, &path);
            if !inside(&lex, &root) || lex == root {
                let class = if api.starts_with("Storage::") { "layout-accessor" } else { "binary-key" };
                ctx.violation(
                    &format!("C20|{api}|escapes-root|{class}|path-result"),
                    "path builder returned a path outside (or equal to) its base directory",
                    json!({"api":api,"input":p.get("input"),"path":String::from_utf8_lossy(&path),"root":String::from_utf8_lossy(&root)}),
                );
            }
        }

        // ---- before/after listing of the sandbox (backstop for what the syscall monitor might miss) ----
        let mut after = BTreeMap::new();
        snapshot(area, &roots, &mut after);
        let covered = |p: &Path| -> bool {
            let b = p.as_os_str().as_bytes();
            escaped_paths.iter().any(|e| e.as_slice() == b || inside(e, b))
        };
        let mut listing_changes = 0u64;
        for (p, e) in &after {
            let kind = match before.get(p) {
                None => Some("create"),
                Some(b) if b != e => Some("modify"),
                _ => None,
            };
            if let Some(kind) = kind {
                listing_changes += 1;
                if !covered(p) {
                    ctx.violation(
                        &format!("C20|sandbox-listing|escapes-root|unattributed|{kind}"),
                        "the before/after listing of the sandbox shows a change outside every configured root that no monitored syscall explains",
                        json!({"path":p.to_string_lossy(),"change":kind}),
                    );
                }
            }
        }
        for p in before.keys() {
            if !after.contains_key(p) {
                listing_changes += 1;
                if !covered(p) {
                    ctx.violation(
                        "C20|sandbox-listing|escapes-root|unattributed|delete",
                        "the before/after listing of the sandbox shows a deletion outside every configured root that no monitored syscall explains",
                        json!({"path":p.to_string_lossy()}),
                    );
                }
            }
        }
        ctx.obs("listing.entries_before", before.len() as u64);
        ctx.obs("listing.entries_after", after.len() as u64);
        ctx.obs("listing.changes_outside_roots", listing_changes);
        ctx.obs("roots_configured", roots.len() as u64);
        ctx.obs("monitor.put_windows_with_observed_create_inside_root", put_windows_with_inside_create);
        let _ = sb;

        // ---- floors: the monitor must have seen the library work ----
        if put_windows_with_inside_create < 20 {
            ctx.inconclusive("the syscall monitor observed fewer than 20 successful writes inside a configured root — it may be blind");
        }
        if ctx.get_obs("strace.paths_inside_root") < 100 {
            ctx.inconclusive("fewer than 100 path arguments inside configured roots were observed");
        }
        // the repeated CDN requests are only worth something if the client's cache answered (some of) them
        if ctx.get_obs("cdn.second_requests_answered_without_a_request_to_the_server") < 20 {
            ctx.inconclusive("fewer than 20 repeated CDN requests were answered without a request reaching the mock server — the cache-answer path of the client was not exercised");
        }
        // the maintenance calls are only worth something if they were seen deleting files of their directory
        for api in [
            "DiskCache::clear", "DiskCache::background_cleanup", "ProtocolCache::clear", "HardLinkContainer::remove", "HardLinkContainer::remove_file", "HardLinkContainer::delete_keys",
            "HardLinkContainer::clean_directory", "HardLinkContainer::compact_directory", "LruManager::shutdown", "LruManager::run_cycle",
        ] {
            if ctx.get_obs(&format!("monitor.successful_deletes_inside_root.{api}")) == 0 {
                ctx.inconclusive(&format!("{api} was never observed deleting a file inside its directory — the maintenance workload did not do its job"));
            }
        }
        for api in ["DiskCache::put", "DiskCache::get", "DiskCache::remove", "ProtocolCache::store_bytes", "RibbitTactClient::query", "CdnClient::download", "CdnClient::download_range", "CdnClient::download_archive_index", "Storage::open_installation", "IndexManager::save_all", "LruManager::checkpoint_to_disk", "format_content_key_path", "lru_file_path",
            // coverage-driven extension
            "TypedKey::new+as_cache_key+Display+fast_hash", "TypedKey::Display+fast_hash", "DiskCache::size", "DiskCache::stats", "DiskCache::clear", "DiskCache::contains", "DiskCache::background_cleanup",
            "ProtocolCache::stats", "ProtocolCache::len", "ProtocolCache::is_empty", "ProtocolCache::clear", "ProtocolCache::cleanup_expired", "ProtocolCache::hit_rate",
            "CdnClient::download_with_progress", "CdnClient::endpoint_from_bpsv_row", "Storage::list_installations", "Storage::new", "Storage::data_path", "Storage::build_info_path",
            "HardLinkContainer::initialize", "HardLinkContainer::test_support", "HardLinkContainer::create_link", "HardLinkContainer::query", "HardLinkContainer::remove",
            "HardLinkContainer::remove_file", "HardLinkContainer::delete_keys", "HardLinkContainer::clean_directory", "HardLinkContainer::compact_directory",
            "LruManager::shutdown", "LruManager::run_cycle", "LruManager::load_from_disk", "LruManager::scan_directory", "LruManager::find_latest_lru_file", "lru_file::filename_to_generation",
            "IndexManager::add_entry", "IndexManager::load_all", "IndexManager::flush_all_updates", "IndexManager::flush_updates_for_bucket",
        ] {
            if ctx.get_obs(&format!("calls.{api}")) == 0 {
                ctx.inconclusive(&format!("API {api} was never exercised"));
            }
        }
    }
}
